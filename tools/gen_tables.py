"""Translator module: dispatch tables, constructor guards and value keys of the Circuit layer and of the loaders
-> coq/Gen/Tables.v.  Fail-closed: every construct outside the enumerated shapes raises Unsupported.

Circuit/components.py, accepted top level: imports, the class Component, and function definitions of two shapes
  constructor    def f(<params, defaults: int / str / tuple of str>):
                     [periodic_function(wavetype)]                       waveform lookup, anywhere among the guards
                     <guard> ...                                         zero or more, recorded in source order
                     return Component(type='..', id=id, nodes=nodes[, value={'k': <param | param.real | param.imag | int>}])
                 <guard> ::= if P < 0: raise ValueError(...)             P a parameter of f           -> guard P
                           | H(A1, ..., An)                              H a guard helper (below), called as an expression
                                                                         statement, all arguments positional, as many as H
                                                                         has parameters; the argument in the position of H's
                                                                         tested parameter is a parameter P of f (-> guard P),
                                                                         every other argument is a string literal (it can only
                                                                         reach the exception's message, which the table does
                                                                         not carry - as for the inline guard)
  guard helper   def H(Q1 [: ann], ..., Qn [: ann]) [-> ann]:             no defaults, no */** parameters, no decorator
                     if Qi < 0: raise ValueError(...)                     the ONLY statement; Qi one of the parameters
                 (added for the refactoring that moves the sign checks of the source constructors into
                 `_require_not_negative(symbol, value)`).  The call `H(.., P, ..)` means exactly the inline guard
                 `if P < 0: raise ValueError(...)` at that place (same comparison, same operand order, same exception class), so
                 both styles produce the SAME c_guards list.  A guard helper gets no row in component_ctors.  Its name must be
                 defined once in the module, must not be a parameter of the calling constructor, and the call must name it directly.
Any other function shape, statement or call is refused."""
import ast
import os

from v2lib import Unsupported, parse, where, coq_string_codes as S, module_assign, functions


# ------------------------------------------------------------------ components.py
SKIP_COMPONENT_FUNCS = {'is_active'}


def _guard(st, path, params):
    """`if <param> < 0: raise ValueError(...)` -> param name"""
    if not (isinstance(st, ast.If) and not st.orelse and len(st.body) == 1 and isinstance(st.body[0], ast.Raise)):
        raise Unsupported(f'{where(st, path)}: statement other than a guard `if p < 0: raise` before return')
    t = st.test
    if not (isinstance(t, ast.Compare) and len(t.ops) == 1 and isinstance(t.ops[0], ast.Lt) and isinstance(t.left, ast.Name)
            and isinstance(t.comparators[0], ast.Constant) and t.comparators[0].value == 0 and t.left.id in params):
        raise Unsupported(f'{where(st, path)}: guard test is not `<param> < 0`: {ast.unparse(t)}')
    exc = st.body[0].exc
    if not (isinstance(exc, ast.Call) and isinstance(exc.func, ast.Name) and exc.func.id == 'ValueError'):
        raise Unsupported(f'{where(st, path)}: guard raises something other than ValueError')
    return t.left.id


def _vexpr(e, path, params):
    if isinstance(e, ast.Name) and e.id in params:
        return f'VParam {S(e.id)}'
    if isinstance(e, ast.Attribute) and isinstance(e.value, ast.Name) and e.value.id in params and e.attr in ('real', 'imag'):
        return f'{"VReal" if e.attr == "real" else "VImag"} {S(e.value.id)}'
    if isinstance(e, ast.Constant) and isinstance(e.value, int) and not isinstance(e.value, bool):
        return f'VConstZ ({e.value})%Z'
    raise Unsupported(f'{where(e, path)}: value expression {ast.unparse(e)}')


def _default(d, path):
    if d is None:
        return 'NoDefault'
    if isinstance(d, ast.Constant) and isinstance(d.value, int) and not isinstance(d.value, bool):
        return f'DefZ ({d.value})%Z'
    if isinstance(d, ast.Constant) and isinstance(d.value, str):
        return f'DefStr {S(d.value)}'
    if isinstance(d, ast.Tuple) and all(isinstance(x, ast.Constant) and isinstance(x.value, str) for x in d.elts):
        return 'DefNodes [' + '; '.join(S(x.value) for x in d.elts) + ']'
    raise Unsupported(f'{where(d, path)}: default value {ast.unparse(d)}')


def _guard_helper(f, path):
    """`def H(Q1, ..., Qn): if Qi < 0: raise ValueError(...)` -> (parameter names, i); None when f is not of that shape at all
    (i.e. its body is not a single `if` statement: it is then treated as a constructor)"""
    if not (len(f.body) == 1 and isinstance(f.body[0], ast.If)):
        return None
    a = f.args
    if f.decorator_list or a.vararg or a.kwarg or a.kwonlyargs or a.posonlyargs or a.defaults:
        raise Unsupported(f'{where(f, path)}: guard helper {f.name}: decorator / default / star / keyword-only parameters')
    params = [x.arg for x in a.args]
    if len(set(params)) != len(params):
        raise Unsupported(f'{where(f, path)}: guard helper {f.name}: parameter names {params}')
    tested = _guard(f.body[0], path, params)
    return params, params.index(tested)


def _helper_call(s_, path, helpers, params, fname):
    """`H(A1, ..., An)` as a statement of the constructor fname -> the constructor parameter it guards"""
    c = s_.value
    h = c.func.id
    hparams, pos = helpers[h]
    if h in params:
        raise Unsupported(f'{where(s_, path)}: {fname}: the guard helper name {h} is shadowed by a parameter')
    if c.keywords or len(c.args) != len(hparams) or any(isinstance(x, ast.Starred) for x in c.args):
        raise Unsupported(f'{where(s_, path)}: {fname}: call {ast.unparse(c)}: {len(hparams)} positional arguments expected')
    for i, x in enumerate(c.args):
        if i == pos:
            if not (isinstance(x, ast.Name) and x.id in params):
                raise Unsupported(f'{where(s_, path)}: {fname}: {ast.unparse(c)}: the guarded argument {ast.unparse(x)} is not a parameter')
        elif not (isinstance(x, ast.Constant) and isinstance(x.value, str)):
            raise Unsupported(f'{where(s_, path)}: {fname}: {ast.unparse(c)}: argument {ast.unparse(x)} is not a string literal')
    return c.args[pos].id


def components(src):
    path = os.path.join(src, 'Circuit', 'components.py')
    tree = parse(path)
    out = []
    defs = [st.name for st in tree.body if isinstance(st, ast.FunctionDef)]
    helpers = {}
    for st in tree.body:
        if isinstance(st, ast.FunctionDef) and st.name not in SKIP_COMPONENT_FUNCS:
            gh = _guard_helper(st, path)
            if gh is not None:
                if defs.count(st.name) != 1:
                    raise Unsupported(f'{where(st, path)}: guard helper {st.name} is defined more than once')
                helpers[st.name] = gh
    for st in tree.body:
        if isinstance(st, (ast.ImportFrom, ast.Import)):
            continue
        if isinstance(st, ast.ClassDef):
            if st.name != 'Component':
                raise Unsupported(f'{where(st, path)}: unexpected class {st.name}')
            continue
        if not isinstance(st, ast.FunctionDef):
            raise Unsupported(f'{where(st, path)}: unexpected top-level statement')
        if st.name in SKIP_COMPONENT_FUNCS or st.name in helpers:
            continue
        a = st.args
        if a.vararg or a.kwarg or a.kwonlyargs or a.posonlyargs:
            raise Unsupported(f'{where(st, path)}: {st.name}: star/keyword-only parameters')
        params = [x.arg for x in a.args]
        defaults = [None] * (len(params) - len(a.defaults)) + list(a.defaults)
        guards, checks_wave = [], False
        for s_ in st.body[:-1]:
            # `periodic_function(wavetype)`: the waveform lookup (raises UnknownWavetype for unknown names)
            if isinstance(s_, ast.Expr) and isinstance(s_.value, ast.Call) and isinstance(s_.value.func, ast.Name) and \
                    s_.value.func.id == 'periodic_function' and len(s_.value.args) == 1 and not s_.value.keywords and \
                    isinstance(s_.value.args[0], ast.Name) and s_.value.args[0].id == 'wavetype' and 'wavetype' in params:
                checks_wave = True
                continue
            # `H(.., P, ..)` with H a guard helper: the guard `if P < 0: raise ValueError(...)`
            if isinstance(s_, ast.Expr) and isinstance(s_.value, ast.Call) and isinstance(s_.value.func, ast.Name) and \
                    s_.value.func.id in helpers:
                guards.append(_helper_call(s_, path, helpers, params, st.name))
                continue
            guards.append(_guard(s_, path, params))
        ret = st.body[-1]
        if not (isinstance(ret, ast.Return) and isinstance(ret.value, ast.Call) and isinstance(ret.value.func, ast.Name)
                and ret.value.func.id == 'Component' and not ret.value.args):
            raise Unsupported(f'{where(ret, path)}: {st.name} does not end in `return Component(...)`')
        kw = {k.arg: k.value for k in ret.value.keywords}
        if set(kw) - {'type', 'id', 'value', 'nodes'}:
            raise Unsupported(f'{where(ret, path)}: Component(...) keywords {sorted(kw)}')
        if not (isinstance(kw.get('type'), ast.Constant) and isinstance(kw['type'].value, str)):
            raise Unsupported(f'{where(ret, path)}: type is not a string literal')
        for k in ('id', 'nodes'):
            if not (isinstance(kw.get(k), ast.Name) and kw[k].id == k):
                raise Unsupported(f'{where(ret, path)}: {k}= is not the parameter {k}')
        vals = []
        if 'value' in kw:
            v = kw['value']
            if not isinstance(v, ast.Dict):
                raise Unsupported(f'{where(v, path)}: value= is not a dict literal')
            for k, e in zip(v.keys, v.values):
                if not (isinstance(k, ast.Constant) and isinstance(k.value, str)):
                    raise Unsupported(f'{where(v, path)}: value key is not a string literal')
                vals.append((k.value, _vexpr(e, path, params)))
        out.append({'fun': st.name, 'type': kw['type'].value,
                    'params': [(p, _default(d, path)) for p, d in zip(params, defaults)],
                    'guards': guards, 'values': vals, 'wave': checks_wave})
    return out


# ------------------------------------------------------------------ dict-of-callables tables
def table(tree, name, path, allow_lambda=False):
    d = module_assign(tree, name)
    if not isinstance(d, ast.Dict):
        raise Unsupported(f'{path}: {name} is not a dict literal')
    rows = []
    for k, v in zip(d.keys, d.values):
        if not (isinstance(k, ast.Constant) and isinstance(k.value, str)):
            raise Unsupported(f'{where(d, path)}: {name}: key is not a string literal')
        if isinstance(v, ast.Name):
            rows.append((k.value, ('fun', v.id)))
        elif isinstance(v, ast.Attribute) and isinstance(v.value, ast.Name):
            rows.append((k.value, ('fun', v.attr)))
        elif allow_lambda and isinstance(v, ast.Lambda):
            rows.append((k.value, ('lambda', v)))
        else:
            raise Unsupported(f'{where(v, path)}: {name}[{k.value!r}] = {ast.unparse(v)}')
    if len({k for k, _ in rows}) != len(rows):
        raise Unsupported(f'{path}: {name} has duplicate keys')
    return rows


def translator_reads(tree, path, fnames):
    """for each translator function: the value keys it reads (`<first param>.value['k']`), in source order"""
    fs = functions(tree)
    out = []
    for fn in fnames:
        if fn not in fs:
            raise Unsupported(f'{path}: translator function {fn} not found')
        f = fs[fn]
        if not f.args.args:
            raise Unsupported(f'{where(f, path)}: {fn} has no positional parameter')
        p0 = f.args.args[0].arg
        keys = []
        for node in ast.walk(f):
            if isinstance(node, ast.Attribute) and node.attr == 'value' and isinstance(node.value, ast.Name) and node.value.id == p0:
                pass
        for node in ast.walk(f):
            if isinstance(node, ast.Subscript) and isinstance(node.value, ast.Attribute) and node.value.attr == 'value' \
                    and isinstance(node.value.value, ast.Name) and node.value.value.id == p0:
                if not (isinstance(node.slice, ast.Constant) and isinstance(node.slice.value, str)):
                    raise Unsupported(f'{where(node, path)}: {fn}: non-literal value key')
                if node.slice.value not in keys:
                    keys.append(node.slice.value)
            elif isinstance(node, ast.Call) and isinstance(node.func, ast.Attribute) and node.func.attr == 'get' \
                    and isinstance(node.func.value, ast.Attribute) and node.func.value.attr == 'value':
                raise Unsupported(f'{where(node, path)}: {fn}: .value.get(...) (defaulted read) is outside the subset')
        out.append((fn, keys))
    return out


# ------------------------------------------------------------------ loaders.py lambdas
def loader_entry(key, kind, v, path):
    """IR of a network_branch_translators entry:
       (ctor, [(param, key, popped, converted)], passes_rest)
       `elm.f`                                   -> (f, [], True)
       `lambda **kwargs: elm.f(P=to_complex(kwargs.pop('K')), ..., **kwargs)`
       `lambda **kwargs: elm.f(**translate_to_complex(keys=[...], **kwargs))`"""
    if kind == 'fun':
        return (v, [], True)
    lam = v
    if not (lam.args.kwarg and lam.args.kwarg.arg == 'kwargs' and not lam.args.args):
        raise Unsupported(f'{where(lam, path)}: loader lambda is not `lambda **kwargs:`')
    c = lam.body
    if not (isinstance(c, ast.Call) and isinstance(c.func, ast.Attribute) and isinstance(c.func.value, ast.Name)
            and c.func.value.id == 'elm' and not c.args):
        raise Unsupported(f'{where(lam, path)}: loader lambda body is not elm.<ctor>(...)')
    conv = []
    rest = False
    for k in c.keywords:
        if k.arg is None:
            if isinstance(k.value, ast.Name) and k.value.id == 'kwargs':
                rest = True
                continue
            t = k.value
            if isinstance(t, ast.Call) and isinstance(t.func, ast.Name) and t.func.id == 'translate_to_complex' and not t.args:
                kk = {x.arg: x.value for x in t.keywords}
                if set(kk) != {'keys', None} or not isinstance(kk['keys'], ast.List) or not \
                        (isinstance(kk[None], ast.Name) and kk[None].id == 'kwargs'):
                    raise Unsupported(f'{where(t, path)}: translate_to_complex call shape')
                for e in kk['keys'].elts:
                    if not (isinstance(e, ast.Constant) and isinstance(e.value, str)):
                        raise Unsupported(f'{where(t, path)}: translate_to_complex key')
                    # kwargs.update({key: to_complex(kwargs[key])}) on the lambda's own kwargs copy: behaves like pop+pass
                    conv.append((e.value, e.value, True, True))
                rest = True
                continue
            raise Unsupported(f'{where(k.value, path)}: **{ast.unparse(k.value)}')
        t = k.value
        if not (isinstance(t, ast.Call) and isinstance(t.func, ast.Name) and t.func.id == 'to_complex' and len(t.args) == 1
                and not t.keywords):
            raise Unsupported(f'{where(t, path)}: loader argument is not to_complex(...)')
        a = t.args[0]
        if isinstance(a, ast.Call) and isinstance(a.func, ast.Attribute) and a.func.attr == 'pop' and \
                isinstance(a.func.value, ast.Name) and a.func.value.id == 'kwargs' and len(a.args) == 1 and \
                isinstance(a.args[0], ast.Constant):
            conv.append((k.arg, a.args[0].value, True, True))
        elif isinstance(a, ast.Subscript) and isinstance(a.value, ast.Name) and a.value.id == 'kwargs' and \
                isinstance(a.slice, ast.Constant):
            conv.append((k.arg, a.slice.value, False, True))
        else:
            raise Unsupported(f'{where(a, path)}: to_complex argument {ast.unparse(a)}')
    return (c.func.attr, conv, rest)


def element_ctor_params(src):
    """elements.py constructors: name -> [(param, has_default)] and the type string each one stores"""
    path = os.path.join(src, 'Network', 'elements.py')
    tree = parse(path)
    out = {}
    for name, f in functions(tree).items():
        ret = [s for s in ast.walk(f) if isinstance(s, ast.Return)]
        types = set()
        for r in ret:
            c = r.value
            if isinstance(c, ast.Call) and isinstance(c.func, ast.Name) and c.func.id in ('NortenElement', 'TheveninElement'):
                for k in c.keywords:
                    if k.arg == 'type' and isinstance(k.value, ast.Constant):
                        types.add((c.func.id, k.value.value))
        if not types:
            continue
        a = f.args
        params = [x.arg for x in a.args]
        nd = len(a.defaults)
        out[name] = {'params': [(p, i >= len(params) - nd) for i, p in enumerate(params)], 'types': sorted(types)}
    return out


def generate(src):
    comps = components(src)
    tpath = os.path.join(src, 'Circuit', 'transformers.py')
    ttree = parse(tpath)
    ttable = table(ttree, 'transformers', tpath)
    reads = translator_reads(ttree, tpath, sorted({v[1] for _, v in ttable}))
    dpath = os.path.join(src, 'Circuit', 'dump_load.py')
    ctable = table(parse(dpath), 'circuit_component_translators', dpath)
    lpath = os.path.join(src, 'Network', 'loaders.py')
    ltable = table(parse(lpath), 'network_branch_translators', lpath, allow_lambda=True)
    lentries = [(k, loader_entry(k, kind, v, lpath)) for k, (kind, v) in ltable]
    ectors = element_ctor_params(src)

    L = []
    w = L.append
    w('(* GENERATED by tools/gen_tables.py from /repo/src/CircuitCalculator — do not edit.')
    w('   Circuit/components.py (constructors: type string, parameters, `if p < 0: raise` guards, value keys),')
    w('   Circuit/transformers.py (`transformers` table, value keys read by each translator),')
    w('   Circuit/dump_load.py (`circuit_component_translators`), Network/loaders.py (`network_branch_translators`),')
    w('   Network/elements.py (constructor parameter lists and stored type strings). *)')
    w('From Coq Require Import List NArith ZArith.')
    w('Import ListNotations.')
    w('Definition str := list N.')
    w('Inductive vexpr := VParam (p : str) | VReal (p : str) | VImag (p : str) | VConstZ (z : Z).')
    w('Inductive pdefault := NoDefault | DefZ (z : Z) | DefStr (s : str) | DefNodes (l : list str).')
    w('Record ctor := { c_fun : str; c_type : str; c_params : list (str * pdefault); c_guards : list str; '
      'c_values : list (str * vexpr); c_checks_wavetype : bool }.')
    w('Definition component_ctors : list ctor := [')
    rows = []
    for c in comps:
        ps = '; '.join(f'({S(p)}, {d})' for p, d in c['params'])
        gs = '; '.join(S(g) for g in c['guards'])
        vs = '; '.join(f'({S(k)}, {e})' for k, e in c['values'])
        rows.append(f'  (* {c["fun"]} -> {c["type"]} *)\n  {{| c_fun := {S(c["fun"])}; c_type := {S(c["type"])};\n'
                    f'     c_params := [{ps}];\n     c_guards := [{gs}];\n     c_values := [{vs}];\n'
                    f'     c_checks_wavetype := {str(c["wave"]).lower()} |}}')
    w(';\n'.join(rows))
    w('].')
    w('(* Circuit.transformers.transformers : component type -> translator function *)')
    w('Definition transformer_table : list (str * str) := [')
    w(';\n'.join(f'  ({S(k)}, {S(v[1])}) (* {k} -> {v[1]} *)' for k, v in ttable))
    w('].')
    w('(* value keys each translator function reads from its component *)')
    w('Definition translator_reads : list (str * list str) := [')
    w(';\n'.join(f'  ({S(fn)}, [{"; ".join(S(k) for k in keys)}]) (* {fn}: {keys} *)' for fn, keys in reads))
    w('].')
    w('(* Circuit.dump_load.circuit_component_translators : type -> components.py constructor *)')
    w('Definition circuit_loader_table : list (str * str) := [')
    w(';\n'.join(f'  ({S(k)}, {S(v[1])}) (* {k} -> {v[1]} *)' for k, v in ctable))
    w('].')
    w('(* Network.loaders.network_branch_translators: type -> (elements.py constructor, converted arguments, passes **kwargs).')
    w('   converted argument = (constructor parameter, description key, popped from kwargs?, through to_complex?) *)')
    w('Record lentry := { l_type : str; l_ctor : str; l_conv : list (str * str * bool * bool); l_rest : bool }.')
    w('Definition network_loader_table : list lentry := [')
    rows = []
    for k, (ctor, conv, rest) in lentries:
        cs = '; '.join(f'({S(p)}, {S(kk)}, {str(po).lower()}, {str(cv).lower()})' for p, kk, po, cv in conv)
        rows.append(f'  (* {k} -> elm.{ctor} {conv} rest={rest} *)\n  {{| l_type := {S(k)}; l_ctor := {S(ctor)}; '
                    f'l_conv := [{cs}]; l_rest := {str(rest).lower()} |}}')
    w(';\n'.join(rows))
    w('].')
    w('(* Network.elements constructors: name, parameters (name, has default), (class, type string) stored *)')
    w('Definition element_ctors : list (str * list (str * bool) * list (str * str)) := [')
    w(';\n'.join(f'  ({S(n)}, [{"; ".join(f"({S(p)}, {str(d).lower()})" for p, d in e["params"])}], '
                 f'[{"; ".join(f"({S(c)}, {S(t)})" for c, t in e["types"])}]) (* {n} *)' for n, e in ectors.items()))
    w('].')
    return {'Tables.v': '\n'.join(L) + '\n'}
