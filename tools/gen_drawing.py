"""Translator module: the drawing layer SimpleCircuit/{DiagramParser.py, DiagramTranslator.py, CircuitComponentTranslators.py}
(and the facts of SimpleCircuit/Elements.py they rely on) -> coq/Gen/DrawingGen.v, one Gallina definition g_<name> per Python
method / function, written in the vocabulary of coq/Model/DrawingPrims.v and coq/Model/Drawing.v.
Fail-closed: every construct outside the subset enumerated below raises Unsupported naming file:line and construct.

A. Elements.py (facts, not code)
   * round_node, get_nodes, SimpleCircuitElement, simple_circuit_element must be TEXTUALLY (ast.unparse) the shapes recorded
     below; only the default `n_labels` tuple of get_nodes is read (a tuple of 'start' / 'end').
   * every class of the model (MODEL_CLASSES, the c_<Class> constants of Model/Drawing.v) is bound exactly once, by a
     `class` statement whose bases are names of this module or dotted external names and whose decorators are
     `simple_circuit_element` / `extension.<name>`.  issubclass(C, K): C is K or a base NAME of C is a subclass of K.
     A class has the attribute `name` when it or an ancestor of this module is decorated with simple_circuit_element or
     defines `name` in its body (external bases are taken not to provide it).
   * attribute provenance for `element.A` reads of the component translators: `@property def A: return self._f` in the class
     body and exactly one store to self._f in the whole class, at the top level of __init__:
        self._f = p                              -> PArg p          (p a parameter of __init__, never rebound)
        self._f = p if not reverse else -p       -> PNegIfReverse p (reverse a keyword-only parameter; the class is decorated
                                                    with simple_circuit_element and does not define is_reverse)
        self._f = -p if reverse else p           -> PNegIfReverse p (the same selection with the test un-negated and the
                                                    branches swapped; same side conditions)
     anything else: no entry (the read stays the opaque SAttr A).
B. DiagramParser.py / DiagramTranslator.py: methods of the dataclasses SchematicDiagramParser (field drawing) and
   DiagramTranslator (fields diagram_parser, translator_map; __call__ and expression methods, see below), module functions
   _remove_none, circuit_translator, network_translator (and tuple helpers, see below).  Parameters are typed by their annotation: schemdraw.util.Point, str,
   schemdraw.elements.Element, elm.Schematic, list (a list of optionals).
   Statements
     NAME = <expr>          (a set / dict may only be bound to a FRESH value: never `a = b` for mutable b)
     A, B = elm.get_nodes(x)
     NAME += <nat>
     S.add(x); S.remove(x); D.update({k: v})                       (receiver a local name)
     D[k] = v                                                      (D a local dictionary; same entry as D.update({k: v}),
                                                                    v is evaluated before k)
     for NAME in <iterable>: <body>     -> fold over the tuple of the already-bound locals the body rebinds
           iterable: a list; self.all_nodes / self.unique_nodes (iterated in the order parameters oa / ou); any other set
           only with the body `S.remove(NAME)`
     for A, B in <list of elm.get_nodes(..) tuples>: <body>        (the same fold, the loop function binds the components)
     for NAME in <list>: if <test>: return <expr>   followed by the rest of the function
           -> match find (fun NAME => test) list with Some NAME => expr | None => <rest> end   (first match; the test cannot
              raise and rebinds nothing; nothing else may be in the loop)
     while len(S) > V:  V = len(S);  for x in self.<pure list property>: <body>          (fuel #list + 2)
     while str(I) in D.values():  I += 1                                                 (fuel #D + 1)
     while True:  V = len(S);  for .. in L: <body>;  if len(S) == V: return <expr>       (do_until, fuel #L + 2; L a local list
           that the body leaves alone, or a pure list property; last statement of the function; <expr> sees the locals as
           they are after the last round)
     if / elif / else (a branch either ends in return / raise on every path or not at all); return <expr>;
     raise MultipleGroundNodes | UnknownElement(..) | UnknownTranslator(..)
     NAME = self.translator_map[k]      a local translator function (looked up now, applied later as NAME(element, labels))
     A, B = h(x, ..)        h a module function of DiagramTranslator.py whose last statement returns a tuple display (a TUPLE HELPER:
           plain positional parameters annotated elm.Schematic / ... / ElementTranslatorMap, body `NAME = <expr>`* then
           `return <expr>, <expr>[, ..]`, no lambda / := / nested def): accepted only as this statement, at the top level of a
           module function, every argument a NAME (a local of the parameter's kind, or the name of a translator map for an
           ElementTranslatorMap parameter).  INLINED: the statements of h with its parameters renamed to the arguments and its
           locals renamed apart from every name of the caller, then A = <first returned expression>; B = <second> (the targets may
           not occur in the returned expressions, so binding them in turn is the tuple assignment).  h gets no definition of its own.
     def P(e): try: _ = e.name / except AttributeError: return False / return True       (local "hasattr" predicate)
     try: return <expr> / except KeyError: raise <exception>                              (whole function body)
   Expressions
     self.drawing.elements; self.<property>; self.<method>(args); self.diagram_parser.<method>; self.translator_map[k];
     self.m(x, ..) in DiagramTranslator.__call__, m another method of DiagramTranslator: m must be an EXPRESSION METHOD (plain name not
       starting with `__`, undecorated, parameters (self, <annotated plain positional>), body one `return <expr>` without lambda /
       := / comprehension) and every argument the NAME of a local of the annotated kind; INLINED as <expr> with the parameters
       renamed to the arguments (the method's self is the caller's; passing a name evaluates nothing).  Methods named __x__
       (__eq__, __init__, __getattr__ ...) stay refused: they would change what the dataclass is.
     [elt for x in L if cond], {elt for x in L}, {k: v for x in L}, [x for x in L if x is not None];
     type(e) is elm.C; isinstance(e, elm.C); P(e) (local predicate); type(e);
     elm.round_node(e.absanchors['start'|'end']); elm.get_nodes(e) (a static pair), elm.get_nodes(e)[literal],
     tuple(map(<bound method>, elm.get_nodes(e))); e.name; e.node_id (e known to be an elm.Node); A.union(B);
     A.intersection(B); set([x]); len(x); x in A; x not in A; D.keys(); D.values(); str(n); list(<ordered set>); L[literal];
     D[k]; A.pop(); {}; a + b; a > b, a >= b, a < b, a <= b, a == b (integers), s == t (strings); non-negative int literals; None; f(args) for f looked up in a translator map;
     hasattr(e, 'name') (the same has-attribute primitive as the local predicate P above; other attribute names are refused);
     k in D, k not in D for a dictionary D (= k in D.keys());
     a if c else b (c a boolean; a, b of the same kind point / str / int / bool / element): `if c then a else b`; only the
       selected branch is evaluated — when a branch can raise or rebinds a local (S.pop() rebinds S) both branches become
       computations that return the value together with the rebound locals, as the statement form of the conditional does;
     [elm.get_nodes(x) for x in L] (a list of static tuples of points; usable as the iterable of `for A, B in`, in len(..));
     SchematicDiagramParser(schematic); DiagramTranslator(parser, <map>); translator(e); parser.<property>;
     _remove_none(l); Circuit(l); Network(l, g).
C. CircuitComponentTranslators.py: `def f(element: elm.C, nodes: tuple[str, ...])` with body
     [from ..SignalProcessing.periodic_functions import Cls]  return ccp.g(kw=..., ...)        (keywords only)
     if <cond>: return ccp.g(...) / return ccp.g(...)     (same g, id, nodes and keys: merged into conditional values)
   `def none_translator(*_): return None`, and the dict literal circuit_translator_map {elm.C: function name}.
   EXPRESSION HELPERS: a function of the module that another function of the module calls by bare name is not a translator but a
   helper `def h(p, ..): [if c: return e]* return e` (plain positional parameters, not rebound by an import, not a table entry).
   A call h(a, ..) is accepted where a nodes / value expression is, with every argument one of the two parameter NAMES of the
   calling translator, and is INLINED as the conditional expression `e1 if c1 else (e2 if .. else en)` the body amounts to, the
   parameters renamed to the arguments (bool(c) is taken once and only the selected e is evaluated, in both forms; passing a name
   evaluates nothing).  The helper may only mention its parameters, pi, inf and other helpers; it gets no definition of its own
   (a comment in the output records the inlined expression).  `_oriented_nodes(element, nodes)`, `_phase_in_rad(element)`.
   id: element.name; nodes: (nodes[i], nodes[j]) | (nodes[i],) | T if [not] element.is_reverse else T';
   values: element.A | v.real | -v | v*w | v/w | pi | inf | number | Cls.wavetype | v if [not] element.is_reverse else v'
           | v if <cond> else v'  with cond a value or `v == w`; element.A.B.
   Every keyword must be a parameter of components.py's g and every parameter without default must be given.
   Table keys outside MODEL_CLASSES must be in UNMODELLED and bound to none_translator."""
import ast
import os
import re

from v2lib import Unsupported, parse, where, coq_string_codes, functions, classes

ELM = 'SimpleCircuit/Elements.py'
MODEL_CLASSES = ['Resistor', 'Impedance', 'Conductance', 'VoltageSource', 'ComplexVoltageSource', 'CurrentSource',
                 'ComplexCurrentSource', 'ACVoltageSource', 'ACCurrentSource', 'RectVoltageSource', 'RectCurrentSource',
                 'TriangleVoltageSource', 'TriangleCurrentSource', 'SawtoothVoltageSource', 'SawtoothCurrentSource',
                 'Capacitor', 'Inductance', 'Lamp', 'Ground', 'Line', 'LabeledLine', 'Node', 'LabelNode',
                 'RealCurrentSource', 'RealVoltageSource', 'Switch', 'Admittance']
UNMODELLED = ['VoltageLabel', 'CurrentLabel', 'PowerLabel', 'Element']
EXCEPTIONS = {'MultipleGroundNodes': 'EMultipleGround', 'UnknownTranslator': 'EUnknownComponent', 'UnknownElement': 'EOther'}
IDENT = re.compile(r'[A-Za-z_][A-Za-z0-9_]*\Z')
SIMPLE = re.compile(r'[A-Za-z0-9_.\-+ ]*\Z')

EXPECT = {
    'round_node': 'def round_node(node: schemdraw.util.Point) -> schemdraw.util.Point:\n\n    def local_round(x):\n'
                  '        return round(x, ndigits=2)\n    return schemdraw.util.Point((local_round(node.x), local_round(node.y)))',
    'get_nodes': "def get_nodes(element: schemdraw.elements.Element, n_labels: tuple[str, ...]=<LABELS>) -> "
                 "list[schemdraw.util.Point]:\n    try:\n        return [round_node(element.absanchors[n_label]) for n_label in "
                 "n_labels]\n    except KeyError:\n        return []",
    'SimpleCircuitElement': 'class SimpleCircuitElement(ABC):\n\n    def __init__(self, *, name: str, reverse: bool=False):\n'
                            '        self._name = name\n        self._reverse = reverse\n\n    @property\n    def name(self) -> str:\n'
                            '        return self._name\n\n    @property\n    def is_reverse(self) -> bool:\n        return self._reverse\n\n'
                            '    @property\n    def type(self) -> str:\n        ...',
    'simple_circuit_element': "def simple_circuit_element(element):\n\n    class decorated_element(element, SimpleCircuitElement):\n\n"
                              "        def __init__(self, *args, **kwargs):\n            element.__init__(self, *args, **kwargs)\n"
                              "            SimpleCircuitElement.__init__(self, name=kwargs.get('name', ''), "
                              "reverse=kwargs.get('reverse', False))\n    return decorated_element",
}


def rename_names(node, ren):
    """a deep copy of `node` with every Name whose id is a key of `ren` renamed"""
    import copy

    class Rename(ast.NodeTransformer):
        def visit_Name(self, n):
            return ast.copy_location(ast.Name(id=ren[n.id], ctx=n.ctx), n) if n.id in ren else n
    return ast.fix_missing_locations(Rename().visit(copy.deepcopy(node)))


def is_docstring(st):
    return isinstance(st, ast.Expr) and isinstance(st.value, ast.Constant) and isinstance(st.value.value, str)


def S(s):
    """a Python str as a Coq label"""
    if SIMPLE.match(s):
        return f'(lbl "{s}")'
    return coq_string_codes(s)


def cmt(s):
    """text safe inside a Coq comment"""
    return s.replace('(*', '( *').replace('*)', '* )').replace('"', "'")


def dotted(e):
    """a.b.c -> 'a.b.c' (None when not a dotted name)"""
    if isinstance(e, ast.Name):
        return e.id
    if isinstance(e, ast.Attribute):
        b = dotted(e.value)
        return None if b is None else b + '.' + e.attr
    return None


# ====================================================================================================== Elements.py
class Elements:
    def __init__(self, src):
        self.path = os.path.join(src, *ELM.split('/'))
        self.tree = parse(self.path)
        self.cls = {}
        bound = {}
        for st in self.tree.body:
            names = []
            if isinstance(st, (ast.ClassDef, ast.FunctionDef)):
                names = [st.name]
            elif isinstance(st, ast.Assign):
                for t in st.targets:
                    names += [n.id for n in ast.walk(t) if isinstance(n, ast.Name)]
            elif isinstance(st, (ast.AnnAssign, ast.AugAssign)):
                names = [n.id for n in ast.walk(st.target) if isinstance(n, ast.Name)]
            elif isinstance(st, (ast.Import, ast.ImportFrom)):
                names = [(a.asname or a.name).split('.')[0] for a in st.names]
            elif not (isinstance(st, ast.Expr) and isinstance(st.value, ast.Constant)):
                raise Unsupported(f'{where(st, self.path)}: top-level statement {ast.unparse(st).splitlines()[0]}')
            for n in names:
                bound.setdefault(n, []).append(st)
        self.bound = bound
        for name in ('round_node', 'get_nodes', 'SimpleCircuitElement', 'simple_circuit_element'):
            self.single(name)
        for name in MODEL_CLASSES + UNMODELLED:
            st = self.single(name)
            if not isinstance(st, ast.ClassDef):
                raise Unsupported(f'{where(st, self.path)}: {name} is not bound by a class statement')
            self.cls[name] = st
        self.check_shapes()
        self.info = {n: self.class_info(n) for n in MODEL_CLASSES}

    def single(self, name):
        sts = self.bound.get(name, [])
        if len(sts) != 1:
            raise Unsupported(f'{self.path}: the name {name} is bound {len(sts)} times at module level (expected once)')
        return sts[0]

    def check_shapes(self):
        for name in ('round_node', 'SimpleCircuitElement', 'simple_circuit_element'):
            st = self.single(name)
            if ast.unparse(st) != EXPECT[name]:
                raise Unsupported(f'{where(st, self.path)}: {name} differs from the shape the model of points / names / '
                                  f'is_reverse relies on')
        st = self.single('get_nodes')
        if not (isinstance(st, ast.FunctionDef) and len(st.args.defaults) == 1):
            raise Unsupported(f'{where(st, self.path)}: get_nodes signature')
        lab = st.args.defaults[0]
        if not (isinstance(lab, ast.Tuple) and lab.elts and
                all(isinstance(x, ast.Constant) and x.value in ('start', 'end') for x in lab.elts)):
            raise Unsupported(f"{where(st, self.path)}: default n_labels of get_nodes is not a tuple of 'start' / 'end'")
        if ast.unparse(st) != EXPECT['get_nodes'].replace('<LABELS>', ast.unparse(lab)):
            raise Unsupported(f'{where(st, self.path)}: get_nodes differs from the shape the model relies on')
        self.n_labels = [x.value for x in lab.elts]

    def class_info(self, name):
        st = self.cls[name]
        if st.keywords:
            raise Unsupported(f'{where(st, self.path)}: class {name} has keyword arguments (metaclass ...)')
        bases = []
        for b in st.bases:
            d = dotted(b)
            if d is None:
                raise Unsupported(f'{where(st, self.path)}: base of {name} is not a (dotted) name: {ast.unparse(b)}')
            if '.' not in d:
                if d not in self.bound:
                    raise Unsupported(f'{where(st, self.path)}: base {d} of {name} is not a name of this module')
                if d not in self.cls:
                    if d in ('ABC',):
                        continue
                    raise Unsupported(f'{where(st, self.path)}: base {d} of {name} is outside the classes known to the translator')
                if self.cls[d].lineno >= st.lineno:
                    raise Unsupported(f'{where(st, self.path)}: base {d} of {name} is defined later')
                bases.append(d)
        decorated = False
        for dec in st.decorator_list:
            d = dotted(dec)
            if d == 'simple_circuit_element':
                decorated = True
            elif not (d and d.startswith('extension.') and d.count('.') == 1):
                raise Unsupported(f'{where(st, self.path)}: decorator of {name}: {ast.unparse(dec)}')
        defines = set()
        for s in st.body:
            if isinstance(s, (ast.FunctionDef, ast.ClassDef)):
                defines.add(s.name)
            elif isinstance(s, ast.Assign):
                defines |= {n.id for t in s.targets for n in ast.walk(t) if isinstance(n, ast.Name)}
            elif isinstance(s, ast.AnnAssign) and isinstance(s.target, ast.Name):
                defines.add(s.target.id)
        return {'bases': bases, 'decorated': decorated, 'defines': defines}

    def info_of(self, name):
        if name in self.info:
            return self.info[name]
        return self.class_info(name)

    def ancestors(self, name):
        out, todo = [], [name]
        while todo:
            c = todo.pop()
            if c not in out:
                out.append(c)
                todo += self.info_of(c)['bases']
        return out

    def subclasses_of(self, k):
        if k not in self.cls:
            raise Unsupported(f'{self.path}: class {k} is not known to the translator')
        return [c for c in MODEL_CLASSES if k in self.ancestors(c)]

    def classes_with(self, attr):
        if attr != 'name':
            raise Unsupported(f'{self.path}: attribute test for {attr!r} (only `name` is supported)')
        return [c for c in MODEL_CLASSES
                if any(self.info_of(a)['decorated'] or attr in self.info_of(a)['defines'] for a in self.ancestors(c))]

    def node_has_node_id(self):
        """Node.__init__ stores self.node_id unconditionally"""
        st = self.cls['Node']
        for s in st.body:
            if isinstance(s, ast.FunctionDef) and s.name == '__init__':
                for t in s.body:
                    if isinstance(t, ast.Assign) and len(t.targets) == 1 and dotted(t.targets[0]) == 'self.node_id':
                        return True
        return False

    def provenance(self, cname, attr):
        """PArg / PNegIfReverse term for element.attr of class cname, or None"""
        st = self.cls[cname]
        prop = [s for s in st.body if isinstance(s, ast.FunctionDef) and s.name == attr]
        if len(prop) != 1:
            return None
        p = prop[0]
        if not (len(p.decorator_list) == 1 and dotted(p.decorator_list[0]) == 'property' and len(p.body) == 1
                and isinstance(p.body[0], ast.Return) and p.body[0].value is not None):
            return None
        fld = dotted(p.body[0].value)
        if not (fld and fld.startswith('self.') and fld.count('.') == 1):
            return None
        stores = []
        for n in ast.walk(st):
            tg = []
            if isinstance(n, ast.Assign):
                tg = [x for t in n.targets for x in ast.walk(t)]
            elif isinstance(n, (ast.AugAssign, ast.AnnAssign)):
                tg = list(ast.walk(n.target))
            elif isinstance(n, (ast.Delete,)):
                tg = [x for t in n.targets for x in ast.walk(t)]
            elif isinstance(n, ast.NamedExpr):
                tg = list(ast.walk(n.target))
            elif isinstance(n, ast.Call) and dotted(n.func) in ('setattr', 'delattr'):
                return None
            if any(dotted(x) == fld for x in tg if isinstance(x, ast.Attribute)):
                stores.append(n)
        init = [s for s in st.body if isinstance(s, ast.FunctionDef) and s.name == '__init__']
        if len(stores) != 1 or len(init) != 1 or stores[0] not in init[0].body:
            return None
        a = stores[0]
        if not (isinstance(a, ast.Assign) and len(a.targets) == 1 and dotted(a.targets[0]) == fld):
            return None
        ia = init[0].args
        params = [x.arg for x in ia.posonlyargs + ia.args + ia.kwonlyargs]
        rebound = {n.id for n in ast.walk(init[0]) if isinstance(n, ast.Name) and isinstance(n.ctx, (ast.Store, ast.Del))}
        v = a.value
        if isinstance(v, ast.Name) and v.id in params and v.id not in rebound and v.id != 'self':
            return f'PArg {S(v.id)}'
        # `p if not reverse else -p`, or the same selection written `-p if reverse else p` (bool(reverse) is taken once, then
        # exactly one of p / -p is evaluated, in both spellings)
        plain = negated = None
        if isinstance(v, ast.IfExp) and isinstance(v.test, ast.UnaryOp) and isinstance(v.test.op, ast.Not) \
                and isinstance(v.test.operand, ast.Name) and v.test.operand.id == 'reverse':
            plain, negated = v.body, v.orelse
        elif isinstance(v, ast.IfExp) and isinstance(v.test, ast.Name) and v.test.id == 'reverse':
            plain, negated = v.orelse, v.body
        if plain is not None and isinstance(plain, ast.Name) and plain.id in params and plain.id not in rebound \
                and plain.id not in ('self', 'reverse') \
                and isinstance(negated, ast.UnaryOp) and isinstance(negated.op, ast.USub) \
                and isinstance(negated.operand, ast.Name) and negated.operand.id == plain.id:
            inf = self.info_of(cname)
            if 'reverse' in [x.arg for x in ia.kwonlyargs] and 'reverse' not in rebound and inf['decorated'] \
                    and not any('is_reverse' in self.info_of(c)['defines'] for c in self.ancestors(cname)):
                return f'PNegIfReverse {S(plain.id)}'
        return None


# ====================================================================================================== section C
CCT = 'SimpleCircuit/CircuitComponentTranslators.py'


class ComponentTranslators:
    def __init__(self, src, elements):
        self.elements = elements
        self.path = os.path.join(src, *CCT.split('/'))
        self.tree = parse(self.path)
        self.ctor_params = self.component_ctors(src)
        self.wavetypes = self.wave_classes(src)
        self.check_imports()
        self.funcs, self.table, self.table_line = {}, None, None
        for st in self.tree.body:
            if isinstance(st, (ast.Import, ast.ImportFrom)):
                continue
            if isinstance(st, ast.FunctionDef):
                if st.name in self.funcs:
                    raise Unsupported(f'{where(st, self.path)}: function {st.name} defined twice')
                if not IDENT.match(st.name):
                    raise Unsupported(f'{where(st, self.path)}: function name {st.name}')
                self.funcs[st.name] = st
                continue
            if isinstance(st, ast.AnnAssign) and isinstance(st.target, ast.Name) and st.target.id == 'circuit_translator_map' \
                    and st.value is not None and self.table is None:
                self.table, self.table_line = st.value, st.lineno
                continue
            if isinstance(st, ast.Assign) and len(st.targets) == 1 and dotted(st.targets[0]) == 'circuit_translator_map' \
                    and self.table is None:
                self.table, self.table_line = st.value, st.lineno
                continue
            raise Unsupported(f'{where(st, self.path)}: top-level statement {ast.unparse(st).splitlines()[0]}')
        if self.table is None:
            raise Unsupported(f'{self.path}: circuit_translator_map not found')
        self.reads = {}          # function -> attributes read through element.A
        # expression helpers: the functions of the module that another function of the module calls by bare name.  They are inlined
        # at the call (see T.inline) and get no definition of their own.
        self.helpers = {}
        called = {n.func.id for f in self.funcs.values() for n in ast.walk(f)
                  if isinstance(n, ast.Call) and isinstance(n.func, ast.Name) and n.func.id in self.funcs}
        for n in self.funcs:
            if n in called:
                self.helpers[n] = self.helper(self.funcs[n])
        self.defs = {n: self.function(f) for n, f in self.funcs.items() if n not in self.helpers}
        self.rows, self.unmodelled = self.read_table()

    def bad(self, node, what):
        return Unsupported(f'{where(node, self.path)}: {what}')

    @staticmethod
    def component_ctors(src):
        path = os.path.join(src, 'Circuit', 'components.py')
        out = {}
        for name, f in functions(parse(path)).items():
            a = f.args
            if a.vararg or a.kwarg or a.posonlyargs:
                continue
            ps = [x.arg for x in a.args] + [x.arg for x in a.kwonlyargs]
            nd = len(a.defaults)
            req = [x.arg for x in a.args[:len(a.args) - nd]] + [x.arg for x, d in zip(a.kwonlyargs, a.kw_defaults) if d is None]
            out[name] = (ps, req)
        return out

    @staticmethod
    def wave_classes(src):
        path = os.path.join(src, 'SignalProcessing', 'periodic_functions.py')
        out = {}
        for name, c in classes(parse(path)).items():
            vals = []
            for s in c.body:
                if isinstance(s, ast.AnnAssign) and dotted(s.target) == 'wavetype' and s.value is not None:
                    vals.append(s.value)
                elif isinstance(s, ast.Assign) and any(dotted(t) == 'wavetype' for t in s.targets):
                    vals.append(s.value)
            if len(vals) == 1 and isinstance(vals[0], ast.Constant) and isinstance(vals[0].value, str):
                out[name] = vals[0].value
        return out

    def check_imports(self):
        bound = {}
        for st in self.tree.body:
            if isinstance(st, ast.Import):
                for al in st.names:
                    bound[al.asname or al.name.split('.')[0]] = ('import', al.name)
            elif isinstance(st, ast.ImportFrom):
                for al in st.names:
                    bound[al.asname or al.name] = ('from', st.level, st.module, al.name)
        exp = {'elm': ('from', 1, None, 'Elements'), 'ccp': ('from', 2, 'Circuit', 'components'),
               'pi': ('from', 0, 'math', 'pi'), 'inf': ('from', 0, 'math', 'inf')}
        for name, e in exp.items():
            if bound.get(name) != e:
                raise Unsupported(f'{self.path}: the name {name} is bound by {bound.get(name)}, expected {e}')
        self.import_bound = set(bound)

    # ---------------------------------------------------------------- one expression helper
    def helper(self, f):
        """`def h(p, ...): [if c: return e]* return e` -> (parameter names, the conditional expression `e if c else (...)` the body
        amounts to).  bool(c) is taken once and only the selected `e` is evaluated, in the statement form as in the expression form."""
        a = f.args
        if f.decorator_list or a.vararg or a.kwarg or a.kwonlyargs or a.posonlyargs or a.defaults or not a.args:
            raise self.bad(f, f'helper {f.name}: decorated, or parameters other than plain positional ones')
        if f.name in self.import_bound or f.name in ('elm', 'ccp', 'pi', 'inf', 'circuit_translator_map'):
            raise self.bad(f, f'helper {f.name}: the name is also bound by an import')
        params = [x.arg for x in a.args]
        if len(set(params)) != len(params) or any(x in ('elm', 'ccp', 'pi', 'inf') or x in self.funcs for x in params):
            raise self.bad(f, f'helper {f.name}: parameter names {params}')
        body = [st for st in f.body if not (isinstance(st, ast.Expr) and isinstance(st.value, ast.Constant)
                                            and isinstance(st.value.value, str))]
        if not body or not (isinstance(body[-1], ast.Return) and body[-1].value is not None):
            raise self.bad(f, f'helper {f.name}: does not end in `return <expr>`')
        expr = body[-1].value
        for st in reversed(body[:-1]):
            if not (isinstance(st, ast.If) and not st.orelse and len(st.body) == 1 and isinstance(st.body[0], ast.Return)
                    and st.body[0].value is not None):
                raise self.bad(st, f'helper {f.name}: statement {ast.unparse(st).splitlines()[0]} (only `if c: return e` before the '
                                   f'final return)')
            expr = ast.copy_location(ast.IfExp(test=st.test, body=st.body[0].value, orelse=expr), st)
        for n in ast.walk(expr):
            if isinstance(n, (ast.Lambda, ast.NamedExpr, ast.ListComp, ast.SetComp, ast.DictComp, ast.GeneratorExp, ast.Await,
                              ast.Yield, ast.YieldFrom, ast.Starred)):
                raise self.bad(n, f'helper {f.name}: {type(n).__name__}')
            if isinstance(n, ast.Name) and not isinstance(n.ctx, ast.Load):
                raise self.bad(n, f'helper {f.name}: binds {n.id}')
            if isinstance(n, ast.Name) and n.id not in params and n.id not in ('pi', 'inf') and n.id not in self.helpers \
                    and n.id not in self.funcs:
                raise self.bad(n, f'helper {f.name}: the name {n.id} is neither a parameter nor pi / inf')
        return params, expr

    # ---------------------------------------------------------------- one translator function
    def function(self, f):
        a = f.args
        if f.decorator_list:
            raise self.bad(f, f'{f.name}: decorated function')
        if f.name in ('elm', 'ccp', 'pi', 'inf'):
            raise self.bad(f, f'function named {f.name}')
        if a.vararg and not a.args and not a.kwarg and not a.kwonlyargs and not a.posonlyargs:
            if len(f.body) == 1 and isinstance(f.body[0], ast.Return) and \
                    (f.body[0].value is None or (isinstance(f.body[0].value, ast.Constant) and f.body[0].value.value is None)):
                return {'text': f'(* {f.name}( *{a.vararg.arg})   ({CCT}:{f.lineno}) *)\n'
                                f'Definition g_{f.name} : translator_fn gcomponent := fun _ _ => Ok None.\n', 'none': True}
            raise self.bad(f, f'{f.name}: a star-parameter function must be `return None`')
        if a.vararg or a.kwarg or a.kwonlyargs or a.posonlyargs or a.defaults or len(a.args) != 2:
            raise self.bad(f, f'{f.name}: parameters are not (element, nodes)')
        el, nd = a.args[0].arg, a.args[1].arg
        if el == nd or any(x in ('elm', 'ccp', 'pi', 'inf') for x in (el, nd)):
            raise self.bad(f, f'{f.name}: parameter names {el}, {nd}')
        st = T(self, f, el, nd)
        body = list(f.body)
        while body and isinstance(body[0], ast.ImportFrom):
            imp = body.pop(0)
            if not (imp.level == 2 and imp.module == 'SignalProcessing.periodic_functions'):
                raise self.bad(imp, f'{f.name}: local import {ast.unparse(imp)}')
            for al in imp.names:
                nm = al.asname or al.name
                if al.name not in self.wavetypes or nm in (el, nd, 'elm', 'ccp', 'pi', 'inf'):
                    raise self.bad(imp, f'{f.name}: {al.name} is not a class of periodic_functions.py with a literal wavetype')
                st.waves[nm] = self.wavetypes[al.name]
        calls = []       # (cond or None, call)
        while body:
            s = body.pop(0)
            if isinstance(s, ast.Return) and s.value is not None and not body:
                calls.append((None, st.call(s.value)))
            elif isinstance(s, ast.If) and not s.orelse and len(s.body) == 1 and isinstance(s.body[0], ast.Return) \
                    and s.body[0].value is not None and body:
                calls.append((st.cond(s.test), st.call(s.body[0].value)))
            else:
                raise self.bad(s, f'{f.name}: statement {ast.unparse(s).splitlines()[0]}')
        if not calls or calls[-1][0] is not None:
            raise self.bad(f, f'{f.name}: does not end in `return ccp.<constructor>(...)`')
        final = calls[-1][1]
        for cnd, c in reversed(calls[:-1]):
            if (c['ctor'], c['id'], c['nodes'], [k for k, _ in c['values']]) != \
                    (final['ctor'], final['id'], final['nodes'], [k for k, _ in final['values']]):
                raise self.bad(f, f'{f.name}: the conditional returns differ in more than the values handed to the constructor')
            final = dict(final, values=[(k, v if v == w else f'(SIf {cnd} {v} {w})') for (k, v), (_, w) in zip(c['values'], final['values'])])
        self.reads[f.name] = st.reads
        vals = '; '.join(f'({S(k)}, {v})' for k, v in final['values'])
        npre, nterm = final['nodes_code']
        text = (f'(* {f.name}({cmt(ast.unparse(a))})   ({CCT}:{f.lineno}) *)\n'
                f'Definition g_{f.name} : translator_fn gcomponent := fun v_element v_nodes =>\n'
                f'  let* x_nodes := {npre} in\n'
                f'  Ok (Some (mk_gcomponent {S(final["ctor"])} {final["id"]} x_nodes\n    [{vals}])).\n')
        return {'text': text, 'none': False}

    # ---------------------------------------------------------------- the table
    def read_table(self):
        d = self.table
        if not isinstance(d, ast.Dict):
            raise self.bad(d, 'circuit_translator_map is not a dict literal')
        rows, un, seen = [], [], set()
        for k, v in zip(d.keys, d.values):
            kd = dotted(k) if k is not None else None
            if not (kd and kd.startswith('elm.') and kd.count('.') == 1):
                raise self.bad(d, f'circuit_translator_map key {ast.unparse(k) if k else "**"} is not elm.<Class>')
            c = kd[4:]
            if c in seen:
                raise self.bad(k, f'circuit_translator_map: duplicate key elm.{c}')
            seen.add(c)
            if not (isinstance(v, ast.Name) and v.id in self.funcs):
                raise self.bad(v, f'circuit_translator_map[elm.{c}] = {ast.unparse(v)} is not a function of this module')
            if self.funcs[v.id].lineno > self.table_line:
                raise self.bad(v, f'{v.id} is defined after the table')
            if v.id in self.helpers:
                raise self.bad(v, f'{v.id} is called by another function of the module (an inlined helper) and is a table entry as well')
            if c in MODEL_CLASSES:
                rows.append((c, v.id))
            elif c in UNMODELLED:
                if not self.defs[v.id]['none']:
                    raise self.bad(v, f'elm.{c} is outside the model and must map to a `return None` translator')
                un.append((c, v.id))
            else:
                raise self.bad(k, f'class elm.{c} is neither a class of the model nor in the UNMODELLED list')
        return rows, un


class T:
    """expression translation inside one translator function"""

    def __init__(self, owner, f, el, nd):
        self.o, self.f, self.el, self.nd = owner, f, el, nd
        self.waves = {}
        self.reads = []
        self.inlining = []       # helpers being inlined (no recursion)

    def bad(self, node, what):
        return self.o.bad(node, f'{self.f.name}: {what}')

    def is_el(self, e):
        return isinstance(e, ast.Name) and e.id == self.el

    def reverse_test(self, e):
        """element.is_reverse -> True; not element.is_reverse -> False; else None"""
        if isinstance(e, ast.Attribute) and e.attr == 'is_reverse' and self.is_el(e.value):
            return True
        if isinstance(e, ast.UnaryOp) and isinstance(e.op, ast.Not) and self.reverse_test(e.operand) is True:
            return False
        return None

    def inline(self, e):
        """h(a, ...) for an expression helper h of the module, every argument one of the two parameter NAMES of this function
        -> the helper's conditional expression with its parameters renamed to the arguments, else None.  (Passing a name evaluates
        nothing, so the inlined expression does what the call does, in the same order.)"""
        if not (isinstance(e, ast.Call) and isinstance(e.func, ast.Name) and e.func.id in self.o.funcs):
            return None
        h = e.func.id
        if h not in self.o.helpers or h in (self.el, self.nd) or h in self.waves:
            raise self.bad(e, f'call of {h}, which is not an expression helper of the module')
        if h in self.inlining:
            raise self.bad(e, f'recursive helper {h}')
        params, expr = self.o.helpers[h]
        if e.keywords or len(e.args) != len(params) or \
                not all(isinstance(x, ast.Name) and x.id in (self.el, self.nd) for x in e.args):
            raise self.bad(e, f'{ast.unparse(e)}: the arguments of a helper must be the parameter names '
                              f'{self.el} / {self.nd}, positionally, one per parameter')
        ren = {p: x.id for p, x in zip(params, e.args)}

        class Rename(ast.NodeTransformer):
            def visit_Name(self, n):
                return ast.copy_location(ast.Name(id=ren[n.id], ctx=n.ctx), n) if n.id in ren else n
        import copy
        return ast.fix_missing_locations(Rename().visit(copy.deepcopy(expr))), h

    def inlined(self, e, how):
        got = self.inline(e)
        if got is None:
            return None
        body, h = got
        self.inlining.append(h)
        try:
            return how(body)
        finally:
            self.inlining.pop()

    def value(self, e):
        if isinstance(e, ast.Call):
            got = self.inlined(e, self.value)
            if got is not None:
                return got
        if isinstance(e, ast.Attribute):
            if self.is_el(e.value):
                if e.attr in ('is_reverse', 'name', 'absanchors') or not IDENT.match(e.attr):
                    raise self.bad(e, f'value {ast.unparse(e)}')
                if e.attr not in self.reads:
                    self.reads.append(e.attr)
                return f'(attr_value g_attr_prov v_element {S(e.attr)})'
            if isinstance(e.value, ast.Name) and e.value.id in self.waves and e.attr == 'wavetype':
                return f'(SStr {S(self.waves[e.value.id])})'
            if e.attr == 'real':
                return f'(SRealPart {self.value(e.value)})'
            if IDENT.match(e.attr):
                return f'(SDot {self.value(e.value)} {S(e.attr)})'
        if isinstance(e, ast.Name) and e.id in ('pi', 'inf') and e.id not in (self.el, self.nd):
            return 'SPi' if e.id == 'pi' else 'SInf'
        if isinstance(e, ast.Constant) and isinstance(e.value, (int, float)) and not isinstance(e.value, bool):
            return f'(SNum {S(repr(e.value))})'
        if isinstance(e, ast.UnaryOp) and isinstance(e.op, ast.USub):
            return f'(SNeg {self.value(e.operand)})'
        if isinstance(e, ast.BinOp) and isinstance(e.op, (ast.Mult, ast.Div)):
            return f'({"SMul" if isinstance(e.op, ast.Mult) else "SDiv"} {self.value(e.left)} {self.value(e.right)})'
        if isinstance(e, ast.IfExp):
            r = self.reverse_test(e.test)
            a, b = self.value(e.body), self.value(e.orelse)
            if r is None:
                return f'(SIf {self.cond(e.test)} {a} {b})'
            return f'(if s_reverse v_element then {a} else {b})' if r else f'(if negb (s_reverse v_element) then {a} else {b})'
        raise self.bad(e, f'value expression {ast.unparse(e)}')

    def cond(self, e):
        if isinstance(e, ast.Compare) and len(e.ops) == 1 and isinstance(e.ops[0], ast.Eq):
            return f'(CEq {self.value(e.left)} {self.value(e.comparators[0])})'
        if self.reverse_test(e) is not None:
            raise self.bad(e, 'is_reverse as a symbolic condition')
        return f'(CTruth {self.value(e)})'

    def nodes(self, e):
        """-> (canonical text, Coq term of type res (list label))"""
        if isinstance(e, ast.Call):
            got = self.inlined(e, self.nodes)
            if got is not None:
                return got
        if isinstance(e, ast.Tuple):
            idx = []
            for x in e.elts:
                if not (isinstance(x, ast.Subscript) and isinstance(x.value, ast.Name) and x.value.id == self.nd
                        and isinstance(x.slice, ast.Constant) and isinstance(x.slice.value, int)
                        and not isinstance(x.slice.value, bool) and x.slice.value >= 0):
                    raise self.bad(e, f'nodes entry {ast.unparse(x)} is not {self.nd}[<literal>]')
                idx.append(x.slice.value)
            if not idx:
                raise self.bad(e, 'empty nodes tuple')
            names = [f'n{k}' for k in range(len(idx))]
            t = ''.join(f'let* {n} := nth_res v_nodes {i} in ' for n, i in zip(names, idx)) + f'Ok [{"; ".join(names)}]'
            return f'({t})'
        if isinstance(e, ast.IfExp):
            r = self.reverse_test(e.test)
            if r is None:
                raise self.bad(e, f'nodes condition {ast.unparse(e.test)}')
            a, b = self.nodes(e.body), self.nodes(e.orelse)
            return f'(if s_reverse v_element then {a} else {b})' if r else f'(if negb (s_reverse v_element) then {a} else {b})'
        raise self.bad(e, f'nodes expression {ast.unparse(e)}')

    def call(self, e):
        d = dotted(e.func) if isinstance(e, ast.Call) else None
        if not (d and d.startswith('ccp.') and d.count('.') == 1):
            raise self.bad(e, f'returned expression is not ccp.<constructor>(...): {ast.unparse(e)}')
        ctor = d[4:]
        if ctor not in self.o.ctor_params:
            raise self.bad(e, f'ccp.{ctor} is not a constructor of components.py')
        ps, req = self.o.ctor_params[ctor]
        if e.args or any(k.arg is None for k in e.keywords):
            raise self.bad(e, f'ccp.{ctor}: positional or ** arguments')
        kws = [k.arg for k in e.keywords]
        if len(set(kws)) != len(kws) or any(k not in ps for k in kws) or any(r not in kws for r in req if r not in ('id', 'nodes')):
            raise self.bad(e, f'ccp.{ctor}: keywords {kws} do not fit the parameters {ps} (required {req})')
        if 'id' not in kws or 'nodes' not in kws:
            raise self.bad(e, f'ccp.{ctor}: id= and nodes= must both be given')
        out = {'ctor': ctor, 'values': []}
        for k in e.keywords:
            if k.arg == 'id':
                if not (isinstance(k.value, ast.Attribute) and k.value.attr == 'name' and self.is_el(k.value.value)):
                    raise self.bad(e, f'id= is not {self.el}.name')
                out['id'] = '(s_name v_element)'
            elif k.arg == 'nodes':
                out['nodes'] = ast.unparse(k.value)
                out['nodes_code'] = (self.nodes(k.value), None)
            else:
                out['values'].append((k.arg, self.value(k.value)))
        return out


# ====================================================================================================== section B
DP = 'SimpleCircuit/DiagramParser.py'
DT = 'SimpleCircuit/DiagramTranslator.py'
ANNOT = {'schemdraw.util.Point': ('pt',), 'str': ('str',), 'schemdraw.elements.Element': ('sym', None),
         'elm.Schematic': ('schematic',), 'list': ('optlist',)}
COQ_TYPE = {'pt': 'point', 'ptset': 'list point', 'ptlist': 'list point', 'sym': 'symbol', 'symlist': 'list symbol',
            'nat': 'nat', 'bool': 'bool', 'str': 'label', 'schematic': 'drawing'}
MUTABLE = ('ptset', 'dict')


class Var:
    def __init__(self, coq, ty):
        self.coq, self.ty = coq, ty


class Member:
    """a translated method / function"""

    def __init__(self, name):
        self.name, self.text, self.monadic, self.rty, self.needs, self.params = name, None, None, None, [], []
        self.is_property = False

    def call(self, args=()):
        base = {'d': 'd', 'oa': 'oa', 'ou': 'ou'}
        return ' '.join([f'g_{self.name}'] + [base.get(n, n) for n in self.needs] + list(args))


class Fn:
    """translation of one method / function of section B"""

    def __init__(self, gen, f, path, kind):
        self.gen, self.f, self.path, self.kind = gen, f, path, kind      # kind: 'parser' | 'call' | 'module'
        self.env, self.n, self.needs, self.preds = {}, 0, set(), {}
        self.inlining = []       # expression methods being inlined (no recursion)

    def bad(self, node, what):
        return Unsupported(f'{where(node, self.path)}: {self.f.name}: {what}')

    def fresh(self):
        self.n += 1
        return f'x{self.n}'

    # ---------------------------------------------------------------- members of the parser reachable from an expression
    def member_ref(self, e):
        """self.X (parser), self.diagram_parser.X (call), P.X for a local P of type parser -> Member"""
        if not isinstance(e, ast.Attribute):
            return None
        b = e.value
        ok = False
        if self.kind == 'parser' and isinstance(b, ast.Name) and b.id == 'self' and e.attr != 'drawing':
            ok = True
        if self.kind == 'call' and dotted(b) == 'self.diagram_parser':
            ok = True
        if isinstance(b, ast.Name) and b.id in self.env and self.env[b.id].ty == ('parser',):
            ok = True
        if not ok:
            return None
        m = self.gen.parser_member(e.attr, e, self)
        self.needs |= set(m.needs)
        return m

    def is_get_nodes(self, e):
        return isinstance(e, ast.Call) and dotted(e.func) == 'elm.get_nodes' and 'elm' not in self.env

    def is_rounded_anchor(self, e):
        """elm.round_node(X.absanchors['start']) -> (X, 'start')"""
        if isinstance(e, ast.Call) and dotted(e.func) == 'elm.round_node' and 'elm' not in self.env and len(e.args) == 1 \
                and not e.keywords:
            a = e.args[0]
            if isinstance(a, ast.Subscript) and isinstance(a.value, ast.Attribute) and a.value.attr == 'absanchors' \
                    and isinstance(a.slice, ast.Constant) and a.slice.value in ('start', 'end'):
                return a.value.value, a.slice.value
            raise self.bad(e, f'elm.round_node of something other than <element>.absanchors[\'start\'|\'end\']')
        return None

    def can_raise(self, n):
        if isinstance(n, (ast.Raise, ast.Try)):
            return True
        if isinstance(n, ast.FunctionDef):
            return False
        if isinstance(n, ast.Subscript):
            if isinstance(n.ctx, ast.Store):         # D[k] = v stores an entry: only evaluating D and k can raise
                return self.can_raise(n.value) or self.can_raise(n.slice)
            if self.is_get_nodes(n.value):
                return any(self.can_raise(a) for a in n.value.args)
            return True
        if isinstance(n, ast.Call):
            ra = self.is_rounded_anchor(n)
            if ra is not None:
                return self.can_raise(ra[0])
            if isinstance(n.func, ast.Attribute) and n.func.attr in ('remove', 'pop'):
                return True
            if isinstance(n.func, ast.Name) and n.func.id in self.env and self.env[n.func.id].ty[0] in ('translator', 'fn'):
                return True
            if isinstance(n.func, ast.Name) and n.func.id in self.gen.tuple_helpers:
                return True                            # inlined; what it calls is translated in the caller
            if self.kind == 'call' and isinstance(n.func, ast.Attribute) and dotted(n.func.value) == 'self' \
                    and n.func.attr in self.gen.texpr:
                return True                            # an inlined expression method
            if isinstance(n.func, ast.Name) and n.func.id in self.gen.module_members:
                if self.gen.module_member(n.func.id, n, self).monadic:
                    return True
        if isinstance(n, ast.Attribute):
            m = self.member_ref(n)
            if m is not None and m.monadic:
                return True
        return any(self.can_raise(c) for c in ast.iter_child_nodes(n))

    # ---------------------------------------------------------------- expressions: -> (pre, term, type)
    def sym(self, e, what):
        pre, t, ty = self.expr(e)
        if ty[0] != 'sym':
            raise self.bad(e, f'{what}: {ast.unparse(e)} is not an element')
        return pre, t, ty

    def expr(self, e):
        # --- names, constants
        if isinstance(e, ast.Name):
            if e.id in self.env:
                v = self.env[e.id]
                return [], v.coq, v.ty
            raise self.bad(e, f'unbound or unsupported name {e.id}')
        if isinstance(e, ast.Constant):
            if e.value is None:
                return [], 'None', ('none',)
            if isinstance(e.value, int) and not isinstance(e.value, bool) and e.value >= 0:
                return [], str(e.value), ('nat',)
            raise self.bad(e, f'constant {e.value!r}')
        if isinstance(e, ast.Dict) and not e.keys:
            return [], '[]', ('dict', None)
        ra = self.is_rounded_anchor(e) if isinstance(e, ast.Call) else None
        if ra is not None:
            pre, t, _ = self.sym(ra[0], 'absanchors')
            return pre, f'(rounded_anchor {t} A_{ra[1]})', ('pt',)
        if isinstance(e, ast.Attribute):
            return self.attribute(e)
        if isinstance(e, ast.Subscript):
            return self.subscript(e)
        if self.is_get_nodes(e):
            pre, items = self.static_tuple(e)
            return pre, '(' + ', '.join(t for t, _ in items) + ')', ('pttuple', len(items))
        if isinstance(e, ast.Call):
            return self.call(e)
        if isinstance(e, (ast.ListComp, ast.SetComp, ast.DictComp)):
            return self.comprehension(e)
        if isinstance(e, ast.BinOp) and isinstance(e.op, ast.Add):
            pa, ta, tya = self.expr(e.left)
            pb, tb, tyb = self.expr(e.right)
            if tya != ('nat',) or tyb != ('nat',):
                raise self.bad(e, f'addition of non-integers {ast.unparse(e)}')
            return pa + pb, f'({ta} + {tb})', ('nat',)
        if isinstance(e, ast.UnaryOp) and isinstance(e.op, ast.Not):
            p, t, ty = self.expr(e.operand)
            if ty != ('bool',):
                raise self.bad(e, f'`not` of a non-boolean {ast.unparse(e.operand)}')
            return p, f'(negb {t})', ('bool',)
        if isinstance(e, ast.Compare):
            return self.compare(e)
        if isinstance(e, ast.IfExp):
            return self.ifexp(e)
        raise self.bad(e, f'expression {ast.unparse(e)}')

    def ifexp(self, e):
        """`a if c else b`.  Only the selected branch is evaluated: whatever a branch needs to bind (a lookup that can raise, a
        `pop`) stays inside that branch.  A local a branch rebinds (`S.pop()` rebinds S) is handed out of the conditional
        together with the value, exactly as the statement form `if c: x = a / else: x = b` does."""
        pc, tc, tyc = self.expr(e.test)
        if tyc != ('bool',):
            raise self.bad(e, f'condition {ast.unparse(e.test)} of a conditional expression is not a boolean')
        names = [n for n in self.assigned([ast.Expr(value=e.body), ast.Expr(value=e.orelse)]) if n in self.env]
        for n in names:
            if n in self.params:
                raise self.bad(e, f'a branch of the conditional expression mutates the parameter {n}')
        saved = dict(self.env)
        pa, ta, tya = self.expr(e.body)
        self.env = dict(saved)
        pb, tb, tyb = self.expr(e.orelse)
        self.env = saved
        if tya != tyb or tya[0] not in ('pt', 'str', 'nat', 'bool', 'sym'):
            raise self.bad(e, f'branches of the conditional expression are of kinds {tya[0]} / {tyb[0]}')
        if not pa and not pb and not names:
            return pc, f'(if {tc} then {ta} else {tb})', tya
        x = self.fresh()
        vs = [self.env[n].coq for n in names]        # a rebound local keeps its Coq name
        arm_a = self.binds(pa, 'Ok ' + (f'({", ".join([ta] + vs)})' if vs else ta))
        arm_b = self.binds(pb, 'Ok ' + (f'({", ".join([tb] + vs)})' if vs else tb))
        out = f'({", ".join([x] + vs)})' if vs else x
        return pc + [(out, f'(if {tc} then {arm_a} else {arm_b})')], x, tya

    def attribute(self, e):
        d = dotted(e)
        if self.kind == 'parser' and d == 'self.drawing.elements':
            return [], '(drawing_elements d)', ('symlist', None)
        if self.kind == 'call' and d == 'self.translator_map':
            self.needs.add('translator_map')
            return [], 'translator_map', ('tmap',)
        m = self.member_ref(e)
        if m is not None:
            if not m.is_property:
                return [], f'({m.call()})', ('method', m)
            if m.monadic:
                x = self.fresh()
                return [(x, m.call())], x, m.rty
            return [], f'({m.call()})', m.rty
        if isinstance(e.value, ast.Name) and e.value.id in self.env and self.env[e.value.id].ty[0] == 'sym':
            v = self.env[e.value.id]
            if e.attr == 'name':
                return [], f'(s_name {v.coq})', ('str',)
            if e.attr == 'node_id':
                if v.ty[1] not in self.gen.elements.subclasses_of('Node') or not self.gen.elements.node_has_node_id():
                    raise self.bad(e, f'{ast.unparse(e)}: the element is not known to be an elm.Node (AttributeError otherwise)')
                return [], f'(s_node_id {v.coq})', ('str',)
        raise self.bad(e, f'attribute {ast.unparse(e)}')

    def static_tuple(self, e):
        """elm.get_nodes(x) -> [(term, type)]"""
        if not (len(e.args) == 1 and not e.keywords):
            raise self.bad(e, f'elm.get_nodes with other than one positional argument')
        pre, t, _ = self.sym(e.args[0], 'elm.get_nodes')
        return pre, [(f'(rounded_anchor {t} A_{a})', ('pt',)) for a in self.gen.elements.n_labels]

    def subscript(self, e):
        if self.is_get_nodes(e.value):
            pre, items = self.static_tuple(e.value)
            i = e.slice
            if not (isinstance(i, ast.Constant) and isinstance(i.value, int) and not isinstance(i.value, bool)
                    and 0 <= i.value < len(items)):
                raise self.bad(e, f'subscript {ast.unparse(i)} of elm.get_nodes(...) is not a literal index in range')
            return pre, items[i.value][0], items[i.value][1]
        pa, ta, tya = self.expr(e.value)
        if tya[0] == 'tmap':
            pb, tb, tyb = self.expr(e.slice)
            if tyb != ('class',):
                raise self.bad(e, 'translator map subscript is not type(<element>)')
            x = self.fresh()
            return pa + pb + [(x, f'table_lookup {ta} {tb}')], x, ('fn',)
        if tya[0] == 'dict':
            pb, tb, tyb = self.expr(e.slice)
            if tyb != ('pt',) or tya[1] is None:
                raise self.bad(e, f'dictionary key {ast.unparse(e.slice)} is not a point')
            x = self.fresh()
            return pa + pb + [(x, f'kd_lookup {ta} {tb}')], x, tya[1]
        if tya[0] in ('symlist', 'ptlist'):
            i = e.slice
            if not (isinstance(i, ast.Constant) and isinstance(i.value, int) and not isinstance(i.value, bool) and i.value >= 0):
                raise self.bad(e, f'list subscript {ast.unparse(i)} is not a non-negative literal')
            x = self.fresh()
            return pa + [(x, f'nth_res {ta} {i.value}')], x, (('sym', tya[1]) if tya[0] == 'symlist' else ('pt',))
        raise self.bad(e, f'subscript of {ast.unparse(e.value)}')

    def compare(self, e):
        if len(e.ops) != 1:
            raise self.bad(e, f'chained comparison {ast.unparse(e)}')
        op, l, r = e.ops[0], e.left, e.comparators[0]
        if isinstance(op, (ast.Is, ast.IsNot)):
            # type(x) is elm.C
            if isinstance(op, ast.Is) and isinstance(l, ast.Call) and dotted(l.func) == 'type' and 'type' not in self.env \
                    and len(l.args) == 1 and not l.keywords:
                c = self.elm_class(r)
                pre, t, _ = self.sym(l.args[0], 'type(...)')
                return pre, f'(type_is {t} c_{c})', ('bool',)
            raise self.bad(e, f'identity test {ast.unparse(e)}')
        pa, ta, tya = self.expr(l)
        pb, tb, tyb = self.expr(r)
        pre = pa + pb
        if isinstance(op, (ast.In, ast.NotIn)):
            if tyb == ('ptset',) and tya == ('pt',):
                t = f'(set_mem {ta} {tb})'
            elif tyb == ('ptlist',) and tya == ('pt',):
                t = f'(pmem {ta} {tb})'
            elif tyb[0] == 'dict' and tya == ('pt',):          # k in D  is  k in D.keys()
                t = f'(pmem {ta} (dict_keys {tb}))'
            elif tyb == ('strlist',) and tya == ('str',):
                t = f'(lmem {ta} {tb})'
            else:
                raise self.bad(e, f'membership test {ast.unparse(e)}')
            return pre, t if isinstance(op, ast.In) else f'(negb {t})', ('bool',)
        if tya == ('nat',) and tyb == ('nat',):
            if isinstance(op, ast.Gt):
                return pre, f'(Nat.ltb {tb} {ta})', ('bool',)
            if isinstance(op, ast.GtE):
                return pre, f'(Nat.leb {tb} {ta})', ('bool',)
            if isinstance(op, ast.Lt):
                return pre, f'(Nat.ltb {ta} {tb})', ('bool',)
            if isinstance(op, ast.LtE):
                return pre, f'(Nat.leb {ta} {tb})', ('bool',)
            if isinstance(op, ast.Eq):
                return pre, f'(Nat.eqb {ta} {tb})', ('bool',)
        if tya == ('str',) and tyb == ('str',) and isinstance(op, ast.Eq):
            return pre, f'(label_eqb {ta} {tb})', ('bool',)
        raise self.bad(e, f'comparison {ast.unparse(e)}')

    def elm_class(self, e):
        d = dotted(e)
        if not (d and d.startswith('elm.') and d.count('.') == 1 and 'elm' not in self.env):
            raise self.bad(e, f'{ast.unparse(e)} is not elm.<Class>')
        c = d[4:]
        if c not in MODEL_CLASSES:
            raise self.bad(e, f'elm.{c} is not a class of the model')
        return c

    # ---------------------------------------------------------------- iteration, comprehensions
    def iterable(self, e):
        """-> (pre, term, element type, anonymous-set flag)"""
        pre, t, ty = self.expr(e)
        if ty[0] == 'symlist':
            return pre, t, ('sym', ty[1]), False
        if ty == ('ptlist',):
            return pre, t, ('pt',), False
        if ty == ('optlist',):
            return pre, t, ('opt',), False
        if ty[0] == 'pttuplelist':
            return pre, t, ('pttuple', ty[1]), False
        if ty == ('ptset',):
            if isinstance(e, ast.Attribute) and self.member_ref(e) is not None and e.attr in ('all_nodes', 'unique_nodes'):
                o = 'oa' if e.attr == 'all_nodes' else 'ou'
                self.needs.add(o)
                return pre, f'(set_iter {o} {t})', ('pt',), False
            return pre, f'(set_iter_any {t})', ('pt',), True
        raise self.bad(e, f'iteration over {ast.unparse(e)}')

    def binds(self, pre, tail):
        return ''.join(f'let* {x} := {t} in ' for x, t in pre) + tail

    def comprehension(self, e):
        if len(e.generators) != 1:
            raise self.bad(e, 'comprehension with several `for` clauses')
        g = e.generators[0]
        if g.is_async or not isinstance(g.target, ast.Name):
            raise self.bad(e, 'comprehension target is not a plain name')
        name = g.target.id
        if name in self.env or not IDENT.match(name):
            raise self.bad(e, f'comprehension variable {name} shadows a local')
        pre, lt, ety, anon = self.iterable(g.iter)
        if anon:
            raise self.bad(e, f'comprehension over the unordered set {ast.unparse(g.iter)}')
        v = f'v_{name}'
        saved = dict(self.env)
        self.env[name] = Var(v, ety)
        try:
            # [x for x in L if x is not None]
            if isinstance(e, ast.ListComp) and ety == ('opt',):
                c = g.ifs[0] if len(g.ifs) == 1 else None
                if isinstance(e.elt, ast.Name) and e.elt.id == name and isinstance(c, ast.Compare) and len(c.ops) == 1 \
                        and isinstance(c.ops[0], ast.IsNot) and isinstance(c.left, ast.Name) and c.left.id == name \
                        and isinstance(c.comparators[0], ast.Constant) and c.comparators[0].value is None:
                    return pre, f'(filter_not_none {lt})', ('somelist',)
                raise self.bad(e, 'a list of optionals may only be filtered by `x is not None`')
            bound = ety[1] if ety[0] == 'sym' else None
            for c in g.ifs:
                pc, tc, tyc = self.expr(c)
                if pc or tyc != ('bool',):
                    raise self.bad(c, f'comprehension condition {ast.unparse(c)} (must be a boolean that cannot raise)')
                lt = f'(filter (fun {v} => {tc}) {lt})'
                nb = self.narrowing(c, name)
                if nb is not None:
                    bound = nb
                    self.env[name] = Var(v, ('sym', bound))
            if ety[0] == 'sym':
                ety = ('sym', bound)
            if isinstance(e, ast.DictComp):
                pk, tk, tyk = self.expr(e.key)
                pv, tv, tyv = self.expr(e.value)
                if tyk != ('pt',) or tyv[0] not in ('str', 'pt'):
                    raise self.bad(e, 'dict comprehension is not point -> str / point')
                x = self.fresh()
                body = self.binds(pk + pv, f'Ok ({tk}, {tv})')
                return pre + [(x, f'dict_comp_res {lt} (fun {v} => {body})')], x, ('dict', tyv)
            pe, te, tye = self.expr(e.elt)
            if isinstance(e, ast.SetComp):
                if pe or tye != ('pt',):
                    raise self.bad(e, 'set comprehension element is not a point that cannot raise')
                return pre, f'(set_of_list (map (fun {v} => {te}) {lt}))', ('ptset',)
            rty = {'sym': ('symlist', tye[1] if tye[0] == 'sym' else None), 'pt': ('ptlist',), 'opt': ('optlist',),
                   'pttuple': ('pttuplelist', tye[1] if tye[0] == 'pttuple' else None)}.get(tye[0])
            if rty is None:
                raise self.bad(e, f'list comprehension element of kind {tye[0]}')
            if pe:
                x = self.fresh()
                tail = te if (pe[-1][0] == te) else None
                body = self.binds(pe[:-1], pe[-1][1]) if tail else self.binds(pe, f'Ok {te}')
                return pre + [(x, f'map_res (fun {v} => {body}) {lt}')], x, rty
            if isinstance(e.elt, ast.Name) and e.elt.id == name:
                return pre, lt, rty
            return pre, f'(map (fun {v} => {te}) {lt})', rty
        finally:
            self.env = saved

    def narrowing(self, c, name):
        """isinstance(name, elm.C) / type(name) is elm.C -> C"""
        if isinstance(c, ast.Call) and dotted(c.func) == 'isinstance' and len(c.args) == 2 and isinstance(c.args[0], ast.Name) \
                and c.args[0].id == name:
            return self.elm_class(c.args[1])
        if isinstance(c, ast.Compare) and len(c.ops) == 1 and isinstance(c.ops[0], ast.Is) and isinstance(c.left, ast.Call) \
                and dotted(c.left.func) == 'type' and len(c.left.args) == 1 and isinstance(c.left.args[0], ast.Name) \
                and c.left.args[0].id == name:
            return self.elm_class(c.comparators[0])
        return None

    # ---------------------------------------------------------------- calls
    def args_n(self, e, n, what):
        if e.keywords or len(e.args) != n:
            raise self.bad(e, f'{what} with other than {n} positional argument(s): {ast.unparse(e)}')

    def call(self, e):
        f = e.func
        fn = f.id if isinstance(f, ast.Name) and f.id not in self.env else None
        if fn == 'len':
            self.args_n(e, 1, 'len')
            p, t, ty = self.expr(e.args[0])
            if ty[0] not in ('ptset', 'ptlist', 'symlist', 'dict', 'strlist', 'optlist', 'somelist', 'pttuplelist'):
                raise self.bad(e, f'len of {ast.unparse(e.args[0])}')
            return p, f'(length {t})', ('nat',)
        if fn == 'str':
            self.args_n(e, 1, 'str')
            p, t, ty = self.expr(e.args[0])
            if ty != ('nat',):
                raise self.bad(e, f'str of a non-integer {ast.unparse(e.args[0])}')
            return p, f'(py_str {t})', ('str',)
        if fn == 'set':
            self.args_n(e, 1, 'set')
            a = e.args[0]
            if not isinstance(a, ast.List):
                raise self.bad(e, 'set(...) of something other than a list display')
            pre, ts = [], []
            for x in a.elts:
                p, t, ty = self.expr(x)
                if ty != ('pt',):
                    raise self.bad(e, f'set member {ast.unparse(x)} is not a point')
                pre += p
                ts.append(t)
            return pre, f'(set_of_list [{"; ".join(ts)}])', ('ptset',)
        if fn == 'list':
            self.args_n(e, 1, 'list')
            pre, t, ety, anon = self.iterable(e.args[0])
            if anon or ety != ('pt',):
                raise self.bad(e, f'list(...) of {ast.unparse(e.args[0])}: not a set with a modelled iteration order')
            return pre, t, ('ptlist',)
        if fn == 'type':
            self.args_n(e, 1, 'type')
            pre, t, _ = self.sym(e.args[0], 'type(...)')
            return pre, f'(type_of {t})', ('class',)
        if fn == 'isinstance':
            self.args_n(e, 2, 'isinstance')
            pre, t, _ = self.sym(e.args[0], 'isinstance')
            c = self.elm_class(e.args[1])
            self.gen.subclass_defs.setdefault(c, None)
            return pre, f'(isinstance {t} g_subclasses_{c})', ('bool',)
        if fn == 'tuple':
            self.args_n(e, 1, 'tuple')
            m = e.args[0]
            if not (isinstance(m, ast.Call) and dotted(m.func) == 'map' and 'map' not in self.env and len(m.args) == 2
                    and not m.keywords and self.is_get_nodes(m.args[1])):
                raise self.bad(e, 'tuple(...) of something other than map(<method>, elm.get_nodes(<element>))')
            pf, tf, tyf = self.expr(m.args[0])
            if tyf[0] != 'method' or len(tyf[1].params) != 1 or tyf[1].params[0][1] != ('pt',) or tyf[1].rty != ('str',):
                raise self.bad(e, f'{ast.unparse(m.args[0])} is not a point -> str method of the parser')
            pre, items = self.static_tuple(m.args[1])
            pre = pf + pre
            xs = []
            for it, _ in items:
                if tyf[1].monadic:
                    x = self.fresh()
                    pre.append((x, f'{tf[1:-1]} {it}'))
                    xs.append(x)
                else:
                    xs.append(f'({tf[1:-1]} {it})')
            return pre, f'[{"; ".join(xs)}]', ('strtuple',)
        if fn == 'hasattr':
            self.args_n(e, 2, 'hasattr')
            pre, t, _ = self.sym(e.args[0], 'hasattr')
            a = e.args[1]
            if not (isinstance(a, ast.Constant) and isinstance(a.value, str) and IDENT.match(a.value)):
                raise self.bad(e, f'hasattr: the attribute name {ast.unparse(a)} is not a string literal')
            self.gen.elements.classes_with(a.value)      # refuses attributes other than `name`
            self.gen.attr_defs.setdefault(a.value, None)
            return pre, f'(has_attribute {t} g_classes_with_{a.value})', ('bool',)
        if fn is not None and fn in self.preds:
            self.args_n(e, 1, fn)
            pre, t, _ = self.sym(e.args[0], fn)
            self.gen.attr_defs.setdefault(self.preds[fn], None)
            return pre, f'(has_attribute {t} g_classes_with_{self.preds[fn]})', ('bool',)
        if fn == 'SchematicDiagramParser' and self.kind == 'module':
            self.args_n(e, 1, fn)
            p, t, ty = self.expr(e.args[0])
            if ty != ('schematic',) or p:
                raise self.bad(e, 'SchematicDiagramParser(...) of something other than the schematic')
            return [], 'd', ('parser',)
        if fn == 'DiagramTranslator' and self.kind == 'module':
            self.args_n(e, 2, fn)
            p, t, ty = self.expr(e.args[0])
            if ty != ('parser',):
                raise self.bad(e, 'DiagramTranslator(...): first argument is not the parser')
            mp = e.args[1]
            if not (isinstance(mp, ast.Name) and mp.id in self.gen.maps and mp.id not in self.env):
                raise self.bad(e, f'DiagramTranslator(...): unknown translator map {ast.unparse(mp)}')
            term = self.gen.maps[mp.id]
            if term == mp.id:
                self.needs.add(mp.id)
            return [], 'translator', ('translator', term)
        if fn in ('Circuit', 'Network') and self.kind == 'module':
            self.args_n(e, 1 if fn == 'Circuit' else 2, fn)
            pre, ts = [], []
            for a, want in zip(e.args, [('somelist',), ('str',)]):
                p, t, ty = self.expr(a)
                if ty != want:
                    raise self.bad(e, f'{fn}(...): argument {ast.unparse(a)} is of kind {ty[0]}')
                pre += p
                ts.append(t)
            return pre, f'(mk_{fn} {" ".join(ts)})', (fn.lower(),)
        if fn is not None and fn in self.gen.tuple_helpers:
            raise self.bad(e, f'{fn} returns a tuple: only the statement `A, B = {fn}(<names>)` at the top level of a function is accepted')
        if fn is not None and fn in self.gen.module_members:
            m = self.gen.module_member(fn, e, self)
            self.args_n(e, len(m.params), fn)
            pre, ts = [], []
            for a, (_, want) in zip(e.args, m.params):
                p, t, ty = self.expr(a)
                if ty != want:
                    raise self.bad(e, f'{fn}(...): argument {ast.unparse(a)} is of kind {ty[0]}, expected {want[0]}')
                pre += p
                ts.append(t)
            self.needs |= set(m.needs)
            if m.monadic:
                x = self.fresh()
                return pre + [(x, m.call(ts))], x, m.rty
            return pre, f'({m.call(ts)})', m.rty
        if isinstance(f, ast.Name) and f.id in self.env:
            v = self.env[f.id]
            if v.ty[0] == 'translator':
                self.args_n(e, 1, f.id)
                pre, t, _ = self.sym(e.args[0], f.id)
                m = self.gen.call_member(e, self)
                self.needs |= {n for n in m.needs if n != 'translator_map'}
                x = self.fresh()
                return pre + [(x, m.call([t]).replace(' translator_map ', f' {v.ty[1]} ', 1))], x, ('opt',)
            if v.ty == ('fn',):
                # a translator function looked up earlier (`translate = self.translator_map[type(element)]`) and applied now
                self.args_n(e, 2, 'translator function')
                p1, t1, ty1 = self.expr(e.args[0])
                p2, t2, ty2 = self.expr(e.args[1])
                if ty1[0] != 'sym' or ty2 != ('strtuple',):
                    raise self.bad(e, 'translator function applied to other than (element, tuple of node labels)')
                x = self.fresh()
                return p1 + p2 + [(x, f'{v.coq} {t1} {t2}')], x, ('opt',)
            raise self.bad(e, f'call of the local {f.id}')
        if isinstance(f, ast.Attribute):
            return self.method_call(e)
        # f(args) with f looked up in a translator map
        pf, tf, tyf = self.expr(f)
        if tyf == ('fn',):
            self.args_n(e, 2, 'translator function')
            p1, t1, ty1 = self.expr(e.args[0])
            p2, t2, ty2 = self.expr(e.args[1])
            if ty1[0] != 'sym' or ty2 != ('strtuple',):
                raise self.bad(e, 'translator function applied to other than (element, tuple of node labels)')
            x = self.fresh()
            return pf + p1 + p2 + [(x, f'{tf} {t1} {t2}')], x, ('opt',)
        raise self.bad(e, f'call {ast.unparse(e)}')

    def inline_method(self, e):
        """self.m(a, ..) in __call__, m an expression method of DiagramTranslator, every argument the NAME of a local of the declared
        kind -> the method's returned expression with its parameters renamed to the arguments (passing a name evaluates nothing; the
        method's `self` is the caller's)"""
        f = e.func
        plist, expr = self.gen.texpr[f.attr]
        if f.attr in self.inlining:
            raise self.bad(e, f'recursive method {f.attr}')
        if e.keywords or len(e.args) != len(plist):
            raise self.bad(e, f'{f.attr} with other than {len(plist)} positional argument(s): {ast.unparse(e)}')
        ren = {}
        for a, (pn, want) in zip(e.args, plist):
            if not (isinstance(a, ast.Name) and a.id in self.env and self.env[a.id].ty[0] == want[0]):
                raise self.bad(e, f'{f.attr}(...): the argument {ast.unparse(a)} is not the name of a local of kind {want[0]}')
            ren[pn] = a.id
        for n in ast.walk(expr):
            if isinstance(n, ast.Name) and n.id not in ren and n.id != 'self' and n.id in self.env:
                raise self.bad(e, f'{f.attr}(...): the global name {n.id} of the method is a local here')
        return rename_names(expr, ren)

    def inline_tuple_helper(self, st):
        """A, B = h(x, ..) for a tuple-returning function h of the module, at the top level of this function, every argument a NAME
        -> the statements of h with its parameters renamed to the arguments and its locals renamed apart from the names of this
        function, followed by A = <first returned expression>; B = <second>.  The targets may not occur in the returned expressions, so
        binding them one after the other is what the tuple assignment does."""
        tg, c = st.targets[0], st.value
        h = c.func.id
        if self.kind != 'module' or st not in self.f.body:
            raise self.bad(st, f'{h} returns a tuple: only accepted at the top level of a module function')
        plist, body, rets = self.gen.tuple_helpers[h]
        if self.f.name == h:
            raise self.bad(st, f'recursive function {h}')
        if c.keywords or len(c.args) != len(plist) or not all(isinstance(a, ast.Name) for a in c.args):
            raise self.bad(st, f'{h}(...): the arguments must be {len(plist)} names, positionally')
        ren = {}
        for a, (pn, kind) in zip(c.args, plist):
            if kind == 'map':
                ok = a.id in self.gen.maps and a.id not in self.env
            else:
                ok = a.id in self.env and self.env[a.id].ty == kind
            if not ok:
                raise self.bad(st, f'{h}(...): the argument {a.id} is not of the kind of the parameter {pn}')
            ren[pn] = a.id
        if not all(isinstance(x, ast.Name) for x in tg.elts) or len({x.id for x in tg.elts}) != len(tg.elts) \
                or len(tg.elts) != len(rets):
            raise self.bad(st, f'unpacking the {len(rets)} results of {h} into {ast.unparse(tg)}')
        mine = {n.id for n in ast.walk(self.f) if isinstance(n, ast.Name)} | set(self.env) | {x.arg for x in self.f.args.args}
        theirs = {n.id for x in body + rets for n in ast.walk(x) if isinstance(n, ast.Name)} | {pn for pn, _ in plist}
        local = []
        for x in body + rets:
            for n in ast.walk(x):
                if isinstance(n, ast.Name) and isinstance(n.ctx, ast.Store) and n.id not in local:
                    local.append(n.id)
        for n in theirs:
            if n not in ren and n not in local and n in self.env:
                raise self.bad(st, f'{h}(...): the global name {n} of {h} is a local here')
        for n in local:
            if n in mine or n in ren.values():
                k = 1
                while f'{n}_{k}' in mine or f'{n}_{k}' in theirs or f'{n}_{k}' in ren.values():
                    k += 1
                ren[n] = f'{n}_{k}'
        out = [ast.copy_location(rename_names(x, ren), st) for x in body]
        vals = [rename_names(x, ren) for x in rets]
        for x in tg.elts:
            if any(isinstance(n, ast.Name) and n.id == x.id for v in vals for n in ast.walk(v)):
                raise self.bad(st, f'the target {x.id} occurs in what {h} returns')
        for x, v in zip(tg.elts, vals):
            out.append(ast.copy_location(ast.Assign(targets=[ast.Name(id=x.id, ctx=ast.Store())], value=v), st))
        for x in out:
            ast.fix_missing_locations(x)
            for n in ast.walk(x):
                if hasattr(n, 'lineno'):
                    n.lineno = st.lineno
        return out

    def method_call(self, e):
        f = e.func
        if self.kind == 'call' and isinstance(f.value, ast.Name) and f.value.id == 'self' and 'self' not in self.env \
                and f.attr in self.gen.texpr:
            body = self.inline_method(e)
            self.inlining.append(f.attr)
            try:
                return self.expr(body)
            finally:
                self.inlining.pop()
        m = self.member_ref(f)
        if m is not None:
            if m.is_property:
                raise self.bad(e, f'call of the property {f.attr}')
            self.args_n(e, len(m.params), f.attr)
            pre, ts = [], []
            for a, (_, want) in zip(e.args, m.params):
                p, t, ty = self.expr(a)
                if ty[0] != want[0]:
                    raise self.bad(e, f'{f.attr}(...): argument {ast.unparse(a)} is of kind {ty[0]}, expected {want[0]}')
                pre += p
                ts.append(t)
            if m.monadic:
                x = self.fresh()
                return pre + [(x, m.call(ts))], x, m.rty
            return pre, f'({m.call(ts)})', m.rty
        pa, ta, tya = self.expr(f.value)
        if f.attr in ('union', 'intersection') and tya == ('ptset',):
            self.args_n(e, 1, f.attr)
            pb, tb, tyb = self.expr(e.args[0])
            if tyb != ('ptset',):
                raise self.bad(e, f'{f.attr} with a non-set {ast.unparse(e.args[0])}')
            return pa + pb, f'({"set_union" if f.attr == "union" else "set_inter"} {ta} {tb})', ('ptset',)
        if f.attr == 'keys' and tya[0] == 'dict':
            self.args_n(e, 0, 'keys')
            return pa, f'(dict_keys {ta})', ('ptlist',)
        if f.attr == 'values' and tya == ('dict', ('str',)):
            self.args_n(e, 0, 'values')
            return pa, f'(dict_values {ta})', ('strlist',)
        if f.attr == 'pop' and tya == ('ptset',) and isinstance(f.value, ast.Name):
            self.args_n(e, 0, 'pop')
            x = self.fresh()
            # the receiver loses the member: rebind it
            return pa + [(f'({x}, {ta})', f'set_pop {ta}')], x, ('pt',)
        raise self.bad(e, f'method call {ast.unparse(e)}')

    # ---------------------------------------------------------------- statements
    def assigned(self, stmts):
        """locals (re)bound by the statements, in first-occurrence order"""
        out = []

        def add(n):
            if n not in out:
                out.append(n)

        def walk(n):
            if isinstance(n, ast.FunctionDef):
                return
            if isinstance(n, ast.Assign):
                for t in n.targets:
                    if isinstance(t, ast.Subscript) and isinstance(t.value, ast.Name):
                        add(t.value.id)            # D[k] = v rebinds D (k is only read)
                        continue
                    for x in ast.walk(t):
                        if isinstance(x, ast.Name):
                            add(x.id)
            elif isinstance(n, ast.AugAssign) and isinstance(n.target, ast.Name):
                add(n.target.id)
            elif isinstance(n, ast.For):
                for x in ast.walk(n.target):
                    if isinstance(x, ast.Name):
                        add(x.id)
            elif isinstance(n, ast.Call) and isinstance(n.func, ast.Attribute) and isinstance(n.func.value, ast.Name) \
                    and n.func.attr in ('add', 'remove', 'update', 'pop', 'discard', 'clear', 'append', 'extend', 'insert',
                                        'setdefault', 'popitem', 'sort', 'reverse', 'difference_update',
                                        'intersection_update', 'symmetric_difference_update'):
                add(n.func.value.id)
            for c in ast.iter_child_nodes(n):
                walk(c)
        for s in stmts:
            walk(s)
        return out

    @staticmethod
    def terminates(stmts):
        if not stmts:
            return False
        s = stmts[-1]
        if isinstance(s, (ast.Return, ast.Raise)):
            return True
        if isinstance(s, ast.If):
            return Fn.terminates(s.body) and Fn.terminates(s.orelse)
        return False

    def has_exit(self, stmts):
        return any(isinstance(n, (ast.Return, ast.Raise)) for s in stmts for n in ast.walk(s) if not isinstance(s, ast.FunctionDef))

    def pat(self, names, binder):
        vs = [self.env[n].coq for n in names]
        if len(vs) == 1:
            return vs[0]
        return ("'" if binder else '') + '(' + ', '.join(vs) + ')'

    def let(self, pre, m, node):
        if pre and not m:
            raise self.bad(node, 'internal: a construct that can raise inside a block classified as pure')
        return pre

    def emit_pre(self, pre, ind):
        return ''.join(f'{ind}let* {x} := {t} in\n' for x, t in pre)

    def bind_local(self, st, name, ty):
        if not IDENT.match(name) or name == 'self' or name in self.gen.reserved or name in self.params:
            raise self.bad(st, f'assignment to the reserved / parameter name {name}')
        if name in self.env and self.env[name].ty[0] != ty[0]:
            raise self.bad(st, f'{name} changes kind ({self.env[name].ty[0]} -> {ty[0]})')
        self.env[name] = Var(f'v_{name}', ty)

    def block(self, stmts, ctx, m, ind):
        if not stmts:
            if ctx[0] == 'ret':
                raise self.bad(self.f, 'a path ends without return / raise')
            t = self.pat(ctx[1], False)
            return f'{ind}{"Ok " if m else ""}{t}\n'
        st, rest = stmts[0], stmts[1:]
        if isinstance(st, ast.Expr) and isinstance(st.value, ast.Constant) and isinstance(st.value.value, str):
            return self.block(rest, ctx, m, ind)
        if isinstance(st, ast.FunctionDef):
            self.local_predicate(st)
            return self.block(rest, ctx, m, ind)
        if isinstance(st, ast.Return):
            if ctx[0] != 'ret' or rest or st.value is None:
                raise self.bad(st, 'return inside a loop / conditional update, bare return, or statement after return')
            pre, t, ty = self.expr(st.value)
            self.let(pre, m, st)
            self.note_return(st, ty)
            if pre and pre[-1][0] == t:
                return self.emit_pre(pre[:-1], ind) + f'{ind}{pre[-1][1]}\n'
            return self.emit_pre(pre, ind) + f'{ind}{"Ok " if m else ""}{t}\n'
        if isinstance(st, ast.Raise):
            if ctx[0] != 'ret' or rest or not m:
                raise self.bad(st, 'raise inside a loop / conditional update, or statement after raise')
            x = st.exc.func if isinstance(st.exc, ast.Call) else st.exc
            if st.cause is not None or not (isinstance(x, ast.Name) and x.id in EXCEPTIONS and x.id not in self.env):
                raise self.bad(st, f'raise of {ast.unparse(st)} (known: {sorted(EXCEPTIONS)})')
            return f'{ind}Err {EXCEPTIONS[x.id]}\n'
        if isinstance(st, ast.Try):
            if ctx[0] != 'ret' or rest or not m:
                raise self.bad(st, 'try is accepted only as the whole body of a function')
            if st.orelse or st.finalbody or len(st.handlers) != 1 or dotted(st.handlers[0].type) != 'KeyError' \
                    or st.handlers[0].name is not None:
                raise self.bad(st, 'try shape (expected try / except KeyError)')
            saved = dict(self.env)
            body = self.block(st.body, ctx, m, ind + '    ')
            self.env = dict(saved)
            handler = self.block(st.handlers[0].body, ctx, m, ind + '    ')
            self.env = saved
            return f'{ind}except_KeyError (\n{body}{ind}  ) (\n{handler}{ind}  )\n'
        if isinstance(st, ast.Assign):
            return self.assign(st, rest, ctx, m, ind)
        if isinstance(st, ast.AugAssign):
            if not (isinstance(st.target, ast.Name) and isinstance(st.op, ast.Add) and st.target.id in self.env
                    and self.env[st.target.id].ty == ('nat',)):
                raise self.bad(st, f'augmented assignment {ast.unparse(st)}')
            pre, t, ty = self.expr(st.value)
            if ty != ('nat',):
                raise self.bad(st, 'increment by a non-integer')
            v = self.env[st.target.id].coq
            return self.emit_pre(self.let(pre, m, st), ind) + f'{ind}let {v} := ({v} + {t}) in\n' + self.block(rest, ctx, m, ind)
        if isinstance(st, ast.Expr):
            return self.mutation(st, rest, ctx, m, ind)
        if isinstance(st, ast.For):
            return self.for_loop(st, rest, ctx, m, ind)
        if isinstance(st, ast.While):
            return self.while_loop(st, rest, ctx, m, ind)
        if isinstance(st, ast.If):
            return self.if_stmt(st, rest, ctx, m, ind)
        raise self.bad(st, f'statement {type(st).__name__}: {ast.unparse(st).splitlines()[0]}')

    def note_return(self, st, ty):
        if ty[0] in ('pttuple', 'pttuplelist', 'method', 'class'):
            raise self.bad(st, f'return of a value of kind {ty[0]}')
        if self.rty is None:
            self.rty = ty
        elif self.rty[0] != ty[0]:
            raise self.bad(st, f'returns of different kinds ({self.rty[0]} / {ty[0]})')

    def local_predicate(self, st):
        shape = 'def P(e): try: _ = e.<attr> / except AttributeError: return False / return True'
        a = st.args
        ok = len(a.args) == 1 and not (a.vararg or a.kwarg or a.kwonlyargs or a.posonlyargs or a.defaults or st.decorator_list) \
            and len(st.body) == 2 and isinstance(st.body[0], ast.Try) and isinstance(st.body[1], ast.Return)
        if ok:
            p, t, r = a.args[0].arg, st.body[0], st.body[1]
            ok = len(t.body) == 1 and isinstance(t.body[0], ast.Assign) and len(t.body[0].targets) == 1 \
                and isinstance(t.body[0].targets[0], ast.Name) and t.body[0].targets[0].id == '_' \
                and isinstance(t.body[0].value, ast.Attribute) and isinstance(t.body[0].value.value, ast.Name) \
                and t.body[0].value.value.id == p and not t.orelse and not t.finalbody and len(t.handlers) == 1 \
                and dotted(t.handlers[0].type) == 'AttributeError' and len(t.handlers[0].body) == 1 \
                and isinstance(t.handlers[0].body[0], ast.Return) and isinstance(t.handlers[0].body[0].value, ast.Constant) \
                and t.handlers[0].body[0].value.value is False and isinstance(r.value, ast.Constant) and r.value.value is True
        if not ok or st.name in self.env or st.name in self.gen.reserved:
            raise self.bad(st, f'nested function {st.name} is not of the shape `{shape}`')
        attr = st.body[0].body[0].value.attr
        self.gen.elements.classes_with(attr)      # refuses attributes other than `name`
        self.preds[st.name] = attr

    def assign(self, st, rest, ctx, m, ind):
        if len(st.targets) != 1:
            raise self.bad(st, 'chained assignment')
        tg = st.targets[0]
        if isinstance(tg, ast.Tuple) and isinstance(st.value, ast.Call) and isinstance(st.value.func, ast.Name) \
                and st.value.func.id in self.gen.tuple_helpers and st.value.func.id not in self.env:
            return self.block(self.inline_tuple_helper(st) + rest, ctx, m, ind)
        if isinstance(tg, ast.Tuple):
            if not (self.is_get_nodes(st.value) and all(isinstance(x, ast.Name) for x in tg.elts)):
                raise self.bad(st, 'tuple assignment from something other than elm.get_nodes(<element>)')
            pre, items = self.static_tuple(st.value)
            if len(items) != len(tg.elts) or len({x.id for x in tg.elts}) != len(tg.elts):
                raise self.bad(st, f'unpacking {len(items)} nodes into {len(tg.elts)} names')
            out = self.emit_pre(self.let(pre, m, st), ind)
            for x, (t, ty) in zip(tg.elts, items):
                self.bind_local(st, x.id, ty)
                out += f'{ind}let v_{x.id} := {t} in\n'
            return out + self.block(rest, ctx, m, ind)
        if isinstance(tg, ast.Subscript):
            # D[k] = v  (Python evaluates v, then D and k): the same entry as D.update({k: v})
            if not (isinstance(tg.value, ast.Name) and tg.value.id in self.env and self.env[tg.value.id].ty[0] == 'dict'):
                raise self.bad(st, f'item assignment to something other than a local dictionary: {ast.unparse(tg)}')
            name = tg.value.id
            if name in self.params:
                raise self.bad(st, f'mutation of the parameter {name}')
            pv, tv, tyv = self.expr(st.value)
            pk, tk, tyk = self.expr(tg.slice)
            v = self.env[name]
            if tyk != ('pt',) or tyv[0] not in ('pt', 'str') or (v.ty[1] is not None and v.ty[1] != tyv):
                raise self.bad(st, f'item assignment {ast.unparse(st)} does not fit the dictionary')
            self.env[name] = Var(v.coq, ('dict', tyv))
            return self.emit_pre(self.let(pv + pk, m, st), ind) + f'{ind}let {v.coq} := kd_set {v.coq} {tk} {tv} in\n' + \
                self.block(rest, ctx, m, ind)
        if not isinstance(tg, ast.Name):
            raise self.bad(st, f'assignment target {ast.unparse(tg)}')
        pre, t, ty = self.expr(st.value)
        if ty[0] in MUTABLE and isinstance(st.value, ast.Name):
            raise self.bad(st, f'{tg.id} = {st.value.id} aliases a mutable object')
        if ty[0] in ('method', 'none', 'class', 'pttuple'):
            raise self.bad(st, f'assignment of a value of kind {ty[0]}')
        self.let(pre, m, st)
        self.bind_local(st, tg.id, ty)
        v = f'v_{tg.id}'
        if ty[0] in ('parser', 'translator'):          # no run-time content: the parser is (d, oa, ou), the translator its map
            self.env[tg.id] = Var(t, ty)
            return self.emit_pre(pre, ind) + f'{ind}(* {cmt(ast.unparse(st))} *)\n' + self.block(rest, ctx, m, ind)
        if pre and pre[-1][0] == t:
            out = self.emit_pre(pre[:-1], ind) + f'{ind}let* {v} := {pre[-1][1]} in\n'
        else:
            out = self.emit_pre(pre, ind) + f'{ind}let {v} := {t} in\n'
        return out + self.block(rest, ctx, m, ind)

    def mutation(self, st, rest, ctx, m, ind):
        c = st.value
        if not (isinstance(c, ast.Call) and isinstance(c.func, ast.Attribute) and isinstance(c.func.value, ast.Name)
                and c.func.value.id in self.env and not c.keywords and len(c.args) == 1):
            raise self.bad(st, f'expression statement {ast.unparse(st)}')
        name, meth = c.func.value.id, c.func.attr
        v = self.env[name]
        if name in self.params:
            raise self.bad(st, f'mutation of the parameter {name}')
        if meth in ('add', 'remove') and v.ty == ('ptset',):
            pre, t, ty = self.expr(c.args[0])
            if ty != ('pt',):
                raise self.bad(st, f'{meth} of a non-point')
            if meth == 'add':
                out = self.emit_pre(self.let(pre, m, st), ind) + f'{ind}let {v.coq} := set_add {t} {v.coq} in\n'
            else:
                out = self.emit_pre(self.let(pre + [(v.coq, f'set_remove {t} {v.coq}')], m, st), ind)
            return out + self.block(rest, ctx, m, ind)
        if meth == 'update' and v.ty[0] == 'dict':
            a = c.args[0]
            if not (isinstance(a, ast.Dict) and len(a.keys) == 1 and a.keys[0] is not None):
                raise self.bad(st, 'update with something other than a one-entry dict display')
            pk, tk, tyk = self.expr(a.keys[0])
            pv, tv, tyv = self.expr(a.values[0])
            if tyk != ('pt',) or tyv[0] not in ('pt', 'str') or (v.ty[1] is not None and v.ty[1] != tyv):
                raise self.bad(st, f'update entry {ast.unparse(a)} does not fit the dictionary')
            self.env[name] = Var(v.coq, ('dict', tyv))
            return self.emit_pre(self.let(pk + pv, m, st), ind) + f'{ind}let {v.coq} := kd_set {v.coq} {tk} {tv} in\n' + \
                self.block(rest, ctx, m, ind)
        raise self.bad(st, f'method statement {ast.unparse(st)}')

    def state_of(self, body, node):
        names = [n for n in self.assigned(body) if n in self.env]
        if not names:
            raise self.bad(node, 'the body rebinds no local that is live before it')
        for n in names:
            if n in self.params:
                raise self.bad(node, f'the body rebinds the parameter {n}')
        return names

    def loop_targets(self, st):
        """`for x in` / `for a, b in`  ->  the names"""
        tg = st.target
        if isinstance(tg, ast.Name):
            xs = [tg.id]
        elif isinstance(tg, ast.Tuple) and tg.elts and all(isinstance(x, ast.Name) for x in tg.elts):
            xs = [x.id for x in tg.elts]
        else:
            raise self.bad(st, f'loop target {ast.unparse(tg)}')
        for x in xs:
            if x in self.env or not IDENT.match(x) or x in self.gen.reserved or xs.count(x) != 1:
                raise self.bad(st, f'loop variable {x} shadows a local')
        return xs

    def bind_targets(self, st, xs, ety):
        """binds the loop variables; -> the Coq binder of the loop function"""
        if isinstance(st.target, ast.Tuple):
            if ety[0] != 'pttuple' or ety[1] != len(xs):
                raise self.bad(st, f'unpacking the members of {ast.unparse(st.iter)} into {len(xs)} names')
            for x in xs:
                self.env[x] = Var(f'v_{x}', ('pt',))
            return "'(" + ', '.join(f'v_{x}' for x in xs) + ')'
        if ety[0] == 'pttuple':
            raise self.bad(st, f'the members of {ast.unparse(st.iter)} are tuples: unpack them in the loop target')
        self.env[xs[0]] = Var(f'v_{xs[0]}', ety)
        return f'v_{xs[0]}'

    def for_loop(self, st, rest, ctx, m, ind):
        if st.orelse:
            raise self.bad(st, 'for loop with else')
        xs = self.loop_targets(st)
        if self.has_exit(st.body):
            return self.for_find(st, xs, rest, ctx, m, ind)
        x = xs[0]
        names = self.state_of(st.body, st)
        if isinstance(st.iter, ast.Name) and st.iter.id in names:
            raise self.bad(st, 'the loop body mutates the object it iterates')
        pre, lt, ety, anon = self.iterable(st.iter)
        if anon:
            b = st.body[0].value if len(st.body) == 1 and isinstance(st.body[0], ast.Expr) else None
            if not (len(xs) == 1 and isinstance(b, ast.Call) and isinstance(b.func, ast.Attribute) and b.func.attr == 'remove'
                    and len(b.args) == 1 and isinstance(b.args[0], ast.Name) and b.args[0].id == x):
                raise self.bad(st, f'iteration over the unordered set {ast.unparse(st.iter)} with a body other than S.remove({x})')
        mb = any(self.can_raise(s) for s in st.body)
        if mb and not m:
            raise self.bad(st, 'internal: raising loop body in a pure block')
        saved = dict(self.env)
        vx = self.bind_targets(st, xs, ety)
        body = self.block(st.body, ('state', names), mb, ind + '    ')
        types = {n: self.env[n].ty for n in names}
        self.env = saved
        for n in names:
            self.env[n] = Var(self.env[n].coq, types[n])
        out = self.emit_pre(self.let(pre, m, st), ind)
        if mb:
            out += f'{ind}let* {self.pat(names, False)} := for_res {lt} {self.pat(names, False)} (fun {self.pat(names, True)} {vx} =>\n{body}{ind}  ) in\n'
        else:
            out += f'{ind}let {self.pat(names, True)} := fold_left (fun {self.pat(names, True)} {vx} =>\n{body}{ind}  ) {lt} {self.pat(names, False)} in\n'
        return out + self.block(rest, ctx, m, ind)

    def for_find(self, st, xs, rest, ctx, m, ind):
        """for x in L: if c: return e      (nothing else in the body; c cannot raise and rebinds nothing)
           <rest>
        = the first member of L satisfying c decides the result, <rest> runs when there is none:
           match find (fun x => c) L with Some x => e | None => <rest> end"""
        shape = '`for x in <list>: if <test>: return <expr>`'
        b = st.body[0] if len(st.body) == 1 else None
        if not (ctx[0] == 'ret' and len(xs) == 1 and isinstance(st.target, ast.Name) and isinstance(b, ast.If) and not b.orelse
                and len(b.body) == 1 and isinstance(b.body[0], ast.Return) and b.body[0].value is not None):
            raise self.bad(st, f'a for loop with return / raise inside must have the shape {shape}')
        x = xs[0]
        pre, lt, ety, anon = self.iterable(st.iter)
        if anon or ety[0] == 'pttuple':
            raise self.bad(st, f'early return from an iteration over {ast.unparse(st.iter)} (no modelled order)')
        if self.can_raise(b.test) or self.assigned([ast.Expr(value=b.test)]):
            raise self.bad(b, f'the test of {shape} can raise or mutates a local')
        saved = dict(self.env)
        self.env[x] = Var(f'v_{x}', ety)
        pc, tc, tyc = self.expr(b.test)
        if pc or tyc != ('bool',):
            raise self.bad(b, f'the test of {shape} is not a boolean that cannot raise')
        found = self.block([b.body[0]], ctx, m, ind + '    ')
        self.env = dict(saved)
        missing = self.block(rest, ctx, m, ind + '    ')
        self.env = saved
        return self.emit_pre(self.let(pre, m, st), ind) + \
            f'{ind}match find (fun v_{x} => {tc}) {lt} with\n{ind}| Some v_{x} =>\n{found}{ind}| None =>\n{missing}{ind}end\n'

    def do_until(self, st, rest, ctx, m, ind):
        """while True:
               V = len(S)
               for <targets> in L: <body>           (L a local list or a pure list property of the parser)
               if len(S) == V: return <expr>
        The body runs, then the test decides between returning and another round: do_until fuel body stop next state
        (Model/DrawingPrims.v), fuel = loop_bound L = #L + 2 (Theory/DrawingGenThm.v: more fuel never changes the result)."""
        shape = '`while True: V = len(S); for .. in L: ..; if len(S) == V: return <expr>`'
        if st.orelse or rest or ctx[0] != 'ret' or len(st.body) != 3:
            raise self.bad(st, f'`while True` is accepted only as the last statement of a function, in the shape {shape}')
        a, f, last = st.body
        if not (isinstance(last, ast.If) and not last.orelse and len(last.body) == 1 and isinstance(last.body[0], ast.Return)
                and last.body[0].value is not None):
            raise self.bad(st, f'`while True` without a final `if <test>: return <expr>` (accepted shape: {shape})')
        B = [a, f]
        if self.has_exit(B) or any(self.can_raise(s) for s in B) or self.can_raise(last.test):
            raise self.bad(st, f'`while True` body with return / raise / a construct that can raise before the final test')
        fuel = None
        t = last.test
        if isinstance(a, ast.Assign) and len(a.targets) == 1 and isinstance(a.targets[0], ast.Name) \
                and isinstance(a.value, ast.Call) and dotted(a.value.func) == 'len' and 'len' not in self.env \
                and len(a.value.args) == 1 and not a.value.keywords and isinstance(a.value.args[0], ast.Name) \
                and isinstance(f, ast.For) and isinstance(t, ast.Compare) and len(t.ops) == 1 and isinstance(t.ops[0], ast.Eq) \
                and sorted([ast.dump(t.left), ast.dump(t.comparators[0])]) == \
                sorted([ast.dump(a.value), ast.dump(ast.Name(id=a.targets[0].id, ctx=ast.Load()))]):
            it = f.iter
            if isinstance(it, ast.Name) and it.id in self.env and it.id not in self.assigned(B) \
                    and self.env[it.id].ty[0] in ('symlist', 'ptlist', 'pttuplelist'):
                fuel = f'(loop_bound {self.env[it.id].coq})'
            elif isinstance(it, ast.Attribute) and self.member_ref(it) is not None:
                mem = self.member_ref(it)
                if mem.is_property and not mem.monadic and mem.rty[0] == 'symlist':
                    fuel = f'(loop_bound ({mem.call()}))'
        if fuel is None:
            raise self.bad(st, f'`while True` loop of a shape without a known iteration bound (accepted shape: {shape})')
        carried = self.state_of(B, st)
        top = [a.targets[0].id]
        after = [n for n in self.assigned(B) if n in carried or n in top]
        saved = dict(self.env)
        p_in, pb_in = self.pat(carried, False), self.pat(carried, True)
        body = self.block(B, ('state', after), False, ind + '    ')
        pc, tc, tyc = self.expr(t)
        if pc or tyc != ('bool',):
            raise self.bad(last, 'the final test of the `while True` loop is not a boolean that cannot raise')
        p_out, pb_out = self.pat(after, False), self.pat(after, True)
        types = {n: self.env[n] for n in after}
        self.env = saved
        for n in after:
            self.env[n] = Var(types[n].coq, types[n].ty)
        out = (f'{ind}let {pb_out} := do_until {fuel} (fun {pb_in} =>\n{body}{ind}  ) (fun {pb_out} => {tc}) '
               f'(fun {pb_out} => {p_in}) {p_in} in\n')
        return out + self.block([last.body[0]], ctx, m, ind)

    def while_loop(self, st, rest, ctx, m, ind):
        if isinstance(st.test, ast.Constant) and st.test.value is True:
            return self.do_until(st, rest, ctx, m, ind)
        if st.orelse or self.has_exit(st.body) or any(self.can_raise(s) for s in st.body) or self.can_raise(st.test):
            raise self.bad(st, 'while loop with else / return / raise / a body that can raise')
        t = st.test
        fuel = None
        # while len(S) > V:  V = len(S); for x in self.<list property>: ...
        if isinstance(t, ast.Compare) and len(t.ops) == 1 and isinstance(t.ops[0], ast.Gt) and isinstance(t.left, ast.Call) \
                and dotted(t.left.func) == 'len' and len(t.left.args) == 1 and isinstance(t.left.args[0], ast.Name) \
                and isinstance(t.comparators[0], ast.Name) and len(st.body) == 2:
            s_, v_ = t.left.args[0].id, t.comparators[0].id
            a, f = st.body
            if isinstance(a, ast.Assign) and len(a.targets) == 1 and dotted(a.targets[0]) == v_ \
                    and ast.dump(a.value) == ast.dump(t.left) and isinstance(f, ast.For) \
                    and isinstance(f.iter, ast.Attribute) and self.member_ref(f.iter) is not None:
                mem = self.member_ref(f.iter)
                if mem.is_property and not mem.monadic and mem.rty[0] == 'symlist':
                    fuel = f'(loop_bound ({mem.call()}))'
        # while str(I) in D.values():  I += 1
        if isinstance(t, ast.Compare) and len(t.ops) == 1 and isinstance(t.ops[0], ast.In) and isinstance(t.left, ast.Call) \
                and dotted(t.left.func) == 'str' and len(t.left.args) == 1 and isinstance(t.left.args[0], ast.Name) \
                and isinstance(t.comparators[0], ast.Call) and isinstance(t.comparators[0].func, ast.Attribute) \
                and t.comparators[0].func.attr == 'values' and isinstance(t.comparators[0].func.value, ast.Name) \
                and len(st.body) == 1 and isinstance(st.body[0], ast.AugAssign) and dotted(st.body[0].target) == t.left.args[0].id \
                and isinstance(st.body[0].value, ast.Constant) and st.body[0].value.value == 1 \
                and not isinstance(st.body[0].value.value, bool):
            dn = t.comparators[0].func.value.id
            if dn in self.env and self.env[dn].ty[0] == 'dict':
                fuel = f'(S (length {self.env[dn].coq}))'
        if fuel is None:
            raise self.bad(st, 'while loop of a shape without a known iteration bound (see the module docstring)')
        names = self.state_of(st.body, st)
        pc, tc, tyc = self.expr(t)
        if pc or tyc != ('bool',):
            raise self.bad(st, 'while test')
        saved = dict(self.env)
        body = self.block(st.body, ('state', names), False, ind + '    ')
        self.env = saved
        p, pb = self.pat(names, False), self.pat(names, True)
        out = (f'{ind}let {pb} := while_loop {fuel} (fun {pb} => {tc}) (fun {pb} =>\n{body}{ind}  ) {p} in\n')
        return out + self.block(rest, ctx, m, ind)

    def if_stmt(self, st, rest, ctx, m, ind):
        pre, tc, tyc = self.expr(st.test)
        if tyc != ('bool',):
            raise self.bad(st, f'if test {ast.unparse(st.test)} is not a boolean')
        out = self.emit_pre(self.let(pre, m, st), ind)
        t1, t2 = self.terminates(st.body), self.terminates(st.orelse)
        if t1 or t2 or self.has_exit(st.body) or self.has_exit(st.orelse):
            if ctx[0] != 'ret':
                raise self.bad(st, 'return / raise inside a loop body')
            if not (t1 or t2):
                raise self.bad(st, 'a branch returns on some paths only')
            saved = dict(self.env)
            a = self.block(st.body + ([] if t1 else rest), ctx, m, ind + '  ')
            self.env = dict(saved)
            b = self.block(st.orelse + ([] if t2 else rest), ctx, m, ind + '  ')
            self.env = saved
            if t1 and t2 and rest:
                raise self.bad(rest[0], 'unreachable statement')
            return out + f'{ind}if {tc} then\n{a}{ind}else\n{b}'
        names = [n for n in self.assigned(st.body + st.orelse) if n in self.env]
        if not names:
            raise self.bad(st, 'the conditional rebinds no local that is live before it')
        mb = any(self.can_raise(s) for s in st.body + st.orelse)
        if mb and not m:
            raise self.bad(st, 'internal: raising branch in a pure block')
        saved = dict(self.env)
        a = self.block(st.body, ('state', names), mb, ind + '    ')
        ta = {n: self.env[n].ty for n in names}
        self.env = dict(saved)
        b = self.block(st.orelse, ('state', names), mb, ind + '    ')
        tb = {n: self.env[n].ty for n in names}
        self.env = saved
        for n in names:
            ty = ta[n] if ta[n] == tb[n] or tb[n] == saved[n].ty else tb[n]
            if ta[n] != tb[n] and ta[n] != saved[n].ty and tb[n] != saved[n].ty:
                raise self.bad(st, f'{n} has different kinds after the two branches')
            self.env[n] = Var(saved[n].coq, ty)
        p = self.pat(names, False)
        if mb:
            out += f'{ind}let* {p} :=\n{ind}  if {tc} then\n{a}{ind}  else\n{b}{ind}  in\n'
        else:
            out += f'{ind}let {self.pat(names, True)} :=\n{ind}  if {tc} then\n{a}{ind}  else\n{b}{ind}  in\n'
        return out + self.block(rest, ctx, m, ind)

    # ---------------------------------------------------------------- the function
    def coq_type(self, ty):
        if ty[0] in COQ_TYPE:
            return COQ_TYPE[ty[0]]
        if ty[0] == 'dict' and ty[1] is not None:
            return f'kdict {COQ_TYPE[ty[1][0]]}'
        return {'opt': f'option {self.A}', 'optlist': f'list (option {self.A})', 'somelist': f'list {self.A}',
                'circuit': 'list gcomponent', 'network': f'(list {self.A} * label)%type'}.get(ty[0])

    def translate(self, member):
        f, a = self.f, self.f.args
        if a.vararg or a.kwarg or a.kwonlyargs or a.posonlyargs or a.defaults:
            raise self.bad(f, 'star / keyword-only / defaulted parameters')
        args = list(a.args)
        if self.kind in ('parser', 'call'):
            if not args or args[0].arg != 'self':
                raise self.bad(f, 'method without self')
            args = args[1:]
        decs = [dotted(x) for x in f.decorator_list]
        if decs not in ([], ['property']) or (decs and (args or self.kind != 'parser')):
            raise self.bad(f, f'decorators {decs}')
        member.is_property = decs == ['property']
        plist = []
        for x in args:
            ann = ast.unparse(x.annotation) if x.annotation is not None else None
            if ann not in ANNOT or not IDENT.match(x.arg) or x.arg in self.gen.reserved or x.arg in [p[0] for p in plist]:
                raise self.bad(f, f'parameter {x.arg}: {ann} (annotations known: {sorted(ANNOT)})')
            plist.append((x.arg, ANNOT[ann]))
        member.params = plist
        self.A = 'A' if any(ty == ('optlist',) for _, ty in plist) else 'gcomponent'
        last = None
        for m in ([False, True] if not any(self.can_raise_safe(s) for s in f.body) else [True]):
            self.env, self.n, self.rty, self.preds = {}, 0, None, {}
            self.params = {}
            for name, ty in plist:
                self.env[name] = Var('d' if ty == ('schematic',) else f'v_{name}', ty)
                self.params[name] = self.env[name]
                if ty == ('schematic',):
                    self.needs.add('d')
            try:
                body = self.block(list(f.body), ('ret',), m, '  ')
                break
            except NeedsMonad as e:
                last = e
        else:
            raise Unsupported(str(last))
        if self.kind == 'parser':
            self.needs.add('d')
        order = ['translator_map', 'network_translator_map', 'd', 'oa', 'ou']
        member.needs = [n for n in order if n in self.needs]
        if any(n.endswith('translator_map') for n in member.needs):
            self.A = 'A'
        member.monadic, member.rty = m, self.rty
        sig = []
        if self.A == 'A':
            sig.append('{A : Type}')
        for n in member.needs:
            sig.append({'d': '(d : drawing)', 'oa': '(oa : list point)', 'ou': '(ou : list point)'}.get(
                n, f'({n} : list (N * translator_fn A))'))
        for name, ty in plist:
            if ty != ('schematic',):
                sig.append(f'({self.env_param(name)} : {self.coq_type(ty)})')
        rt = self.coq_type(self.rty)
        rts = '' if rt is None else (f' : res ({rt})' if m else f' : {rt}')
        src = {'parser': DP, 'call': DT, 'module': DT}[self.kind]
        head = cmt(ast.unparse(a))
        member.text = (f'(* {f.name}({head})   ({src}:{f.lineno}) *)\n'
                       f'Definition g_{member.name} {" ".join(sig)}{rts} :=\n{body.rstrip()}.\n')
        return member

    def env_param(self, name):
        return self.params[name].coq

    def can_raise_safe(self, s):
        return self.can_raise(s)


class NeedsMonad(Exception):
    pass


def _let(self, pre, m, node):
    if pre and not m:
        raise NeedsMonad(f'{where(node, self.path)}: {self.f.name}: a construct that can raise inside a block classified as pure')
    return pre


Fn.let = _let


class Gen:
    def __init__(self, src):
        self.elements = Elements(src)
        self.comps = ComponentTranslators(src, self.elements)
        self.subclass_defs, self.attr_defs = {}, {}
        self.maps = {'circuit_translator_map': 'g_circuit_translator_map', 'network_translator_map': 'network_translator_map'}
        self.reserved = {'self', 'elm', 'len', 'str', 'set', 'list', 'type', 'isinstance', 'tuple', 'map', 'schemdraw',
                         'SchematicDiagramParser', 'DiagramTranslator', 'Circuit', 'Network', 'Component', 'dataclass',
                         'circuit_translator_map', 'network_translator_map', 'KeyError', 'AttributeError', 'hasattr',
                         'True', 'False', 'None'} | set(EXCEPTIONS)
        self.out, self.members, self.active = [], {}, []
        # ---- DiagramParser.py
        self.ppath = os.path.join(src, *DP.split('/'))
        ptree = parse(self.ppath)
        self.check_imports(ptree, self.ppath, {'elm': ('from', 1, None, 'Elements'), 'dataclass': ('from', 0, 'dataclasses', 'dataclass'),
                                                'schemdraw': ('import', 'schemdraw.util')})
        self.pmethods = self.dataclass(ptree, self.ppath, 'SchematicDiagramParser', ['drawing'], ['UnknownElement', 'MultipleGroundNodes'],
                                       "dataclass(frozen=True)")
        # ---- DiagramTranslator.py
        self.tpath = os.path.join(src, *DT.split('/'))
        ttree = parse(self.tpath)
        self.check_imports(ttree, self.tpath, {
            'elm': ('from', 1, None, 'Elements'), 'dataclass': ('from', 0, 'dataclasses', 'dataclass'),
            'Network': ('from', 2, 'Network.network', 'Network'), 'Circuit': ('from', 2, 'Circuit.circuit', 'Circuit'),
            'circuit_translator_map': ('from', 1, 'CircuitComponentTranslators', 'circuit_translator_map'),
            'network_translator_map': ('from', 1, 'NetworkBranchTranslators', 'network_translator_map'),
            'SchematicDiagramParser': ('from', 1, 'DiagramParser', 'SchematicDiagramParser')})
        self.tmethods = self.dataclass(ttree, self.tpath, 'DiagramTranslator', ['diagram_parser', 'translator_map'],
                                       ['UnknownTranslator'], 'dataclass', allow_functions=True)
        if '__call__' not in self.tmethods:
            raise Unsupported(f'{self.tpath}: DiagramTranslator has no method __call__: {list(self.tmethods)}')
        # the other methods of DiagramTranslator: expression methods, inlined where __call__ calls them (Fn.inline_method)
        self.texpr = {n: self.expression_method(f) for n, f in self.tmethods.items() if n != '__call__'}
        self.module_members = {}
        for st in ttree.body:
            if isinstance(st, ast.FunctionDef):
                if st.name in self.module_members or st.name in self.reserved:
                    raise Unsupported(f'{where(st, self.tpath)}: function {st.name} defined twice / reserved name')
                self.module_members[st.name] = st
        # the module functions that return a tuple display: inlined at `A, B = f(x, ..)` (Fn.inline_tuple_helper), no definition of
        # their own
        self.tuple_helpers = {}
        for n, f in self.module_members.items():
            body = [x for x in f.body if not is_docstring(x)]
            if body and isinstance(body[-1], ast.Return) and isinstance(body[-1].value, ast.Tuple):
                self.tuple_helpers[n] = self.tuple_helper(f, ttree)
        # translate everything (dependencies first)
        for name, f in self.pmethods.items():
            self.parser_member(name, f, None)
        self.call_member(self.tmethods['__call__'], None)
        for name, f in self.module_members.items():
            if name not in self.tuple_helpers:
                self.module_member(name, f, None)

    def expression_method(self, f):
        """`def m(self, p: T, ...): return <expr>` of DiagramTranslator -> ([(p, kind)], <expr>).  The name may not be a special
        method name (a dataclass with __eq__ / __init__ / __getattr__ ... of its own is another class)."""
        a = f.args
        if not IDENT.match(f.name) or f.name.startswith('__') or f.name in self.reserved:
            raise Unsupported(f'{where(f, self.tpath)}: DiagramTranslator has the method {f.name} besides __call__ '
                              f'(only plain-named expression methods are accepted)')
        if f.decorator_list or a.vararg or a.kwarg or a.kwonlyargs or a.posonlyargs or a.defaults or not a.args \
                or a.args[0].arg != 'self':
            raise Unsupported(f'{where(f, self.tpath)}: method {f.name}: decorated, or parameters other than (self, <plain positional>)')
        plist = []
        for x in a.args[1:]:
            ann = ast.unparse(x.annotation) if x.annotation is not None else None
            if ann not in ANNOT or not IDENT.match(x.arg) or x.arg in self.reserved or x.arg in [q[0] for q in plist]:
                raise Unsupported(f'{where(f, self.tpath)}: method {f.name}: parameter {x.arg}: {ann} (annotations known: {sorted(ANNOT)})')
            plist.append((x.arg, ANNOT[ann]))
        body = [x for x in f.body if not is_docstring(x)]
        if not (len(body) == 1 and isinstance(body[0], ast.Return) and body[0].value is not None):
            raise Unsupported(f'{where(f, self.tpath)}: method {f.name}: the body is not a single `return <expr>`')
        self.no_binders(body[0].value, f'method {f.name}', comprehensions=False)
        return plist, body[0].value

    def no_binders(self, node, what, comprehensions):
        for n in ast.walk(node):
            if isinstance(n, (ast.Lambda, ast.NamedExpr, ast.Yield, ast.YieldFrom, ast.Await, ast.Return, ast.FunctionDef, ast.ClassDef,
                              ast.AsyncFunctionDef, ast.Global, ast.Nonlocal, ast.Starred, ast.Import, ast.ImportFrom, ast.Delete)) \
                    or (not comprehensions and isinstance(n, (ast.ListComp, ast.SetComp, ast.DictComp, ast.GeneratorExp))):
                raise Unsupported(f'{where(n, self.tpath)}: {what}: {type(n).__name__}')

    def tuple_helper(self, f, tree):
        """`def h(p: T, ...): NAME = <expr> ...; return <expr>, <expr>[, ...]` -> ([(p, kind | 'map')], [assignments], [returned exprs])"""
        a = f.args
        if f.decorator_list or a.vararg or a.kwarg or a.kwonlyargs or a.posonlyargs or a.defaults:
            raise Unsupported(f'{where(f, self.tpath)}: {f.name}: decorated, or star / keyword-only / defaulted parameters')
        plist = []
        for x in a.args:
            ann = ast.unparse(x.annotation) if x.annotation is not None else None
            if ann == 'ElementTranslatorMap':
                self.check_imports(tree, self.tpath, {'ElementTranslatorMap': ('from', 1, 'SchemdrawTranslatorTypes', 'ElementTranslatorMap')})
                kind = 'map'
            elif ann in ANNOT:
                kind = ANNOT[ann]
            else:
                kind = None
            if kind is None or not IDENT.match(x.arg) or x.arg in self.reserved or x.arg in [q[0] for q in plist]:
                raise Unsupported(f'{where(f, self.tpath)}: {f.name}: parameter {x.arg}: {ann} '
                                  f'(annotations known: {sorted(ANNOT) + ["ElementTranslatorMap"]})')
            plist.append((x.arg, kind))
        body = [x for x in f.body if not is_docstring(x)]
        ret = body[-1].value
        if len(ret.elts) < 2:
            raise Unsupported(f'{where(f, self.tpath)}: {f.name}: returns a tuple of fewer than two values')
        for st in body[:-1]:
            if not (isinstance(st, ast.Assign) and len(st.targets) == 1 and isinstance(st.targets[0], ast.Name)):
                raise Unsupported(f'{where(st, self.tpath)}: {f.name}: statement {ast.unparse(st).splitlines()[0]} '
                                  f'(a function returning a tuple may only consist of `NAME = <expr>` and the return)')
            if st.targets[0].id in [q[0] for q in plist]:
                raise Unsupported(f'{where(st, self.tpath)}: {f.name}: rebinds its parameter {st.targets[0].id}')
            self.no_binders(st.value, f.name, comprehensions=True)
        for x in ret.elts:
            self.no_binders(x, f.name, comprehensions=True)
        return plist, body[:-1], list(ret.elts)

    @staticmethod
    def check_imports(tree, path, expected):
        bound = {}
        for st in tree.body:
            if isinstance(st, ast.Import):
                for al in st.names:
                    bound[al.asname or al.name.split('.')[0]] = ('import', al.name)
            elif isinstance(st, ast.ImportFrom):
                for al in st.names:
                    bound[al.asname or al.name] = ('from', st.level, st.module, al.name)
        for name, exp in expected.items():
            if bound.get(name) != exp:
                raise Unsupported(f'{path}: the name {name} is bound by {bound.get(name)}, expected {exp}')

    def dataclass(self, tree, path, cname, fields, exceptions, decorator, allow_functions=False):
        found = None
        seen_exc = []
        for st in tree.body:
            if isinstance(st, (ast.Import, ast.ImportFrom)):
                continue
            if isinstance(st, ast.ClassDef) and [dotted(b) for b in st.bases] == ['Exception'] and not st.decorator_list \
                    and len(st.body) == 1 and (isinstance(st.body[0], ast.Pass) or
                                               (isinstance(st.body[0], ast.Expr) and isinstance(st.body[0].value, ast.Constant))):
                seen_exc.append(st.name)
                continue
            if isinstance(st, ast.ClassDef) and st.name == cname and found is None:
                found = st
                continue
            if isinstance(st, ast.FunctionDef) and allow_functions:
                continue
            raise Unsupported(f'{where(st, path)}: top-level statement {ast.unparse(st).splitlines()[0]}')
        if found is None:
            raise Unsupported(f'{path}: class {cname} not found')
        if sorted(seen_exc) != sorted(exceptions):
            raise Unsupported(f'{path}: exception classes {seen_exc}, expected {exceptions}')
        if found.bases or found.keywords or [ast.unparse(x) for x in found.decorator_list] != [decorator]:
            raise Unsupported(f'{where(found, path)}: {cname} is not a plain @{decorator} class')
        flds, methods = [], {}
        for s in found.body:
            if isinstance(s, ast.AnnAssign) and isinstance(s.target, ast.Name) and s.value is None:
                flds.append(s.target.id)
            elif isinstance(s, ast.FunctionDef):
                if s.name in methods:
                    raise Unsupported(f'{where(s, path)}: method {s.name} defined twice')
                methods[s.name] = s
            elif not (isinstance(s, ast.Expr) and isinstance(s.value, ast.Constant)):
                raise Unsupported(f'{where(s, path)}: class body statement {ast.unparse(s).splitlines()[0]}')
        if flds != fields:
            raise Unsupported(f'{where(found, path)}: fields of {cname} are {flds}, expected {fields}')
        for n in methods:
            if n in fields:
                raise Unsupported(f'{where(found, path)}: method {n} shadows a field')
        return methods

    def run(self, key, name, f, path, kind, node, caller):
        if key in self.members:
            m = self.members[key]
            if m.text is None:
                raise Unsupported(f'{where(node, path)}: {name} is used recursively')
            return m
        m = Member(name)
        self.members[key] = m
        try:
            Fn(self, f, path, kind).translate(m)
        except Unsupported:
            del self.members[key]
            raise
        self.out.append(m)
        return m

    def parser_member(self, name, node, caller):
        if name not in self.pmethods:
            raise Unsupported(f'{where(node, caller.path if caller else self.ppath)}: SchematicDiagramParser has no member {name}')
        return self.run(('p', name), name, self.pmethods[name], self.ppath, 'parser', node, caller)

    def call_member(self, node, caller):
        return self.run(('c', '__call__'), 'DiagramTranslator_call', self.tmethods['__call__'], self.tpath, 'call', node, caller)

    def module_member(self, name, node, caller):
        return self.run(('m', name), name, self.module_members[name], self.tpath, 'module', node, caller)


def generate(src):
    g = Gen(src)
    el, cp = g.elements, g.comps
    L = []
    w = L.append
    w('(* GENERATED by tools/gen_drawing.py from SimpleCircuit/{Elements,DiagramParser,DiagramTranslator,CircuitComponentTranslators}.py')
    w('   — do not edit.  One definition g_<name> per Python method / function, in the vocabulary of Model/DrawingPrims.v;')
    w('   Theory/DrawingGenThm.v proves each equal to the hand-written model of Model/Drawing.v. *)')
    w('From Coq Require Import String.')
    w('From Coq Require Import List Bool ZArith NArith Arith.')
    w('From CC Require Import Theory.Field Model.Network Model.Circuit Model.Drawing Model.DrawingPrims.')
    w('Import ListNotations.')
    w('Local Open Scope string_scope.')
    w('Local Open Scope nat_scope.')
    w('Local Notation "\'let*\' x \':=\' p \'in\' q" := (bind p (fun x => q)) (at level 200, x pattern, p at level 100, q at level 200).')
    w('')
    w('(* ================================================================== A. Elements.py *)')
    w('(* get_nodes(element, n_labels=' + repr(tuple(el.n_labels)) + ') *)')
    w('Definition g_get_nodes_labels : list anchor := [' + '; '.join(f'A_{a}' for a in el.n_labels) + '].')
    w('Definition g_get_nodes (e : symbol) : list point := map (rounded_anchor e) g_get_nodes_labels.')
    for c in sorted(set(g.subclass_defs) | {'Node', 'Ground', 'Line'}, key=MODEL_CLASSES.index):
        w(f'(* the classes C of the model with issubclass(C, {c}) *)')
        w(f'Definition g_subclasses_{c} : list N := [' + '; '.join(f'c_{x}' for x in el.subclasses_of(c)) + '].')
    for a in sorted(set(g.attr_defs) | {'name'}):
        w(f'(* the classes of the model whose instances have the attribute `{a}` *)')
        w(f'Definition g_classes_with_{a} : list N := [' + '; '.join(f'c_{x}' for x in el.classes_with(a)) + '].')
    w('(* how the attributes read by the component translators were stored by the constructor of each class *)')
    rows = []
    for c, fn in cp.rows:
        for a in cp.reads.get(fn, []):
            p = el.provenance(c, a)
            if p is not None:
                rows.append(f'  (c_{c}, {S(a)}, {p})')
    w('Definition g_attr_prov : list (N * label * prov) := [\n' + ';\n'.join(rows) + '].')
    w('')
    w('(* ================================================================== C. CircuitComponentTranslators.py *)')
    for n in cp.funcs:
        if n in cp.helpers:
            w(f'(* {n}({cmt(", ".join(cp.helpers[n][0]))}): expression helper, inlined at its calls as\n'
              f'   {cmt(ast.unparse(cp.helpers[n][1]))}   ({CCT}:{cp.funcs[n].lineno}) *)\n')
            continue
        w(cp.defs[n]['text'])
    w('(* circuit_translator_map, the classes of the model *)')
    w('Definition g_circuit_translator_map : list (N * translator_fn gcomponent) := [\n'
      + ';\n'.join(f'  (c_{c}, g_{fn})' for c, fn in cp.rows) + '].')
    w('Definition g_circuit_translator_names : list (N * label) := [\n'
      + ';\n'.join(f'  (c_{c}, {S(fn)})' for c, fn in cp.rows) + '].')
    w('(* entries for classes outside the model (all bound to a `return None` translator) *)')
    w('Definition g_circuit_translator_map_unmodelled : list (label * label) := ['
      + '; '.join(f'({S(c)}, {S(fn)})' for c, fn in cp.unmodelled) + '].')
    w('')
    w('(* ================================================================== B. DiagramParser.py, DiagramTranslator.py *)')
    for n in g.texpr:
        w(f'(* DiagramTranslator.{n}: expression method, inlined where __call__ calls it   ({DT}:{g.tmethods[n].lineno}) *)')
    for n in g.tuple_helpers:
        w(f'(* {n}: returns a tuple, inlined at the statements `A, B = {n}(..)`   ({DT}:{g.module_members[n].lineno}) *)')
    for m in g.out:
        w(m.text)
    return {'DrawingGen.v': '\n'.join(L) + '\n'}
