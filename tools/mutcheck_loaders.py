#!/usr/bin/env python3
"""Mutation check of tools/gen_loaders.py and of the equalities over its output (Properties/C17c.v, C19c.v, C06d.v, C10d.v).
For every edit below: copy the Python source tree, apply the edit to the COPY, run gen_tables.py and gen_loaders.py on the copy
(as py2v.py does with VERIF_REPO), write the result into a private copy of coq/ and rebuild the property files there with
`make -k`.  Reported per edit: refused by the translator (message), or the lemmas that stop compiling, or `passes`.
usage: mutcheck_loaders.py [--src /repo/src/CircuitCalculator] [--work DIR] [--only NAME ...]"""
import argparse
import importlib
import os
import re
import shutil
import subprocess
import sys

HERE = os.path.dirname(os.path.abspath(__file__))
sys.path.insert(0, HERE)
from v2lib import Unsupported  # noqa: E402

LO = 'Network/loaders.py'
DL = 'dump_load.py'
CD = 'Circuit/dump_load.py'
IM = 'Circuit/impedance.py'
SS = 'Circuit/state_space_model.py'
ES = 'Network/equivalent_sources.py'
TARGETS = ['Properties/C17c.vo', 'Properties/C19c.vo', 'Properties/C06d.vo', 'Properties/C10d.vo']

# (name, expectation, [(file, old, new, occurrence index | None = exactly once)] | ('patch', path))
EDITS = [
    # ---------------- Network/loaders.py
    ("L01 to_complex: degrees not converted", 'caught',
     [(LO, "phase = z['phase']*np.pi/180 if degree else z['phase']", "phase = z['phase']", None)]),
    ("L02 to_complex: cos / sin swapped", 'caught', [(LO, "complex(np.cos(phase), np.sin(phase))", "complex(np.sin(phase), np.cos(phase))", None)]),
    ("L03 to_complex: abs / phase swapped", 'caught',
     [(LO, "phase = z['phase']*np.pi/180 if degree else z['phase']\n        return z['abs']*", "phase = z['abs']*np.pi/180 if degree else z['abs']\n        return z['phase']*", None)]),
    ("L04 to_complex: real / imag swapped", 'caught', [(LO, "complex(z['real'], z['imag'])", "complex(z['imag'], z['real'])", None)]),
    ("L05 to_complex: raises ValueError instead of FileFormatError", 'caught', [(LO, "        raise FileFormatError", "        raise ValueError", None)]),
    ("L06 to_complex: the Cartesian attempt no longer catches TypeError", 'caught',
     [(LO, "        return complex(z['real'], z['imag'])\n    except (KeyError, TypeError):", "        return complex(z['real'], z['imag'])\n    except KeyError:", None)]),
    ("L07 to_complex: degree factor pi/90", 'caught', [(LO, "*np.pi/180 if degree", "*np.pi/90 if degree", None)]),
    ("L08 to_complex: degree defaults to True", 'caught', [(LO, "degree: bool = False", "degree: bool = True", None)]),
    ("L09 load_network: the copy `entry = dict(entry)` dropped (the caller's description is emptied)", 'caught',
     [(LO, "        entry = dict(entry)\n", "", None)]),
    ("L10 load_network: N2 read, not popped (the key stays and reaches the constructor)", 'caught',
     [(LO, "n2 = entry.pop('N2')", "n2 = entry['N2']", None)]),
    ("L11 load_network: id read, not popped", 'caught', [(LO, "entry['name'] = entry.pop('id')", "entry['name'] = entry['id']", None)]),
    ("L12 load_network: Branch(n2, n1, element)", 'caught', [(LO, "return Branch(n1, n2, element)", "return Branch(n2, n1, element)", None)]),
    ("L13 load_network: KeyError turned into FileFormatError", 'caught', [(LO, "        raise FileExistsError", "        raise FileFormatError", None)]),
    ("L14 load_network: TypeError caught as well", 'caught', [(LO, "    except KeyError:\n        raise FileExistsError", "    except (KeyError, TypeError):\n        raise FileExistsError", None)]),
    ("L15 translate_to_complex: the values are read as degrees", 'caught', [(LO, "to_complex(kwargs[value])", "to_complex(kwargs[value], True)", None)]),
    ("L16 translate_to_complex: value popped and re-inserted (EQUIVALENT for the constructors — keyword order — but the dictionary "
     "returned differs; expected to be flagged)", 'caught', [(LO, "to_complex(kwargs[value])", "to_complex(kwargs.pop(value))", None)]),
    # ---------------- dump_load.py
    ("D01 undictify_complex_values: negative abs accepted (radian branch)", 'caught',
     [(DL, "            if value['abs'] < 0:\n                raise ValueError(\"abs value of '{key}' may not be negative\")\n            data[key] = value['abs'] * complex(np.cos(value['phase'])",
       "            data[key] = value['abs'] * complex(np.cos(value['phase'])", None)]),
    ("D02 undictify_complex_values: phase_deg not converted", 'caught', [(DL, "phase_rad = np.deg2rad(value['phase_deg'])", "phase_rad = value['phase_deg']", None)]),
    ("D03 undictify_complex_values: {real, imag} read as complex(imag, real)", 'caught',
     [(DL, "data[key] = complex(value['real'], value['imag'])", "data[key] = complex(value['imag'], value['real'])", None)]),
    ("D04 undictify_complex_values: negative abs raises TypeError", 'caught',
     [(DL, "raise ValueError(\"abs value of '{key}' may not be negative\")", "raise TypeError(\"abs value of '{key}' may not be negative\")", 0)]),
    ("D05 undictify_complex_values: works on a copy (the argument is no longer rewritten)", 'caught',
     [(DL, "def undictify_complex_values(data: dict) -> dict:\n", "def undictify_complex_values(data: dict) -> dict:\n    data = dict(data)\n", None)]),
    ("D06 dictify_all_complex_values: recursion into lists dropped", 'caught',
     [(DL, "            return {k: convert(v) for k, v in value.items()}\n        if isinstance(value, list):\n            return [convert(v) for v in value]\n        return value\n    return convert(data)",
       "            return {k: convert(v) for k, v in value.items()}\n        return value\n    return convert(data)", None)]),
    ("D07 undictify_all_complex_values: recursion into lists dropped", 'caught',
     [(DL, "['value']\n        if isinstance(value, list):\n            return [convert(v) for v in value]\n", "['value']\n", None)]),
    ("D08 dictify_all_complex_values: real / imag swapped", 'caught',
     [(DL, "            return {'real': value.real, 'imag': value.imag}\n        if isinstance(value, dict):", "            return {'real': value.imag, 'imag': value.real}\n        if isinstance(value, dict):", None)]),
    ("D09 deserializers: 'yml' missing", 'caught', [(DL, "    'yaml': yaml.safe_load,\n    'yml': yaml.safe_load\n", "    'yaml': yaml.safe_load\n", None)]),
    ("D10 serializers: 'yaml' written with json.dumps", 'caught', [(DL, "    'yaml': yaml.dump,\n", "    'yaml': json.dumps,\n", None)]),
    ("D11 serialize: unknown format raises KeyError", 'caught',
     [(DL, "    if serializer is None:\n        raise ValueError(", "    if serializer is None:\n        raise KeyError(", None)]),
    ("D12 deserialize: the format is checked after the text was parsed (pinned shape)", 'caught',
     [(DL, "    return dict_preprocessor(deserializer(data))", "    parsed = deserializer(data)\n    return dict_preprocessor(parsed)", None)]),
    ("D13 load: the suffix keeps its dot (pinned text)", 'caught', [(DL, "def load(file: str, deserialize_fcn: Callable[[str, str], T] = deserialize) -> T:\n    file_name = Path(file)\n    suffix = file_name.suffix[1:]",
                                                                     "def load(file: str, deserialize_fcn: Callable[[str, str], T] = deserialize) -> T:\n    file_name = Path(file)\n    suffix = file_name.suffix", None)]),
    ("D14 undictify_all_complex_values: the top level is not converted", 'caught',
     [(DL, "    return undictify_complex_values({k: convert(v) for k, v in data.items()})", "    return {k: convert(v) for k, v in data.items()}", None)]),
    # ---------------- Circuit/dump_load.py
    ("C01 generate_component: the copy dropped (the caller's description loses 'value' and 'type')", 'caught',
     [(CD, "    component = component.copy()\n", "", None)]),
    ("C02 generate_component: a missing value raises UnidentifiedComponent", 'caught',
     [(CD, "        raise IncorrectComponentInformation(f\"Missing value of component", "        raise UnidentifiedComponent(f\"Missing value of component", None)]),
    ("C03 generate_component: the id is checked after the value", 'caught',
     [(CD, "    try:\n        component_id = component['id']\n    except KeyError:\n        raise UnidentifiedComponent(f'Unidentified component')\n    try:\n        component_value = component.pop('value')\n    except KeyError:\n        raise IncorrectComponentInformation(f\"Missing value of component '{component_id}'.\")\n",
       "    try:\n        component_value = component.pop('value')\n    except KeyError:\n        raise IncorrectComponentInformation(f\"Missing value of component.\")\n    try:\n        component_id = component['id']\n    except KeyError:\n        raise UnidentifiedComponent(f'Unidentified component')\n", None)]),
    ("C04 generate_component: an unknown type raises IncorrectComponentInformation", 'caught',
     [(CD, "        raise UnknownCircuitComponent(", "        raise IncorrectComponentInformation(", None)]),
    ("C05 generate_component: the TypeError of the constructor call is no longer translated", 'caught',
     [(CD, "    except TypeError:\n        raise IncorrectComponentInformation(f\"Given value", "    except KeyError:\n        raise IncorrectComponentInformation(f\"Given value", None)]),
    ("C06 generate_component: nodes and id exchanged in the call", 'caught',
     [(CD, "component_factory(id=component_id, nodes=component_nodes, **component_value)", "component_factory(id=component_nodes, nodes=component_id, **component_value)", None)]),
    ("C07 undictify_circuit reads circuit['component']", 'caught', [(CD, "circuit['components']", "circuit['component']", None)]),
    ("C08 dictify_circuit writes under 'comps'", 'caught', [(CD, "{'components' : [asdict(c)", "{'comps' : [asdict(c)", None)]),
    ("C09 deserialize plugs in dictify_circuit", 'caught', [(CD, "dict_preprocessor=undictify_circuit", "dict_preprocessor=dictify_circuit", None)]),
    ("C10 generate_component: the value is read, not popped (EQUIVALENT: the popped copy is local and only its 'nodes' are read afterwards)",
     'passes', [(CD, "component_value = component.pop('value')", "component_value = component['value']", None)]),
    # ---------------- Network/equivalent_sources.py
    ("E01 Norton: I = -U/Z", 'caught', [(ES, "self.I = thevenin.U/thevenin.Z", "self.I = -thevenin.U/thevenin.Z", None)]),
    ("E02 Norton: I = U*Z", 'caught', [(ES, "self.I = thevenin.U/thevenin.Z", "self.I = thevenin.U*thevenin.Z", None)]),
    ("E03 Norton: Y = Z", 'caught', [(ES, "self.Y = 1/thevenin.Z", "self.Y = thevenin.Z", None)]),
    ("E04 Thevenin: U and Z exchanged", 'caught',
     [(ES, "        self.U = open_circuit_voltage(network, node1, node2)\n        self.Z = open_circuit_impedance(network, node1, node2)",
       "        self.U = open_circuit_impedance(network, node1, node2)\n        self.Z = open_circuit_voltage(network, node1, node2)", None)]),
    ("E05 Thevenin: the voltage is taken from node2 to node1", 'caught',
     [(ES, "self.U = open_circuit_voltage(network, node1, node2)", "self.U = open_circuit_voltage(network, node2, node1)", None)]),
    ("E06 Thevenin: Z computed before U (another exception when both fail; the model fixes the order)", 'caught',
     [(ES, "        self.U = open_circuit_voltage(network, node1, node2)\n        self.Z = open_circuit_impedance(network, node1, node2)",
       "        self.Z = open_circuit_impedance(network, node1, node2)\n        self.U = open_circuit_voltage(network, node1, node2)", None)]),
    # ---------------- harmless rewrites
    ("H01 to_complex: local renamed, handler written `pass`, exception tuple reordered", 'passes',
     [(LO, "    except (KeyError, TypeError):\n        ...\n    try:\n        phase = z['phase']*np.pi/180 if degree else z['phase']\n        return z['abs']*complex(np.cos(phase), np.sin(phase))",
       "    except (TypeError, KeyError):\n        pass\n    try:\n        angle = z['phase']*np.pi/180 if degree else z['phase']\n        return z['abs']*complex(np.cos(angle), np.sin(angle))", None)]),
    ("H02 translate_to_complex: kwargs.update({k: v}) written kwargs[k] = v, loop variable renamed", 'passes',
     [(LO, "    for value in keys:\n        kwargs.update({value : to_complex(kwargs[value])})", "    for key in keys:\n        kwargs[key] = to_complex(kwargs[key])", None)]),
    ("H03 load_network: the element is built inside the Branch call", 'passes',
     [(LO, "        element = element_factory(**entry)\n        return Branch(n1, n2, element)", "        return Branch(n1, n2, element_factory(**entry))", None)]),
    ("H04 load_network: the table row is looked up in the call, docstrings added", 'passes',
     [(LO, "        element_factory = network_branch_translators[entry.pop('type')]\n        element = element_factory(**entry)\n",
       "        row = network_branch_translators[entry.pop('type')]\n        element = row(**entry)\n", None),
      (LO, "def load_network(network_dict: list[dict[str, Any]]) -> Network:\n", "def load_network(network_dict: list[dict[str, Any]]) -> Network:\n    \"\"\"list of entries -> Network\"\"\"\n", None)]),
    ("H05 dictify_all_complex_values: the list case tested before the dict case", 'passes',
     [(DL, "        if isinstance(value, dict):\n            return {k: convert(v) for k, v in value.items()}\n        if isinstance(value, list):\n            return [convert(v) for v in value]\n        return value\n    return convert(data)",
       "        if isinstance(value, list):\n            return [convert(v) for v in value]\n        if isinstance(value, dict):\n            return {k: convert(v) for k, v in value.items()}\n        return value\n    return convert(data)", None)]),
    ("H06 undictify_complex_values: sorted(value.keys()) without list(); literal lists in sorted order", 'passes',
     [(DL, "sorted(list(value.keys())) == sorted(['real', 'imag'])", "sorted(value.keys()) == sorted(['imag', 'real'])", None)]),
    ("H07 generate_component: a local renamed", 'passes',
     [(CD, "component_nodes", "nodes_of_component", 'all')]),
    ("H08 undictify_circuit: the list is bound to a local first", 'passes',
     [(CD, "    return Circuit([generate_component(entry) for entry in circuit['components']])",
       "    entries = circuit['components']\n    return Circuit([generate_component(e) for e in entries])", None)]),
    ("H09 the maintainer's refactoring of loaders.py (harmless/H9/patch.diff)", 'passes', ('patch', 'harmless/H9/patch.diff')),
    ("H10 the maintainer's refactoring H14 (solution.py, Circuit/impedance.py, equivalent_sources.py: Norton calls the port "
     "functions itself)", 'passes', ('patch', 'harmless/H14/patch.diff')),
    ("H11 Norton: local renamed", 'passes', [(ES, "thevenin", "th", 'all')]),
]


def apply_edits(src, edits, name, root):
    if isinstance(edits, tuple) and edits and edits[0] == 'patch':
        pf = os.path.join(os.path.dirname(HERE), edits[1])
        top = os.path.dirname(os.path.dirname(src))
        r = subprocess.run(['patch', '-p1', '-i', pf], cwd=top, capture_output=True, text=True)
        if r.returncode != 0:
            raise SystemExit(f'{name}: patch failed: {r.stdout}{r.stderr}')
        return
    for rel, old, new, occ in edits:
        p = os.path.join(src, *rel.split('/'))
        text = open(p, encoding='utf-8').read()
        n = text.count(old)
        if occ is None:
            if n != 1:
                raise SystemExit(f'{name}: pattern occurs {n} times in {rel} (expected once): {old!r}')
            text = text.replace(old, new)
        elif occ == 'all':
            if n == 0:
                raise SystemExit(f'{name}: pattern absent in {rel}: {old!r}')
            text = text.replace(old, new)
        else:
            parts = text.split(old)
            if len(parts) - 1 <= occ:
                raise SystemExit(f'{name}: pattern occurs {n} times in {rel}, occurrence {occ} wanted: {old!r}')
            text = old.join(parts[:occ + 1]) + new + old.join(parts[occ + 1:])
        with open(p, 'w', encoding='utf-8') as f:
            f.write(text)
    for rel in {e[0] for e in edits}:
        p = os.path.join(src, *rel.split('/'))
        compile(open(p, encoding='utf-8').read(), p, 'exec')                 # the edited file must still be Python


def enclosing(vfile, line):
    name = '?'
    with open(vfile, encoding='utf-8') as f:
        for i, l in enumerate(f, 1):
            m = re.match(r'\s*(Lemma|Theorem|Example|Definition|Fixpoint|Corollary)\s+([A-Za-z0-9_\']+)', l)
            if m:
                name = m.group(2)
            if i >= line:
                break
    return name


def write_if_changed(path, text):
    if os.path.exists(path) and open(path, encoding='utf-8').read() == text:
        return
    with open(path, 'w', encoding='utf-8') as f:
        f.write(text)


def generate_mine(src):
    out = {}
    for mod in ('gen_tables', 'gen_loaders'):
        out.update(importlib.import_module(mod).generate(src))
    return out


def main():
    ap = argparse.ArgumentParser()
    ap.add_argument('--src', default=os.path.join(os.environ.get('VERIF_REPO', '/repo'), 'src', 'CircuitCalculator'))
    ap.add_argument('--work', default='/tmp/mutcheck_loaders')
    ap.add_argument('--only', nargs='*')
    a = ap.parse_args()
    coq0 = os.path.join(os.path.dirname(HERE), 'coq')
    coq = os.path.join(a.work, 'coq')
    if not os.path.isdir(coq):
        os.makedirs(a.work, exist_ok=True)
        subprocess.run(['cp', '-a', coq0, coq], check=True)          # compiled copy (mtimes kept); rebuilt incrementally
    else:                                    # hand-written files may have changed since the copy was made
        for root, _, fs in os.walk(coq0):
            for fn in fs:
                if fn.endswith('.v') or fn in ('_CoqProject', 'Makefile', 'Makefile.conf'):
                    src_ = os.path.join(root, fn)
                    dst = os.path.join(coq, os.path.relpath(src_, coq0))
                    os.makedirs(os.path.dirname(dst), exist_ok=True)
                    write_if_changed(dst, open(src_, encoding='utf-8').read())
    targets = [t for t in TARGETS if os.path.exists(os.path.join(coq, t[:-1]))]
    rows = []
    for name, expect, edits in EDITS + [('(restore: unmodified source)', 'passes', [])]:
        if a.only and not any(name.startswith(o) for o in a.only) and edits:
            continue
        srcm = os.path.join(a.work, 'repo', 'src', 'CircuitCalculator')
        shutil.rmtree(os.path.join(a.work, 'repo'), ignore_errors=True)
        shutil.copytree(a.src, srcm)
        apply_edits(srcm, edits, name, a.work)
        try:
            files = generate_mine(srcm)
        except Unsupported as e:
            msg = str(e).replace(srcm + '/', '')
            rows.append((name, expect, 'caught', 'translator refuses: ' + msg))
            print(rows[-1], flush=True)
            continue
        for fn, text in files.items():
            write_if_changed(os.path.join(coq, 'Gen', fn), text)
        r = subprocess.run(['timeout', '2400', 'make', '-k', '-j4'] + targets, cwd=coq, capture_output=True, text=True)
        errs = []
        for m in re.finditer(r'File "\./([^"]+)", line (\d+)', r.stdout + r.stderr):
            lemma = enclosing(os.path.join(coq, m.group(1)), int(m.group(2)))
            errs.append(f'{m.group(1)}: {lemma}')
        if r.returncode == 0 and not errs:
            rows.append((name, expect, 'passes', ', '.join(t[11:-3] for t in targets) + ' compile'))
        else:
            rows.append((name, expect, 'caught', 'stops compiling: ' + '; '.join(dict.fromkeys(errs)) if errs
                         else 'make failed: ' + (r.stderr.strip().splitlines() or ['?'])[-1]))
        print(rows[-1], flush=True)
    print()
    bad = 0
    for name, expect, got, detail in rows:
        flag = '' if expect == got else '   <-- UNEXPECTED'
        bad += expect != got
        print(f'{name}\n    {got}: {detail}{flag}')
    return 1 if bad else 0


if __name__ == '__main__':
    sys.exit(main())
