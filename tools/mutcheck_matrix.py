#!/usr/bin/env python3
"""Mutation check of tools/gen_matrix.py and of the equalities over its output (Properties/C01d.v, Properties/C10c.v).
For every edit below: copy the Python source tree, apply the edit to the COPY, run gen_matrix.py on the copy (as py2v.py
does with VERIF_REPO), write the result into a private copy of coq/ and rebuild Properties/C01d.vo and Properties/C10c.vo
there with `make -k`.  Reported per edit: refused by the translator (message), or the lemmas that stop compiling, or
`passes`.
usage: mutcheck_matrix.py [--src /repo/src/CircuitCalculator] [--work DIR] [--only NAME ...] [--md FILE]"""
import argparse
import os
import re
import shutil
import subprocess
import sys

HERE = os.path.dirname(os.path.abspath(__file__))
sys.path.insert(0, HERE)
from v2lib import Unsupported  # noqa: E402
import gen_matrix  # noqa: E402

NA = 'Network/NodalAnalysis/node_analysis.py'
SS = 'Network/NodalAnalysis/state_space_model.py'
NW = 'Network/network.py'
LM = 'Network/NodalAnalysis/label_mapping.py'

# (name, expectation, [(file, old, new, occurrence index | None = exactly once | 'all')])
EDITS = [
    # ---------------- node_analysis.py: the MNA matrix
    ("M01 node_admittance_matrix: `-` lost on the off-diagonal", 'caught',
     [(NA, "        return -admittance_between(no_voltage_sources_network, i_label, j_label)", "        return admittance_between(no_voltage_sources_network, i_label, j_label)", None)]),
    ("M02 node_admittance_matrix: diagonal / off-diagonal rule swapped", 'caught',
     [(NA, "        if i_label == j_label:\n            return admittance_connected_to", "        if i_label != j_label:\n            return admittance_connected_to", None)]),
    ("M03 admittance_connected_to: isfinite filter dropped (ideal voltage sources summed as inf)", 'caught',
     [(NA, "network.branches_connected_to(node) if np.isfinite(b.element.Y))", "network.branches_connected_to(node))", None)]),
    ("M04 voltage_source_incidence_matrix: signs of node1 / node2 swapped", 'caught',
     [(NA, "            return 1\n        if network[voltage_source].node2 == node:\n            return -1",
       "            return -1\n        if network[voltage_source].node2 == node:\n            return 1", None)]),
    ("M05 coefficient matrix: block rows swapped in np.vstack", 'caught',
     [(NA, "np.vstack((np.hstack((Y, B)), np.hstack((B.T, Z))))", "np.vstack((np.hstack((B.T, Z)), np.hstack((Y, B))))", None)]),
    ("M06 coefficient matrix: lower-left block not transposed", 'caught',
     [(NA, "np.hstack((B.T, Z))", "np.hstack((B, Z))", None)]),
    ("M07 coefficient matrix: blocks swapped inside the upper np.hstack", 'caught',
     [(NA, "np.hstack((Y, B))", "np.hstack((B, Y))", None)]),
    ("M08 coefficient matrix: default source_mapper = alphabetic_current_source_mapper", 'caught',
     [(NA, "def nodal_analysis_coefficient_matrix(network: Network, node_mapper: map.NetworkMapper = map.default_node_mapper, source_mapper: map.SourceIndexMapper = map.alphabetic_voltage_source_mapper)",
       "def nodal_analysis_coefficient_matrix(network: Network, node_mapper: map.NetworkMapper = map.default_node_mapper, source_mapper: map.SourceIndexMapper = map.alphabetic_current_source_mapper)", None)]),
    # ---------------- node_analysis.py: the right-hand side
    ("M09 source_incidence_matrix: +1 at node1 as well (sign of an incidence entry)", 'caught',
     [(NA, "Q[node_index[source_element.node1]][cs_index[cs]] = -1", "Q[node_index[source_element.node1]][cs_index[cs]] = 1", None)]),
    ("M10 source_incidence_matrix: current source counted on the wrong side (both signs flipped)", 'caught',
     [(NA, "Q[node_index[source_element.node1]][cs_index[cs]] = -1", "Q[node_index[source_element.node1]][cs_index[cs]] = 1", None),
      (NA, "Q[node_index[source_element.node2]][cs_index[cs]] = 1", "Q[node_index[source_element.node2]][cs_index[cs]] = -1", None)]),
    ("M11 source_incidence_matrix: reference node not skipped", 'caught',
     [(NA, "        if network.node_zero_label != source_element.node1:\n", "        if True:\n", None)]),
    ("M12 source_incidence_matrix: row and column index exchanged", 'caught',
     [(NA, "Q[node_index[source_element.node2]][cs_index[cs]] = 1", "Q[cs_index[cs]][node_index[source_element.node2]] = 1", None)]),
    ("M13 constants vector: halves swapped (V, I)", 'caught', [(NA, "np.hstack((I, V))", "np.hstack((V, I))", None)]),
    ("M14 constants vector: element.V -> element.I", 'caught',
     [(NA, "network[vs].element.V for vs in vs_mapping.keys", "network[vs].element.I for vs in vs_mapping.keys", None)]),
    ("M15 current_source_incidence_vector: Q@Is -> Q.T@Is", 'caught', [(NA, "    return Q@Is", "    return Q.T@Is", None)]),
    ("M16 current_source_vector: filtered with is_ideal_voltage_source", 'caught',
     [(NA, "lambda x: is_current_source(network[x].element)", "lambda x: is_ideal_voltage_source(network[x].element)", None)]),
    # ---------------- node_analysis.py: the port functions
    ("M17 open_circuit_impedance: probe source reversed", 'caught',
     [(NA, "Branch(node2, node1, current_source(probe_id, 1))", "Branch(node1, node2, current_source(probe_id, 1))", None)]),
    ("M18 open_circuit_impedance: reference node of the probe network = node1", 'caught',
     [(NA, "node_zero_label=node2)", "node_zero_label=node1)", None)]),
    ("M19 open_circuit_impedance: `not` lost in the connectivity test", 'caught',
     [(NA, "    if not connected[i1]:", "    if connected[i1]:", None)]),
    ("M20 open_circuit_impedance: solution read at i1 instead of the compressed index", 'caught',
     [(NA, "    return x[np.count_nonzero(connected[:i1])]", "    return x[i1]", None)]),
    ("M21 open_circuit_impedance: LinAlgError handler returns 0", 'caught',
     [(NA, "    except np.linalg.LinAlgError:\n        return np.inf", "    except np.linalg.LinAlgError:\n        return 0", None)]),
    ("M22 element_impedance: terminals swapped", 'caught',
     [(NA, "        node1=network[element].node1,\n        node2=network[element].node2,", "        node1=network[element].node2,\n        node2=network[element].node1,", None)]),
    # ---------------- network.py / label_mapping.py
    ("M23 branches_between: compares ordered pairs", 'caught',
     [(NW, "set((branch.node1, branch.node2)) == set((node1, node2))", "(branch.node1, branch.node2) == (node1, node2)", None)]),
    ("M24 branches_connected_to: `or` -> `and`", 'caught',
     [(NW, "branch.node1 == node or branch.node2 == node", "branch.node1 == node and branch.node2 == node", None)]),
    ("M25 LabelMapping.N counts one more", 'caught', [(LM, "        return len(self.mapping)", "        return len(self.mapping) + 1", None)]),
    ("M26 label_mapping.filter keeps the keys the predicate rejects", 'caught',
     [(LM, "for k in mapping.keys if filter_fcn(k)", "for k in mapping.keys if not filter_fcn(k)", None)]),
    # ---------------- state_space_model.py
    ("M27 element_incidence_matrix: +1 / -1 swapped", 'caught',
     [(SS, "                Delta[k][node_mapping(i_label)] = +1", "                Delta[k][node_mapping(i_label)] = -1", None),
      (SS, "                Delta[k][node_mapping(i_label)] = -1\n        return", "                Delta[k][node_mapping(i_label)] = +1\n        return", None)]),
    ("M28 DQ: blocks swapped", 'caught', [(SS, "DQ = np.hstack((Delta.T, QL))", "DQ = np.hstack((QL, Delta.T))", None)]),
    ("M29 B: leading `-` lost", 'caught', [(SS, "B = (-invLambda @ C.T) @ QS", "B = (invLambda @ C.T) @ QS", None)]),
    ("M30 D: transposition of C lost", 'caught',
     [(SS, "D = (inv_A_tilde - transformed_inv_A_tilde.T @ C.T) @ QS", "D = (inv_A_tilde - transformed_inv_A_tilde.T @ C) @ QS", None)]),
    ("M31 A: factors exchanged", 'caught', [(SS, "A = invLambda @ sorted_A_tilde", "A = sorted_A_tilde @ invLambda", None)]),
    ("M32 value_matrix: capacitances entered with +C", 'caught', [(SS, "np.diag([-C for C in c_values.values()])", "np.diag([C for C in c_values.values()])", None)]),
    ("M33 QS: keeps the inductor columns instead of dropping them", 'caught',
     [(SS, "if l not in l_values]]", "if l in l_values]]", None)]),
    ("M34 Q: identity block written with -1", 'caught', [(SS, "            Q[i][i] = 1", "            Q[i][i] = -1", None)]),
    ("M35 c_row_current: voltage-source row without the node offset", 'caught',
     [(SS, "return self.C[voltage_source_mapping[branch_id]+self.node_index_mapping.N][:]", "return self.C[voltage_source_mapping[branch_id]][:]", None)]),
    ("M36 d_row_current: current-source row -1", 'caught',
     [(SS, "            d_row[self.current_source_index_mapping[branch_id]] = 1", "            d_row[self.current_source_index_mapping[branch_id]] = -1", None)]),
    ("M37 c_row_voltage: neg - pos", 'caught', [(SS, "        return c_pos - c_neg", "        return c_neg - c_pos", None)]),
    ("M38 _row_for_potential: reference-node test inverted", 'caught',
     [(SS, "        if node_id == self.network.node_zero_label:", "        if node_id != self.network.node_zero_label:", None)]),
    ("M39 sources: voltage sources first", 'caught', [(SS, "        return current_sources+voltage_sources", "        return voltage_sources+current_sources", None)]),
    ("M40 nodal_state_space_model: voltage / current source mappings exchanged in the object", 'caught',
     [(SS, "        voltage_source_index_mapping=voltage_source_index_mapper(network),\n        current_source_index_mapping=current_source_index_mapper(network),",
       "        voltage_source_index_mapping=current_source_index_mapper(network),\n        current_source_index_mapping=voltage_source_index_mapper(network),", None)]),
    ("M41 A_tilde: `.real` dropped (EQUIVALENT in the model: Model/StateSpace.v works over the reals, np_real is the identity)", 'passes',
     [(SS, "A_tilde = nodal_analysis_coefficient_matrix(network).real", "A_tilde = nodal_analysis_coefficient_matrix(network)", None)]),
    # ---------------- harmless rewrites
    ("H01 source_incidence_matrix: local renamed, Q[a][b] written Q[a, b]", 'passes',
     [(NA, "source_element", "src_branch", 'all'),
      (NA, "Q[node_index[src_branch.node1]][cs_index[cs]] = -1", "Q[node_index[src_branch.node1], cs_index[cs]] = -1", None),
      (NA, "Q[node_index[src_branch.node2]][cs_index[cs]] = 1", "Q[node_index[src_branch.node2], cs_index[cs]] = 1", None)]),
    ("H02 node_admittance_matrix: product(m, repeat=2) -> product(m, m); helper variable no_voltage_sources_network inlined", 'passes',
     [(NA, "itertools.product(node_mapping, repeat=2)", "itertools.product(node_mapping, node_mapping)", None),
      (NA, "    no_voltage_sources_network = network # ideal voltage sources have infinite admittance and are skipped by the isfinite filters\n", "", None),
      (NA, "no_voltage_sources_network", "network", 'all')]),
    ("H03 admittance_between: sum([...]) -> sum(...); admittance_connected_to: sum(...) -> sum([...])", 'passes',
     [(NA, "return sum([b.element.Y for b in network.branches_between(node1, node2) if np.isfinite(b.element.Y)])",
       "return sum(b.element.Y for b in network.branches_between(node1, node2) if np.isfinite(b.element.Y))", None),
      (NA, "return sum(b.element.Y for b in network.branches_connected_to(node) if np.isfinite(b.element.Y))",
       "return sum([b.element.Y for b in network.branches_connected_to(node) if np.isfinite(b.element.Y)])", None)]),
    ("H04 coefficient matrix: block rows named before stacking", 'passes',
     [(NA, "    return np.vstack((np.hstack((Y, B)), np.hstack((B.T, Z))))",
       "    upper = np.hstack((Y, B))\n    lower = np.hstack((B.T, Z))\n    return np.vstack((upper, lower))", None)]),
    ("H05 voltage_source_incidence_matrix: nested for loops instead of itertools.product", 'passes',
     [(NA, "    for node, vs in itertools.product(node_index.keys, vs_index.keys):\n        A[node_index[node], vs_index[vs]] = voltage_source_direction(vs, node)",
       "    for node in node_index.keys:\n        for vs in vs_index.keys:\n            A[node_index[node], vs_index[vs]] = voltage_source_direction(vs, node)", None)]),
    ("H06 source_incidence_matrix: the two copied `if`s as a loop over ((node1, -1), (node2, +1))  (seeded/harmless/H1)", 'passes',
     [(NA, "        source_element = network[cs]\n        if network.node_zero_label != source_element.node1:\n            Q[node_index[source_element.node1]][cs_index[cs]] = -1\n        if network.node_zero_label != network[cs].node2:\n            Q[node_index[source_element.node2]][cs_index[cs]] = 1\n",
       "        source_branch = network[cs]\n        column = cs_index[cs]\n        for node, direction in ((source_branch.node1, -1), (source_branch.node2, 1)):\n            if network.node_zero_label != node:\n                Q[node_index[node], column] = direction\n", None)]),
    ("H07 node_admittance_matrix: diagonal loop + itertools.combinations filling both off-diagonal entries  (seeded/harmless/H1)", 'passes',
     [(NA, "    def node_matrix_element(i_label:str, j_label:str) -> complex:\n        if i_label == j_label:\n            return admittance_connected_to(no_voltage_sources_network, i_label)\n        return -admittance_between(no_voltage_sources_network, i_label, j_label)\n", "", None),
      (NA, "    no_voltage_sources_network = network # ideal voltage sources have infinite admittance and are skipped by the isfinite filters\n", "", None),
      (NA, "    for i_label, j_label in itertools.product(node_mapping, repeat=2):\n        Y[node_mapping(i_label, j_label)] = node_matrix_element(i_label, j_label)\n",
       "    for label in node_mapping:\n        Y[node_mapping(label, label)] = admittance_connected_to(network, label)\n    for i_label, j_label in itertools.combinations(node_mapping, 2):\n        mutual_admittance = -admittance_between(network, i_label, j_label)\n        Y[node_mapping(i_label, j_label)] = mutual_admittance\n        Y[node_mapping(j_label, i_label)] = mutual_admittance\n", None)]),
    ("H08 state_space_matrices: blocks and column lists named (seeded/harmless/H3, source_and_inductance_incidence_matrix)", 'passes',
     [(SS, "        Q = np.vstack((np.hstack( (Qi, np.zeros((Qi.shape[0], Q.shape[1]) ))),\n                    np.hstack( (np.zeros((Q.shape[0], Qi.shape[1])), Q) )))\n",
       "        upper_blocks = np.hstack((Qi, np.zeros((Qi.shape[0], Q.shape[1]))))\n        lower_blocks = np.hstack((np.zeros((Q.shape[0], Qi.shape[1])), Q))\n        Q = np.vstack((upper_blocks, lower_blocks))\n", None),
      (SS, "        QS = Q[:,[i for i, l in enumerate(columns) if l not in l_values]]\n        QL = Q[:,[columns.index(l) for l in values]]\n        return QS, QL\n",
       "        source_columns = [i for i, l in enumerate(columns) if l not in l_values]\n        inductance_columns = [columns.index(l) for l in values]\n        return Q[:, source_columns], Q[:, inductance_columns]\n", None)]),
    ("H09 _row_for_potential: matrix[:][i:i+1] -> row = ...; matrix[row:row+1]  (seeded/harmless/H3)", 'passes',
     [(SS, "        return matrix[:][self.node_index_mapping[node_id]:self.node_index_mapping[node_id]+1]",
       "        row = self.node_index_mapping[node_id]\n        return matrix[row:row+1]", None)]),
    ("H10 element_incidence_matrix: nested loops, Delta[k, column]  (seeded/harmless/H3)", 'passes',
     [(SS, "        for (k, value), (i_label) in itertools.product(enumerate(values), node_mapping):\n            if i_label == network[value].node1:\n                Delta[k][node_mapping(i_label)] = +1\n            if i_label == network[value].node2:\n                Delta[k][node_mapping(i_label)] = -1\n",
       "        for k, element_id in enumerate(values):\n            for i_label in node_mapping:\n                branch = network[element_id]\n                column = node_mapping[i_label]\n                if i_label == branch.node1:\n                    Delta[k, column] = +1\n                if i_label == branch.node2:\n                    Delta[k, column] = -1\n", None)]),
    ("H12 the maintainers' complete refactoring of node_analysis.py (/verif/seeded/harmless/H1/patch.diff)", 'passes',
     [('PATCH', '/verif/seeded/harmless/H1/patch.diff', None, None)]),
    ("H13 the maintainers' refactoring of state_space_model.py (/verif/seeded/harmless/H3/patch.diff): its loop / block / slice "
     "rewrites are H08-H10; the new method _row_for_voltage takes a Callable parameter (accepted since the subset was widened)", 'passes',
     [('PATCH', '/verif/seeded/harmless/H3/patch.diff', None, None)]),
    ("H11 element_impedance: keyword arguments reordered", 'passes',
     [(NA, "        network=trf.remove_element(network, element),\n        node1=network[element].node1,\n        node2=network[element].node2,\n        node_index_mapper=node_index_mapper\n",
       "        network=trf.remove_element(network, element),\n        node_index_mapper=node_index_mapper,\n        node1=network[element].node1,\n        node2=network[element].node2\n", None)]),
]


def apply_edits(src, edits, name):
    for rel, old, new, occ in edits:
        if rel == 'PATCH':                  # a unified diff relative to the repository root (src = <root>/src/CircuitCalculator)
            root = os.path.dirname(os.path.dirname(src))
            r = subprocess.run(['patch', '-p1', '-s', '-i', old], cwd=root, capture_output=True, text=True)
            if r.returncode:
                raise SystemExit(f'{name}: patch does not apply: {r.stdout}{r.stderr}')
            continue
        p = os.path.join(src, *rel.split('/'))
        text = open(p, encoding='utf-8').read()
        n = text.count(old)
        if occ is None:
            if n != 1:
                raise SystemExit(f'{name}: pattern occurs {n} times in {rel} (expected once): {old!r}')
            text = text.replace(old, new)
        elif occ == 'all':
            if n == 0:
                raise SystemExit(f'{name}: pattern absent in {rel}: {old!r}')
            text = text.replace(old, new)
        with open(p, 'w', encoding='utf-8') as f:
            f.write(text)
    for rel in {e[0] for e in edits if e[0] != 'PATCH'}:
        p = os.path.join(src, *rel.split('/'))
        compile(open(p, encoding='utf-8').read(), p, 'exec')                 # the edited file must still be Python


def enclosing(vfile, line):
    name = '?'
    with open(vfile, encoding='utf-8') as f:
        for i, l in enumerate(f, 1):
            m = re.match(r'\s*(Lemma|Theorem|Example|Definition|Fixpoint|Corollary)\s+([A-Za-z0-9_\']+)', l)
            if m:
                name = m.group(2)
            if i >= line:
                break
    return name


def write_if_changed(path, text):
    if os.path.exists(path) and open(path, encoding='utf-8').read() == text:
        return
    with open(path, 'w', encoding='utf-8') as f:
        f.write(text)


def main():
    ap = argparse.ArgumentParser()
    ap.add_argument('--src', default=os.path.join(os.environ.get('VERIF_REPO', '/repo'), 'src', 'CircuitCalculator'))
    ap.add_argument('--work', default='/tmp/mutcheck_matrix')
    ap.add_argument('--only', nargs='*')
    ap.add_argument('--md')
    a = ap.parse_args()
    coq0 = os.path.join(os.path.dirname(HERE), 'coq')
    coq = os.path.join(a.work, 'coq')
    if not os.path.isdir(coq):
        os.makedirs(a.work, exist_ok=True)
        shutil.copytree(coq0, coq)          # compiled copy; rebuilt incrementally
    else:                                    # hand-written files may have changed since the copy was made
        for root, _, fs in os.walk(coq0):
            for fn in fs:
                if fn.endswith('.v') or fn in ('_CoqProject', 'Makefile', 'Makefile.conf'):
                    src_ = os.path.join(root, fn)
                    write_if_changed(os.path.join(coq, os.path.relpath(src_, coq0)), open(src_, encoding='utf-8').read())
    rows = []
    for name, expect, edits in EDITS + [('(restore: unmodified source)', 'passes', [])]:
        if a.only and not any(name.startswith(o) for o in a.only) and edits:
            continue
        srcm = os.path.join(a.work, 'repo', 'src', 'CircuitCalculator')
        shutil.rmtree(os.path.join(a.work, 'repo'), ignore_errors=True)
        shutil.copytree(a.src, srcm)
        apply_edits(srcm, edits, name)
        try:
            files = gen_matrix.generate(srcm)
        except Unsupported as e:
            msg = str(e).replace(srcm + '/', '')
            rows.append((name, expect, 'caught', 'translator refuses: ' + msg))
            print(rows[-1], flush=True)
            continue
        for fn, text in files.items():
            write_if_changed(os.path.join(coq, 'Gen', fn), text)
        r = subprocess.run(['timeout', '1800', 'make', '-k', '-j2', 'Properties/C01d.vo', 'Properties/C10c.vo'],
                           cwd=coq, capture_output=True, text=True)
        errs = []
        for m in re.finditer(r'File "\./([^"]+)", line (\d+)', r.stdout + r.stderr):
            lemma = enclosing(os.path.join(coq, m.group(1)), int(m.group(2)))
            errs.append(f'{m.group(1)}: {lemma}')
        if r.returncode == 0 and not errs:
            rows.append((name, expect, 'passes', 'C01d and C10c compile'))
        else:
            rows.append((name, expect, 'caught', 'stops compiling: ' + '; '.join(dict.fromkeys(errs)) if errs
                         else 'make failed: ' + (r.stderr.strip().splitlines() or ['?'])[-1]))
        print(rows[-1], flush=True)
    print()
    bad = 0
    md = ['| # | edit | expected | outcome |', '|---|---|---|---|']
    for name, expect, got, detail in rows:
        flag = '' if expect == got else '   <-- UNEXPECTED'
        bad += expect != got
        print(f'{name}\n    {got}: {detail}{flag}')
        md.append(f'| {name.split(" ")[0]} | {name.split(" ", 1)[1] if " " in name else name} | {expect} | {got}: {detail} |')
    if a.md:
        with open(a.md, 'w', encoding='utf-8') as f:
            f.write('\n'.join(md) + '\n')
    return 1 if bad else 0


if __name__ == '__main__':
    sys.exit(main())
