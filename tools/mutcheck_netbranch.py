#!/usr/bin/env python3
"""Mutation check of the network-branch translator (tools/gen_netbranch.py) and of the equalities over its output
(Theory/NetBranchGenThm.v, Properties/C13d_branches.v).  For every edit below: copy the Python source tree to a scratch
directory, apply the edit to the COPY, run gen_netbranch.generate on the copy; record the translator's refusal, or write the
output into a scratch copy of coq/ (made once with `cp -a`, so that the .vo of everything else stay valid) and recompile
Gen/NetBranchGen.v, Theory/NetBranchGenThm.v, Properties/C13d_branches.v with coqc, recording the first file / lemma that stops
compiling.  Only Gen/NetBranchGen.v is regenerated: an edit of Elements.py is seen through g_net_attr_prov.
usage: mutcheck_netbranch.py [--src /repo/src/CircuitCalculator] [--work /tmp/genxC_mut] [--only NAME ...]"""
import argparse
import os
import re
import shutil
import subprocess
import sys

HERE = os.path.dirname(os.path.abspath(__file__))
sys.path.insert(0, HERE)
from v2lib import Unsupported  # noqa: E402
import gen_netbranch  # noqa: E402

B = 'SimpleCircuit/NetworkBranchTranslators.py'
E = 'SimpleCircuit/Elements.py'
NE = 'Network/elements.py'
NN = 'Network/network.py'
FILES = ['Gen/NetBranchGen.v', 'Theory/NetBranchGenThm.v', 'Properties/C13d_branches.v']
RES = ('def resistor_translator(element: elm.Resistor, nodes: tuple[str, str]) -> ntw.Branch:\n'
       '    return ntw.Branch(nodes[0], nodes[1], ntw_elm.resistor(R=element.R, name=element.name))')
ROWS = ('    elm.Resistor : resistor_translator,\n    elm.Impedance : impedance_translator,\n')
# (name, expectation, [(file, old, new)])       every pattern must occur exactly once
EDITS = [
    ('M01 voltage_source_translator: V=-element.V -> V=element.V', 'caught',
     [(B, 'ntw_elm.voltage_source(V=-element.V,', 'ntw_elm.voltage_source(V=element.V,')]),
    ('M02 resistor_translator: nodes[0] / nodes[1] swapped', 'caught',
     [(B, 'ntw.Branch(nodes[0], nodes[1], ntw_elm.resistor(', 'ntw.Branch(nodes[1], nodes[0], ntw_elm.resistor(')]),
    ('M03 resistor_translator: R=element.R -> R=element.G', 'caught',
     [(B, 'ntw_elm.resistor(R=element.R,', 'ntw_elm.resistor(R=element.G,')]),
    ('M04 impedance_translator: name=element.name dropped', 'caught',
     [(B, 'ntw_elm.impedance(Z=element.Z, name=element.name)', 'ntw_elm.impedance(Z=element.Z)')]),
    ("M05 current_source_translator: name=element.name -> name='I'", 'caught',
     [(B, 'ntw_elm.current_source(I=element.I, name=element.name)', "ntw_elm.current_source(I=element.I, name='I')")]),
    ('M06 table: elm.Impedance -> resistor_translator', 'caught',
     [(B, 'elm.Impedance : impedance_translator', 'elm.Impedance : resistor_translator')]),
    ('M07 table: row elm.Ground removed', 'caught', [(B, '    elm.Ground: none_translator,\n', '')]),
    ('M08 table: row elm.Capacitor: resistor_translator added', 'caught',
     [(B, '    elm.Ground: none_translator,\n', '    elm.Ground: none_translator,\n    elm.Capacitor: resistor_translator,\n')]),
    ('M09 table: elm.Line -> resistor_translator', 'caught', [(B, 'elm.Line: none_translator', 'elm.Line: resistor_translator')]),
    ('M10 table: VoltageSource / CurrentSource functions exchanged', 'caught',
     [(B, 'elm.CurrentSource: current_source_translator,\n    elm.VoltageSource: voltage_source_translator',
       'elm.CurrentSource: voltage_source_translator,\n    elm.VoltageSource: current_source_translator')]),
    ('M11 voltage_source_translator: V=-element.V if not element.is_reverse else element.V', 'caught',
     [(B, 'ntw_elm.voltage_source(V=-element.V,', 'ntw_elm.voltage_source(V=-element.V if not element.is_reverse else element.V,')]),
    ('M12 current_source_translator: I=element.I -> I=-element.I', 'caught',
     [(B, 'ntw_elm.current_source(I=element.I,', 'ntw_elm.current_source(I=-element.I,')]),
    ('M13 impedance_translator: Z=element.Z -> Z=2*element.Z', 'caught',
     [(B, 'ntw_elm.impedance(Z=element.Z,', 'ntw_elm.impedance(Z=2*element.Z,')]),
    ('M14 impedance_translator calls ntw_elm.resistor(R=element.Z)', 'caught',
     [(B, 'ntw_elm.impedance(Z=element.Z,', 'ntw_elm.resistor(R=element.Z,')]),
    ('M15 voltage_source_translator also hands over Z=element.V', 'caught',
     [(B, 'ntw_elm.voltage_source(V=-element.V,', 'ntw_elm.voltage_source(V=-element.V, Z=element.V,')]),
    ('M16 Elements.VoltageSource stores V unsigned (self._V = V)', 'caught',
     [(E, "        super().__init__(*args, reverse=not reverse, **kwargs)\n        self._V = V if not reverse else -V\n        label = dsp.print_real(V, unit='V'",
       "        super().__init__(*args, reverse=not reverse, **kwargs)\n        self._V = V\n        label = dsp.print_real(V, unit='V'")]),
    ('M17 Elements.CurrentSource stores I unsigned (self._I = I)', 'caught',
     [(E, "class CurrentSource(schemdraw.elements.SourceI):\n    def __init__(self, *args, I: float, name: str, reverse=False, precision=3, **kwargs):\n"
          "        super().__init__(*args, reverse=reverse, **kwargs)\n        self._I = I if not reverse else -I\n",
       "class CurrentSource(schemdraw.elements.SourceI):\n    def __init__(self, *args, I: float, name: str, reverse=False, precision=3, **kwargs):\n"
       "        super().__init__(*args, reverse=reverse, **kwargs)\n        self._I = I\n")]),
    ('M18 Elements.VoltageSource stores -V when NOT reversed', 'caught',
     [(E, "        super().__init__(*args, reverse=not reverse, **kwargs)\n        self._V = V if not reverse else -V\n        label = dsp.print_real(V, unit='V'",
       "        super().__init__(*args, reverse=not reverse, **kwargs)\n        self._V = -V if not reverse else V\n        label = dsp.print_real(V, unit='V'")]),
    ('M19 Network/elements.py: voltage_source(name, V, Z=0) parameter V renamed U', 'caught',
     [(NE, 'def voltage_source(name : str, V : complex, Z : complex = 0) -> NortenTheveninElement:\n    return NortenElement(V=V,',
       'def voltage_source(name : str, U : complex, Z : complex = 0) -> NortenTheveninElement:\n    return NortenElement(V=U,')]),
    ('M20 Network/elements.py gains linear_voltage_source (the defect repaired: the model must follow)', 'caught',
     [(NE, 'def current_source(name : str, I : complex', 'def linear_voltage_source(name : str, V : complex, Z : complex) -> NortenTheveninElement:\n'
           "    return NortenElement(V=V, Z=Z, name=name, type='voltage_source')\n\ndef current_source(name : str, I : complex")]),
    ('M21 Network/network.py: Branch fields node2, node1, element', 'caught',
     [(NN, '    node1 : str\n    node2 : str\n    element : elm.NortenTheveninElement', '    node2 : str\n    node1 : str\n    element : elm.NortenTheveninElement')]),
    ('M22 none_translator returns a Branch for its star arguments', 'caught',
     [(B, 'def none_translator(*_) -> None:\n    return None', 'def none_translator(*_) -> None:\n    return ntw.Branch(_[1][0], _[1][1], ntw_elm.open_circuit(name=_[0].name))')]),
    ('M23 an extra import (import numpy as np)', 'caught', [(B, 'from . import Elements as elm\n', 'from . import Elements as elm\nimport numpy as np\n')]),
    ('M24 table key duplicated (elm.Line twice, second -> resistor_translator)', 'caught',
     [(B, '    elm.Node: none_translator,\n', '    elm.Node: none_translator,\n    elm.Line: resistor_translator,\n')]),
    ('M25 linear_current_source_translator: Y=1/element.R -> Y=element.R  (dead code: ntw_elm.linear_current_source does not exist, '
     'the keyword values are never evaluated)', 'passes',
     [(B, 'Y=1/element.R', 'Y=element.R')]),
    # ---- harmless rewrites
    ('H01 resistor_translator: parameters renamed (element -> e, nodes -> n)', 'passes',
     [(B, RES, 'def resistor_translator(e: elm.Resistor, n: tuple[str, str]) -> ntw.Branch:\n'
               '    return ntw.Branch(n[0], n[1], ntw_elm.resistor(R=e.R, name=e.name))')]),
    ('H02 impedance_translator renamed z_translator (definition and table)', 'passes',
     [(B, 'def impedance_translator(', 'def z_translator('), (B, 'elm.Impedance : impedance_translator', 'elm.Impedance : z_translator')]),
    ('H03 table rows reordered (Resistor / Impedance moved to the end)', 'passes',
     [(B, ROWS, ''), (B, '    elm.Ground: none_translator,\n', '    elm.Ground: none_translator,\n' + ROWS)]),
    ('H04 return type annotations removed', 'passes',
     [(B, RES, RES.replace(' -> ntw.Branch', '')), (B, 'def none_translator(*_) -> None:', 'def none_translator(*_):')]),
    ('H05 docstrings added (module, one function); keywords reordered (name= first)', 'passes',
     [(B, 'from ..Network import network as ntw\n', '"""symbol -> network branch"""\nfrom ..Network import network as ntw\n'),
      (B, RES, RES.replace(':\n    return', ':\n    """a resistor"""\n    return').replace('R=element.R, name=element.name', 'name=element.name, R=element.R'))]),
    ('H06 the wrong annotation of impedance_translator repaired (elm.Resistor -> elm.Impedance), nodes: tuple[str, ...]', 'passes',
     [(B, 'def impedance_translator(element: elm.Resistor, nodes: tuple[str, str])', 'def impedance_translator(element: elm.Impedance, nodes: tuple[str, ...])')]),
    ('H07 voltage_source_translator: -element.V written -(element.V)', 'passes',
     [(B, 'ntw_elm.voltage_source(V=-element.V,', 'ntw_elm.voltage_source(V=-(element.V),')]),
]


def apply_edit(text, old, new, name):
    if text.count(old) != 1:
        raise SystemExit(f'{name}: pattern occurs {text.count(old)} times (expected once): {old!r}')
    return text.replace(old, new)


def enclosing(vfile, line):
    name = '?'
    with open(vfile, encoding='utf-8') as f:
        for i, l in enumerate(f, 1):
            m = re.match(r'\s*(Lemma|Theorem|Example|Definition|Fixpoint|Corollary)\s+([A-Za-z0-9_\']+)', l)
            if m:
                name = m.group(2)
            if i >= line:
                break
    return name


def compile_chain(coq):
    """-> None when the three files compile, else 'file: lemma (first line of the error)'"""
    for f in FILES:
        r = subprocess.run(['timeout', '600', 'coqc', '-Q', '.', 'CC', f], cwd=coq, capture_output=True, text=True)
        if r.returncode != 0:
            out = r.stdout + r.stderr
            m = re.search(r'File "\./([^"]+)", line (\d+)', out)
            if not m:
                return f'{f}: coqc failed: ' + (out.strip().splitlines() or ['?'])[-1]
            k = out.find('Error:', m.end())
            msg = ' '.join(out[k:].split())[:110] if k >= 0 else ''
            return f'{m.group(1)}: {enclosing(os.path.join(coq, m.group(1)), int(m.group(2)))}' + (f'   [{msg}]' if msg else '')
    return None


def main():
    ap = argparse.ArgumentParser()
    ap.add_argument('--src', default=os.path.join(os.environ.get('VERIF_REPO', '/repo'), 'src', 'CircuitCalculator'))
    ap.add_argument('--work', default='/tmp/genxC_mut')
    ap.add_argument('--only', nargs='*')
    a = ap.parse_args()
    coq0 = os.path.join(os.path.dirname(HERE), 'coq')
    coq = os.path.join(a.work, 'coq')
    os.makedirs(a.work, exist_ok=True)
    if not os.path.isdir(coq):
        subprocess.run(['cp', '-a', coq0, coq], check=True)          # compiled copy, mtimes preserved
    for f in FILES[1:]:                                               # the proofs under test are the current ones
        shutil.copy2(os.path.join(coq0, f), os.path.join(coq, f))
    shutil.copy2(os.path.join(coq0, 'Model', 'NetBranch.v'), os.path.join(coq, 'Model', 'NetBranch.v'))
    r = subprocess.run(['timeout', '600', 'coqc', '-Q', '.', 'CC', 'Model/NetBranch.v'], cwd=coq, capture_output=True, text=True)
    if r.returncode != 0:
        raise SystemExit('Model/NetBranch.v does not compile in the scratch copy:\n' + r.stdout + r.stderr)
    rows = []
    for name, expect, edits in EDITS + [('(restore: unmodified source)', 'passes', [])]:
        if a.only and not any(name.startswith(o) for o in a.only) and edits:
            continue
        srcm = os.path.join(a.work, 'genxC_src', 'src', 'CircuitCalculator')
        shutil.rmtree(os.path.join(a.work, 'genxC_src'), ignore_errors=True)
        shutil.copytree(a.src, srcm)
        for rel, old, new in edits:
            p = os.path.join(srcm, *rel.split('/'))
            t = apply_edit(open(p, encoding='utf-8').read(), old, new, name)
            with open(p, 'w', encoding='utf-8') as f:
                f.write(t)
        try:
            files = gen_netbranch.generate(srcm)
        except Unsupported as e:
            rows.append((name, expect, 'caught', 'translator refuses: ' + str(e).replace(srcm + '/', '')))
            print(rows[-1], flush=True)
            continue
        for fn, text in files.items():
            with open(os.path.join(coq, 'Gen', fn), 'w', encoding='utf-8') as f:
                f.write(text)
        err = compile_chain(coq)
        if err is None:
            rows.append((name, expect, 'passes', ', '.join(FILES) + ' compile'))
        else:
            rows.append((name, expect, 'caught', 'stops compiling: ' + err))
        print(rows[-1], flush=True)
    print()
    bad = 0
    for name, expect, got, detail in rows:
        flag = '' if expect == got else '   <-- UNEXPECTED'
        bad += expect != got
        print(f'{name}\n    {got}: {detail}{flag}')
    return 1 if bad else 0


if __name__ == '__main__':
    sys.exit(main())
