#!/usr/bin/env python3
"""Mutation check of the constructs tools/gen_drawing.py and tools/gen_periodic.py accept since their subsets were widened for
the maintainer-style refactorings H12 (DiagramParser.py) and H10 (periodic_functions.py), and of the equalities over their
output (Theory/DrawingGenThm.v, Properties/C13c.v, C13c_loops.v; Theory/PeriodicGenThm.v, Theory/FourierWaves.v,
Theory/HarmonicsTh.v, Properties/C08.v, C08c.v, C07b.v).
For every entry: copy the Python source tree, apply the BASE patch (none, or one of the behaviour-preserving refactorings
harmless/H*/patch.diff) and then the edit to the COPY, run all gen_*.py translators on the copy (as py2v.py does with
VERIF_REPO), write the result into a private copy of coq/ and rebuild the targets there with `make -k`.  Reported per entry:
refused by the translator (message), or the lemmas that stop compiling, or `passes`.  Expectation: every semantic edit is
`caught`, the refactorings themselves `pass`.
(gen_periodic.py had no mutation driver before; the P entries are its first one.  The existing tools/mutcheck_drawing.py
covers the unrefactored DiagramParser.py.)
usage: mutcheck_robust.py [--repo /repo] [--harmless DIR] [--work DIR] [--only NAME ...]"""
import argparse
import os
import re
import shutil
import subprocess
import sys

HERE = os.path.dirname(os.path.abspath(__file__))
sys.path.insert(0, HERE)
from v2lib import Unsupported  # noqa: E402
from mutcheck_gens import apply_edits, enclosing, write_if_changed, generate_all  # noqa: E402

PF = 'SignalProcessing/periodic_functions.py'
DP = 'SimpleCircuit/DiagramParser.py'
TARGETS = ['Properties/C13c.vo', 'Properties/C13c_loops.vo', 'Properties/C08.vo', 'Properties/C08c.vo', 'Properties/C07b.vo']
S = 'equal_electrical_potential_nodes'

# (name, expectation, base patch or None, [(file, old, new, occurrence index | None = exactly once)])
EDITS = [
    # ---------------- periodic_functions.py, unrefactored source
    ('P00 unmodified source', 'passes', None, []),
    ('P01 c: harmonic n instead of -n on the negative branch (seed C08_1)', 'caught', None,
     [(PF, 'return self.amplitude(-n)/2*np.exp(-1j*self.phase(-n))', 'return self.amplitude(n)/2*np.exp(-1j*self.phase(n))', None)]),
    ('P02 c: +1j on the negative branch', 'caught', None, [(PF, 'np.exp(-1j*self.phase(-n))', 'np.exp(1j*self.phase(-n))', None)]),
    ('P03 amplitude: _amplitude_coefficient(n) for negative n', 'caught', None,
     [(PF, 'return self._amplitude_coefficient(-n)', 'return self._amplitude_coefficient(n)', None)]),
    ('P04 phase: the sign for negative n is dropped', 'caught', None,
     [(PF, 'return -self._phase_coefficient(-n)', 'return self._phase_coefficient(-n)', None)]),
    ('P05 b: the leading minus is dropped', 'caught', None,
     [(PF, 'return -self.amplitude(n)*np.sin(self.phase(n))', 'return self.amplitude(n)*np.sin(self.phase(n))', None)]),
    ('P06 a: sin instead of cos', 'caught', None,
     [(PF, 'return self.amplitude(n)*np.cos(self.phase(n))', 'return self.amplitude(n)*np.sin(self.phase(n))', None)]),
    ('P07 c: the factor 1/2 is dropped on the non-negative branch', 'caught', None,
     [(PF, 'return self.amplitude(n)/2*np.exp(1j*self.phase(n))', 'return self.amplitude(n)*np.exp(1j*self.phase(n))', None)]),
    ('P08 c: n <= 0 takes the conjugate branch', 'caught', None,
     [(PF, '    def c(self, n: int) -> complex:\n        if n < 0:', '    def c(self, n: int) -> complex:\n        if n <= 0:', None)]),
    ('P09 periodic_function: last match instead of first', 'caught', None, [(PF, 'if pf.wavetype == wavetype][0]', 'if pf.wavetype == wavetype][-1]', None)]),
    ('P10 periodic_function: != instead of ==', 'caught', None, [(PF, 'if pf.wavetype == wavetype][0]', 'if pf.wavetype != wavetype][0]', None)]),
    ('P11 periodic_function: raises TransformationError', 'caught', None,
     [(PF, "raise UnknownWavetype(f'Periodic function", "raise TransformationError(f'Periodic function", None)]),
    ('P12 rect time function: np.fmod instead of % (seed C08_2)', 'caught', None,
     [(PF, 'if (t+t0) % self.period < self.period/2 else', 'if np.fmod(t+t0, self.period) < self.period/2 else', None)]),
    ('P13 rect harmonics: 2/n/pi instead of 4/n/pi', 'caught', None, [(PF, 'return 4/n/np.pi*self.amplitude0', 'return 2/n/np.pi*self.amplitude0', None)]),
    ('P14 c: exp of a real (1j dropped)', 'caught', None,
     [(PF, 'return self.amplitude(n)/2*np.exp(1j*self.phase(n))', 'return self.amplitude(n)/2*np.exp(self.phase(n))', None)]),
    ('P15 amplitude calls self.a (recursion through the generic methods)', 'caught', None,
     [(PF, 'return self._amplitude_coefficient(-n)', 'return self.a(-n)', None)]),
    ('P16 a sixth generic method is added to AbstractHarmonicCoefficients', 'caught', None,
     [(PF, '    def c(self, n: int) -> complex:', '    def power(self, n: int) -> float:\n        return self.amplitude(n)*self.amplitude(n)/2\n\n    def c(self, n: int) -> complex:', 1)]),
    # ---------------- periodic_functions.py, refactoring H10
    ('Q00 refactoring H10 as it is', 'passes', 'H10', []),
    ('Q01 H10 c: harmonic = n', 'caught', 'H10', [(PF, 'harmonic = -n if n < 0 else n', 'harmonic = n if n < 0 else n', None)]),
    ('Q02 H10 c: the rotations are exchanged', 'caught', 'H10', [(PF, 'rotation = -1j if n < 0 else 1j', 'rotation = 1j if n < 0 else -1j', None)]),
    ('Q03 H10 c: phase(n) instead of phase(harmonic)', 'caught', 'H10',
     [(PF, 'np.exp(rotation*self.phase(harmonic))', 'np.exp(rotation*self.phase(n))', None)]),
    ('Q04 H10 rect: the two levels are exchanged', 'caught', 'H10',
     [(PF, 'level = self.amplitude if in_first_half_period else -self.amplitude', 'level = -self.amplitude if in_first_half_period else self.amplitude', None)]),
    ('Q05 H10 rect: the offset is added only on the first half period', 'caught', 'H10',
     [(PF, '            level = self.amplitude if in_first_half_period else -self.amplitude\n            return level + self.offset',
       '            if in_first_half_period:\n                return self.amplitude + self.offset\n            return -self.amplitude', None)]),
    ('Q06 H10 tri: the time shift t0 is dropped', 'caught', 'H10',
     [(PF, '        def tri(t: float) -> float:\n            t_in_period = np.mod(t+t0, self.period)', '        def tri(t: float) -> float:\n            t_in_period = np.mod(t, self.period)', None)]),
    ('Q07 H10 tri: the test is on t, not on t_in_period', 'caught', 'H10', [(PF, 'if t_in_period < self.period/2:', 'if t < self.period/2:', None)]),
    ('Q08 H10 saw: -1 -> +1', 'caught', 'H10', [(PF, '(2/self.period*t_in_period-1)', '(2/self.period*t_in_period+1)', None)]),
    ('Q09 H10 saw: np.vectorize of a different local function', 'caught', 'H10',
     [(PF, '        return np.vectorize(saw)', '        def flat(t: float) -> float:\n            return self.offset\n        return np.vectorize(flat)', None)]),
    ('Q10 H10 periodic_function: raises TransformationError', 'caught', 'H10',
     [(PF, "    raise UnknownWavetype(f'Periodic function", "    raise TransformationError(f'Periodic function", None)]),
    ('Q11 H10 periodic_function: the list is searched backwards', 'caught', 'H10',
     [(PF, '    for pf in periodic_functions:\n        if pf.wavetype == wavetype:', '    for pf in reversed(periodic_functions):\n        if pf.wavetype == wavetype:', None)]),
    ('Q12 H10 periodic_function: returns the class AFTER the match', 'caught', 'H10',
     [(PF, '        if pf.wavetype == wavetype:\n            return pf', '        if pf.wavetype == wavetype:\n            return periodic_functions[periodic_functions.index(pf)-1]', None)]),
    ('Q13 H10 rect: the inner function rebinds t0', 'caught', 'H10',
     [(PF, '            in_first_half_period = (t+t0) % self.period < self.period/2', '            t0 = 0\n            in_first_half_period = (t+t0) % self.period < self.period/2', None)]),
    # ---------------- DiagramParser.py, refactoring H12
    ('N00 refactoring H12 as it is', 'passes', 'H12', []),
    ('N01 H12 closure loop: `elif n2 in` -> `if n2 in`', 'caught', 'H12',
     [(DP, f'                elif n2 in {S}:', f'                if n2 in {S}:', None)]),
    ('N02 H12 closure loop: leaves when the set GREW', 'caught', 'H12', [(DP, f'if len({S}) == old_length:', f'if len({S}) != old_length:', None)]),
    ('N03 H12 closure loop: old_length taken after the sweep', 'caught', 'H12',
     [(DP, f'            old_length = len({S})\n            for n1, n2 in line_end_points:\n                if n1 in {S}:\n                    {S}.add(n2)\n                elif n2 in {S}:\n                    {S}.add(n1)\n',
       f'            for n1, n2 in line_end_points:\n                if n1 in {S}:\n                    {S}.add(n2)\n                elif n2 in {S}:\n                    {S}.add(n1)\n            old_length = len({S})\n', None)]),
    ('N04 H12 closure loop: the end points of the NODE elements', 'caught', 'H12',
     [(DP, 'line_end_points = [elm.get_nodes(line) for line in self.line_elements]', 'line_end_points = [elm.get_nodes(line) for line in self.node_elements]', None)]),
    ('N05 H12 closure loop: returns after the first sweep', 'caught', 'H12', [(DP, f'            if len({S}) == old_length:\n                return {S}', f'            if len({S}) >= old_length:\n                return {S}', None)]),
    ('N06 H12 unique_node_mapping: branches of the conditional expression exchanged', 'caught', 'H12',
     [(DP, 'current_unique_node.pop() if len(current_unique_node) > 0 else n', 'n if len(current_unique_node) > 0 else current_unique_node.pop()', None)]),
    ('N07 H12 unique_node_mapping: `> 0` -> `> 1`', 'caught', 'H12',
     [(DP, 'if len(current_unique_node) > 0 else n', 'if len(current_unique_node) > 1 else n', None)]),
    ('N08 H12 unique_node_mapping: the hoisted set is self.all_nodes', 'caught', 'H12', [(DP, '        unique_nodes = self.unique_nodes\n', '        unique_nodes = self.all_nodes\n', None)]),
    ('N09 H12 unique_node_mapping: identical_nodes.remove(n) removed', 'caught', 'H12', [(DP, '            identical_nodes.remove(n)\n', '', None)]),
    ('N10 H12 unique_node_mapping: the entry is written under the representative', 'caught', 'H12',
     [(DP, '            node_mapping[n] = current_unique_node.pop() if len(current_unique_node) > 0 else n',
       '            u = current_unique_node.pop() if len(current_unique_node) > 0 else n\n            node_mapping[u] = n', None)]),
    ('N11 H12 node_label_mapping: str(node_index+1)', 'caught', 'H12', [(DP, 'node_labels[p] = str(node_index)', 'node_labels[p] = str(node_index+1)', None)]),
    ('N12 H12 node_label_mapping: `p not in` -> `p in`', 'caught', 'H12', [(DP, 'if p not in node_labels]', 'if p in node_labels]', None)]),
    ("N13 H12 circuit_elements: hasattr(e, 'node_id')", 'caught', 'H12', [(DP, "hasattr(e, 'name')", "hasattr(e, 'node_id')", None)]),
    ('N14 H12 circuit_elements: not hasattr', 'caught', 'H12', [(DP, "if hasattr(e, 'name')]", "if not hasattr(e, 'name')]", None)]),
    ('N15 H12 get_element: searches all_elements', 'caught', 'H12', [(DP, 'for element in self.circuit_elements:', 'for element in self.all_elements:', None)]),
    ('N16 H12 get_element: raises MultipleGroundNodes', 'caught', 'H12', [(DP, '        raise UnknownElement(name)', '        raise MultipleGroundNodes', None)]),
    ('N17 H12 get_element: != instead of ==', 'caught', 'H12', [(DP, 'if element.name == name:', 'if element.name != name:', None)]),
    ('N18 H12 get_element: the loop continues after the match (last match wins)', 'caught', 'H12',
     [(DP, '        for element in self.circuit_elements:\n            if element.name == name:\n                return element\n        raise UnknownElement(name)',
       '        found = None\n        for element in self.circuit_elements:\n            if element.name == name:\n                found = element\n        if found is None:\n            raise UnknownElement(name)\n        return found', None)]),
    ('N19 H12 closure loop: the list of end points is consumed while iterating (seed W2_C13_1 on the new form)', 'caught', 'H12',
     [(DP, f'                if n1 in {S}:\n                    {S}.add(n2)\n', f'                if n1 in {S}:\n                    {S}.add(n2)\n                    line_end_points.remove([n1, n2])\n', None)]),
]


def main():
    ap = argparse.ArgumentParser()
    ap.add_argument('--repo', default=os.environ.get('VERIF_REPO', '/repo'))
    ap.add_argument('--harmless', default=os.path.join(os.path.dirname(HERE), 'harmless'))
    ap.add_argument('--work', default='/tmp/mutcheck_robust')
    ap.add_argument('--only', nargs='*')
    a = ap.parse_args()
    coq0 = os.path.join(os.path.dirname(HERE), 'coq')
    coq = os.path.join(a.work, 'coq')
    if not os.path.isdir(coq):
        os.makedirs(a.work, exist_ok=True)
        shutil.copytree(coq0, coq)          # compiled copy; rebuilt incrementally
    rows = []
    for name, expect, base, edits in EDITS + [('(restore: unmodified source)', 'passes', None, [])]:
        if a.only and not any(name.startswith(o) for o in a.only) and not name.startswith('('):
            continue
        root = os.path.join(a.work, 'repo')
        shutil.rmtree(root, ignore_errors=True)
        os.makedirs(root)
        shutil.copytree(os.path.join(a.repo, 'src'), os.path.join(root, 'src'))
        if base:
            patch = os.path.join(a.harmless, base, 'patch.diff')
            r = subprocess.run(['patch', '-p1', '--no-backup-if-mismatch', '-s', '-i', patch], cwd=root, capture_output=True, text=True)
            if r.returncode:
                raise SystemExit(f'{name}: base patch {patch} does not apply: {r.stdout}{r.stderr}')
        srcm = os.path.join(root, 'src', 'CircuitCalculator')
        apply_edits(srcm, edits, name)
        try:
            files = generate_all(srcm)
        except Unsupported as e:
            msg = str(e).replace(srcm + '/', '')
            rows.append((name, expect, 'caught', 'translator refuses: ' + msg))
            print(rows[-1], flush=True)
            continue
        except Exception as e:  # noqa: BLE001  (py2v.py poisons the output on any exception: fail closed)
            rows.append((name, expect, 'caught', f'translator fails: {type(e).__name__}: {e}'))
            print(rows[-1], flush=True)
            continue
        for fn, text in files.items():
            write_if_changed(os.path.join(coq, 'Gen', fn), text)
        r = subprocess.run(['timeout', '2400', 'make', '-k', '-j4'] + TARGETS, cwd=coq, capture_output=True, text=True)
        errs = []
        # only errors: Theory/FourierWaves.v and Theory/HarmonicsTh.v also print `File ..: Warning` lines when recompiled
        for m in re.finditer(r'File "\./([^"]+)", line (\d+), characters [0-9-]+:\s*\n\s*Error', r.stdout + r.stderr):
            lemma = enclosing(os.path.join(coq, m.group(1)), int(m.group(2)))
            errs.append(f'{m.group(1)}: {lemma}')
        if r.returncode == 0 and not errs:
            rows.append((name, expect, 'passes', 'all targets compile'))
        else:
            rows.append((name, expect, 'caught', 'stops compiling: ' + '; '.join(dict.fromkeys(errs)) if errs
                         else 'make failed: ' + (r.stderr.strip().splitlines() or ['?'])[-1]))
        print(rows[-1], flush=True)
    print()
    bad = 0
    for name, expect, got, detail in rows:
        flag = '' if expect == got else '   <-- UNEXPECTED'
        bad += expect != got
        print(f'{name}\n    {got}: {detail}{flag}')
    return 1 if bad else 0


if __name__ == '__main__':
    sys.exit(main())
