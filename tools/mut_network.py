#!/usr/bin/env python3
"""Mutation table for tools/gen_network.py + Theory/NetworkGenThm.v.
Each mutation is a small textual edit applied to a COPY of the source tree; the translator is run on the copy and the
regenerated Gen/NetworkGen.v is compiled, with the four files that depend on it, in a scratch copy of coq/.
Outcome per mutation: `refused` (translator raises Unsupported), `broken <file>:<lemma>` (first proof that stops
compiling) or `passes` (expected for the harmless rewrites only).
Usage: /venv/bin/python tools/mut_network.py [name-substring]"""
import os
import re
import shutil
import subprocess
import sys
import tempfile

HERE = os.path.dirname(os.path.abspath(__file__))
sys.path.insert(0, HERE)
import gen_network  # noqa: E402
from v2lib import Unsupported  # noqa: E402

VERIF = os.path.dirname(HERE)
REPO = os.environ.get('VERIF_REPO', '/repo')
NET = 'src/CircuitCalculator/Network/'
EL, NW, LM, SO, BP, TR = (NET + 'elements.py', NET + 'network.py', NET + 'NodalAnalysis/label_mapping.py',
                          NET + 'NodalAnalysis/solution.py', NET + 'NodalAnalysis/bias_point_analysis.py',
                          NET + 'transformers.py')
CHAIN = ['Gen/NetworkGen.v', 'Theory/NetworkGenThm.v', 'Properties/C01c.v', 'Properties/C16c.v']

# (name, expectation, [(file, old, new)])
MUTATIONS = [
    ('unmodified source', 'passes', []),
    # ---- semantic edits
    ('is_voltage_source: `> 0` -> `>= 0`', 'caught',
     [(EL, 'return np.abs(element.V) > 0', 'return np.abs(element.V) >= 0')]),
    ('is_ideal_voltage_source: `element.Z==0` -> `element.Y==0`', 'caught',
     [(EL, 'np.abs(element.V) >= 0 and element.Z==0', 'np.abs(element.V) >= 0 and element.Y==0')]),
    ('is_short_circuit: `and` -> `or`', 'caught',
     [(EL, 'return element.V == 0 and element.Z == 0', 'return element.V == 0 or element.Z == 0')]),
    ('impedance: fields swapped (Z=0, V=Z)', 'caught',
     [(EL, "NortenElement(Z=Z, V=0, name=name, type='impedance')", "NortenElement(Z=0, V=Z, name=name, type='impedance')")]),
    ("resistor: type string 'resistor' -> 'impedance'", 'caught',
     [(EL, "name=name, type='resistor')", "name=name, type='impedance')")]),
    ('conductor: built as NortenElement(Z=G)', 'caught',
     [(EL, "TheveninElement(Y=G, I=0, name=name, type='conductor')", "NortenElement(Z=G, V=0, name=name, type='conductor')")]),
    ('voltage_source: default Z = 0 -> 1', 'caught',
     [(EL, 'V : complex, Z : complex = 0)', 'V : complex, Z : complex = 1)')]),
    ('NortenElement.I: V/Z -> Z/V', 'caught',
     [(EL, 'return complex(self.V)/self.Z', 'return complex(self.Z)/self.V')]),
    ('TheveninElement.V: except returns np.inf instead of np.nan', 'caught',
     [(EL, '            return complex(self.I)/self.Y\n        except ZeroDivisionError:\n            return np.nan',
       '            return complex(self.I)/self.Y\n        except ZeroDivisionError:\n            return np.inf')]),
    ('NortenElement.Y: except ZeroDivisionError -> except Exception', 'caught',
     [(EL, '            return 1/self.Z\n        except ZeroDivisionError:', '            return 1/self.Z\n        except Exception:')]),
    ('__post_init__: the two checks reordered', 'caught',
     [(NW, '''        if self.node_zero_label not in self.node_labels and self.number_of_nodes != 0:
            raise FloatingGroundNode
        if len(set(self.branch_ids)) != len(self.branches):
            raise AmbiguousBranchIDs''', '''        if len(set(self.branch_ids)) != len(self.branches):
            raise AmbiguousBranchIDs
        if self.node_zero_label not in self.node_labels and self.number_of_nodes != 0:
            raise FloatingGroundNode''')]),
    ('__post_init__: AmbiguousBranchIDs -> FloatingGroundNode', 'caught',
     [(NW, '            raise AmbiguousBranchIDs', '            raise FloatingGroundNode')]),
    ('__post_init__: `not in` -> `in`', 'caught',
     [(NW, 'if self.node_zero_label not in self.node_labels and', 'if self.node_zero_label in self.node_labels and')]),
    ('node_labels: `sorted` dropped', 'caught',
     [(NW, 'return sorted(list(node1_set.union(node2_set)))', 'return list(node1_set.union(node2_set))')]),
    ('node_labels: node2_set built from node1', 'caught',
     [(NW, 'node2_set = {branch.node2 for branch in self.branches}', 'node2_set = {branch.node1 for branch in self.branches}')]),
    ('node_labels: empty case returns []', 'caught',
     [(NW, '            return [self.node_zero_label]', '            return []')]),
    ('__getitem__: first branch wins (next(...))', 'caught',
     [(NW, 'return {b.id: b for b in self.branches}[id]', 'return next(b for b in self.branches if b.id == id)')]),
    ('Network: field order swapped', 'caught',
     [(NW, "    branches: list[Branch]\n    node_zero_label: str = '0'\n", "    node_zero_label: str\n    branches: list[Branch]\n")]),
    ('voltage source mapper: `sorted` dropped', 'caught',
     [(LM, 'voltage_source_labels = sorted([b.id for b in network.branches if is_ideal_voltage_source(b.element)])',
       'voltage_source_labels = [b.id for b in network.branches if is_ideal_voltage_source(b.element)]')]),
    ('voltage source mapper: filters with is_current_source', 'caught',
     [(LM, 'voltage_source_labels = sorted([b.id for b in network.branches if is_ideal_voltage_source(b.element)])',
       'voltage_source_labels = sorted([b.id for b in network.branches if is_current_source(b.element)])')]),
    ('node mapper: `!=` -> `==` (keeps only the reference node)', 'caught',
     [(LM, 'if label != network.node_zero_label]', 'if label == network.node_zero_label]')]),
    ('node mapper: enumerate(...) value/key swapped', 'caught',
     [(LM, 'return LabelMapping({k: v for v, k in enumerate(node_labels_without_zero)})',
       'return LabelMapping({v: k for v, k in enumerate(node_labels_without_zero)})')]),
    ('solution: default voltage_source_mapper = alphabetic_source_mapper', 'caught',
     [(SO, 'voltage_source_mapper: map.SourceIndexMapper = map.alphabetic_voltage_source_mapper',
       'voltage_source_mapper: map.SourceIndexMapper = map.alphabetic_source_mapper')]),
    ('get_current: leading `-` lost in -(I + v/Z)', 'caught',
     [(BP, 'return - (self.network[branch_id].element.I + ', 'return (self.network[branch_id].element.I + ')]),
    ('get_current: I + v/Z -> I - v/Z', 'caught',
     [(BP, 'element.I + self.get_voltage(branch_id)/', 'element.I - self.get_voltage(branch_id)/')]),
    ('get_current: cases 2 and 3 reordered', 'caught',
     [(BP, '''        if is_ideal_current_source(self.network[branch_id].element):
            return self.network[branch_id].element.I
        if is_current_source(self.network[branch_id].element):
            return - (self.network[branch_id].element.I + self.get_voltage(branch_id)/self.network[branch_id].element.Z)
''', '''        if is_current_source(self.network[branch_id].element):
            return - (self.network[branch_id].element.I + self.get_voltage(branch_id)/self.network[branch_id].element.Z)
        if is_ideal_current_source(self.network[branch_id].element):
            return self.network[branch_id].element.I
''')]),
    ('get_current: last case v/Z -> v*Z', 'caught',
     [(BP, 'return self.get_voltage(branch_id)/branch.element.Z', 'return self.get_voltage(branch_id)*branch.element.Z')]),
    ('get_current: voltage-source currents read from _potentials', 'caught',
     [(BP, 'return self._voltage_source_currents[self._voltage_source_mapping[branch_id]]',
       'return self._potentials[self._voltage_source_mapping[branch_id]]')]),
    ('get_potential: reference potential 0 -> 1', 'caught',
     [(BP, '        if node_id == self.network.node_zero_label:\n            return 0', '        if node_id == self.network.node_zero_label:\n            return 1')]),
    ('get_voltage: phi1-phi2 -> phi2-phi1', 'caught', [(SO, 'return phi1-phi2', 'return phi2-phi1')]),
    ('get_power: .conjugate() dropped', 'caught',
     [(SO, 'return self.get_voltage(branch_id)*self.get_current(branch_id).conjugate()',
       'return self.get_voltage(branch_id)*self.get_current(branch_id)')]),
    ('switch_ground_node: keeps the old reference node', 'caught',
     [(TR, 'return Network(network.branches, new_ground)', 'return Network(network.branches, network.node_zero_label)')]),
    ('remove_open_circuit_elements: `not` dropped', 'caught',
     [(TR, 'if not is_open_circuit(b.element)]', 'if is_open_circuit(b.element)]')]),
    ('remove_short_circuit_elements: `not` dropped in the node choice', 'caught',
     [(TR, 'if not network.is_zero_node(sc.node1) else', 'if network.is_zero_node(sc.node1) else')]),
    ('remove_short_circuit_elements: `b.node1 == an` -> `b.node1 == rn`', 'caught',
     [(TR, 'branches = [Branch(rn, b.node2, b.element) if b.node1 == an else b for b in branches]',
       'branches = [Branch(rn, b.node2, b.element) if b.node1 == rn else b for b in branches]')]),
    ('remove_short_circuit_elements: loop dropping step removed', 'caught',
     [(TR, '        branches = [b for b in branches if b.node1 != b.node2]\n', '')]),
    ('remove_short_circuit_elements: `keep` ignored', 'caught',
     [(TR, 'if is_short_circuit(b.element) and b.element not in keep), None)', 'if is_short_circuit(b.element)), None)')]),
    ('short_circuitify: impedance(name, Z) -> impedance(name, Y)', 'caught',
     [(TR, 'impedance(branch.element.name, branch.element.Z)', 'impedance(branch.element.name, branch.element.Y)')]),
    ('short_circuitify: `in keep` -> `not in keep`', 'caught',
     [(TR, '''        if branch.element in keep:
            return False
        if is_voltage_source(branch.element):''', '''        if branch.element not in keep:
            return False
        if is_voltage_source(branch.element):''')]),
    ('remove_ideal_voltage_sources: keep not passed to the second stage', 'caught',
     [(TR, 'return remove_short_circuit_elements(short_circuitify_voltage_sources(network, keep=keep), keep=keep)',
       'return remove_short_circuit_elements(short_circuitify_voltage_sources(network, keep=keep))')]),
    ('passive_network: stages swapped', 'caught',
     [(TR, 'return remove_ideal_voltage_sources(remove_ideal_current_sources(network, keep=keep), keep=keep)',
       'return remove_ideal_current_sources(remove_ideal_voltage_sources(network, keep=keep), keep=keep)')]),
    ('remove_element: for-loop rewrite (outside the subset)', 'caught',
     [(TR, '    branches = list(network.branches)\n    branches.remove(network[element])\n',
       '    branches = []\n    for b in network.branches:\n        if b.id != element:\n            branches.append(b)\n')]),
    ('remove_element: list(...) copy dropped (would mutate the input network)', 'caught',
     [(TR, '    branches = list(network.branches)\n', '    branches = network.branches\n')]),
    ('Branch: __eq__ overridden (changes .remove / `in keep`)', 'caught',
     [(NW, '        return self.element.name\n',
       '        return self.element.name\n\n    def __eq__(self, other) -> bool:\n        return self.id == other.id\n')]),
    ('elements.py: is_voltage_source rebound at the end of the module', 'caught',
     [(EL, '    return element.I == 0 and element.Y == 0\n',
       '    return element.I == 0 and element.Y == 0\n\nis_voltage_source = is_current_source\n')]),
    ('label_mapping.py: import renamed (is_current_source as is_ideal_voltage_source)', 'caught',
     [(LM, 'from ..elements import is_current_source, is_ideal_voltage_source',
       'from ..elements import is_current_source, is_current_source as is_ideal_voltage_source')]),
    # ---- harmless rewrites
    ('HARMLESS node_labels: locals renamed', 'passes',
     [(NW, '''        node1_set = {branch.node1 for branch in self.branches}
        node2_set = {branch.node2 for branch in self.branches}
        return sorted(list(node1_set.union(node2_set)))''', '''        s1 = {b.node1 for b in self.branches}
        s2 = {b.node2 for b in self.branches}
        return sorted(s1.union(s2))''')]),
    ('HARMLESS impedance: keyword arguments reordered', 'passes',
     [(EL, "NortenElement(Z=Z, V=0, name=name, type='impedance')", "NortenElement(name=name, type='impedance', V=0, Z=Z)")]),
    ('HARMLESS is_voltage_source: docstring and comment added', 'passes',
     [(EL, 'def is_voltage_source(element: NortenTheveninElement) -> bool:\n',
       'def is_voltage_source(element: NortenTheveninElement) -> bool:\n    """has a non-zero voltage"""\n    # nan compares False\n')]),
    ('HARMLESS is_active: operands of `or` swapped', 'passes',
     [(EL, 'return is_voltage_source(element) or is_current_source(element)',
       'return is_current_source(element) or is_voltage_source(element)')]),
    ('HARMLESS is_intended_voltage_source as one boolean expression', 'passes',
     [(TR, '''        if branch.element in keep:
            return False
        if is_voltage_source(branch.element):
            return True
        return False''', '''        return branch.element not in keep and is_voltage_source(branch.element)''')]),
    ('HARMLESS node mapper: `!=` written `not ==`', 'passes',
     [(LM, 'if label != network.node_zero_label]', 'if not label == network.node_zero_label]')]),
    ('HARMLESS get_voltage: locals inlined', 'passes',
     [(SO, '''        phi1 = self.get_potential(self.network[branch_id].node1)
        phi2 = self.get_potential(self.network[branch_id].node2)
        return phi1-phi2''', '''        return self.get_potential(self.network[branch_id].node1) - self.get_potential(self.network[branch_id].node2)''')]),
    ('HARMLESS __post_init__: if/elif', 'passes',
     [(NW, '''            raise FloatingGroundNode
        if len(set''', '''            raise FloatingGroundNode
        elif len(set''')]),
    ('HARMLESS remove_open_circuit_elements: local variable introduced', 'passes',
     [(TR, "    return Network([b for b in network.branches if not is_open_circuit(b.element)], node_zero_label=network.node_zero_label)",
       "    kept = [b for b in network.branches if not is_open_circuit(b.element)]\n    return Network(branches=kept, node_zero_label=network.node_zero_label)")]),
]


def lemma_at(path, line):
    name = '?'
    with open(path, encoding='utf-8') as f:
        for i, l in enumerate(f, 1):
            m = re.match(r'\s*(Lemma|Theorem|Example|Definition|Corollary)\s+(\w+)', l)
            if m:
                name = m.group(2)
            if i >= line:
                break
    return name


def run_one(name, edits, scratch_coq, workdir):
    src = os.path.join(workdir, 'repo')
    if os.path.exists(src):
        shutil.rmtree(src)
    shutil.copytree(os.path.join(REPO, 'src', 'CircuitCalculator'), os.path.join(src, 'src', 'CircuitCalculator'))
    for rel, old, new in edits:
        p = os.path.join(src, rel)
        s = open(p, encoding='utf-8').read()
        if s.count(old) != 1:
            return f'MUTATION DOES NOT APPLY ({s.count(old)} matches in {rel})'
        open(p, 'w', encoding='utf-8').write(s.replace(old, new))
    try:
        out = gen_network.generate(os.path.join(src, 'src', 'CircuitCalculator'))
    except Unsupported as e:
        msg = str(e).replace(src + '/src/CircuitCalculator/', '')
        return f'refused: {msg}'
    except SyntaxError as e:
        return f'MUTANT IS NOT PYTHON: {e}'
    with open(os.path.join(scratch_coq, 'Gen', 'NetworkGen.v'), 'w', encoding='utf-8') as f:
        f.write(out['NetworkGen.v'])
    for v in CHAIN:
        r = subprocess.run(['timeout', '600', 'coqc', '-Q', '.', 'CC', v], cwd=scratch_coq, capture_output=True, text=True)
        if r.returncode != 0:
            err = r.stderr.strip()
            m = re.search(r'File "\./([^"]+)", line (\d+)', err)
            what = ''
            if m:
                what = f'{m.group(1)}: {lemma_at(os.path.join(scratch_coq, m.group(1)), int(m.group(2)))}'
            last = [l for l in err.splitlines() if l.strip()]
            first_err = next((l for l in last if l.startswith('Error')), last[-1] if last else '')
            return f'broken: {what} ({first_err.strip()[:90]})'
    return 'passes'


def main():
    pat = sys.argv[1] if len(sys.argv) > 1 else ''
    work = tempfile.mkdtemp(prefix='mutnet_')
    scratch = os.path.join(work, 'coq')
    shutil.copytree(os.path.join(VERIF, 'coq'), scratch, ignore=shutil.ignore_patterns('Extract', '*.glob', '*.cache'))
    bad = 0
    print('| # | mutation | expected | outcome |')
    print('|---|---|---|---|')
    k = 0
    for name, expect, edits in MUTATIONS:
        if pat and pat not in name:
            continue
        k += 1
        res = run_one(name, edits, scratch, work)
        caught = res.startswith('refused') or res.startswith('broken')
        ok = (expect == 'caught' and caught) or (expect == 'passes' and res == 'passes')
        if not ok:
            bad += 1
        print(f'| {k} | {name} | {expect} | {res}{"" if ok else "  **UNEXPECTED**"} |', flush=True)
    shutil.rmtree(work, ignore_errors=True)
    print(f'\n{bad} unexpected outcome(s)')
    return 1 if bad else 0


if __name__ == '__main__':
    sys.exit(main())
