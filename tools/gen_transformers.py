"""Translator module: every translator function of Circuit/transformers.py -> coq/Gen/Transformers.v, one Gallina
definition `g_<function>` per Python function, written in the vocabulary of coq/Model/CircuitPrims.v.
Fail-closed: every construct outside the subset enumerated below raises Unsupported naming file:line and construct.

Accepted module level: imports binding np/elm/ntw/ccp/periodic_function/fourier_series to the expected modules (other
imports ignored), the two typing aliases (`X = TypeVar(...)`, `X = Callable[...]`), function definitions, and the dict
literal `transformers` (str -> name of a function of this module).

Accepted function:  def f(<component>[: ann], [w [: ann] [= const]], [w_resolution [: ann] [= const]], [*unused]) [-> ann]:
Statements
  NAME = <expr>                         (rebinding allowed)
  if <bool>: NAME = <expr>              (no else; NAME already bound to the same type; <expr> cannot raise)
  if <bool>: return <branch>            (no else)
  return <branch>                       (last statement of every path)
Expressions, typed  (x = the component parameter)
  real   float(x.value['K']) | NAME | 0 | 1 | a+b | a-b | a*b | -a | np.abs(a) | a/NAME (NAME known non-zero: the w0 of a
         preceding fourier_series idiom) | an np.round result (through ofZ)
  int    np.round(real)
  bool   real (> | >= | < | <=) real
  cplx   complex(real, real) | elm.complex_value(real) | elm.complex_value(real, 0) | elm.complex_value(real, PHI) with PHI
         (a name bound to) float(x.value['phi']) | elm.admittance_value([G=real][, B=real]) | elm.impedance_value([R=real][, X=real])
         | a real where elements.py expects a complex
  elem   elm.resistor|conductor|impedance|admittance|voltage_source|current_source(x.id, ...) | elm.short_circuit|open_circuit(x.id)
         | elm.load(x.id, real, real) | NAME
  branch ntw.Branch(x.nodes[i], x.nodes[j], elem)
Idioms (fixed shape, fixed translation; anything else with these callees is refused)
  NAME = str(x.value['wavetype'])
  NAME = fourier_series(periodic_function(WT)(period=2*np.pi/W0, amplitude=A, phase=PHI))
         WT: the wavetype name; W0, A, PHI: names bound to float(x.value['w']), float(x.value['V'|'I']), float(x.value['phi'])
  NAME = ccp.ac_voltage_source(id=x.id, nodes=(x.nodes[0], x.nodes[1]), w=<w parameter>, phi=FP.phase(N), V=FP.amplitude(N), R=real)
  return ac_voltage_source(NAME, <w parameter>, <w_resolution parameter>)           (and the _current_ / I / G variant)
         FP: the fourier_series result whose amplitude key is the V / I keyword; N: an np.round result.
Numeric helper functions (added for refactorings that factor a test / an arithmetic expression out of the translators)
  A module function that is NOT a value of the `transformers` table is a helper.  It gets no definition of its own: every
  call is INLINED at the call site (call by value: the arguments are translated first, in source order, in the caller's
  scope; then the body is translated with each parameter standing for its argument's Coq term; the helper's locals become
  pure `let h<k>_<name> := ..` bindings under fresh names, so nothing of the caller is captured).  Accepted helper:
    def h(P1 [: ann], ..., Pn [: ann]) [-> ann]:      no defaults, no */** parameters, no decorator, n >= 1
        NAME = <real | int expression>                 (zero or more; not a parameter, not rebound to another kind)
        return <real | int | bool expression>   |   return <real|int expr>, <real|int expr>[, ...]
    whose expressions are those of the table above restricted to the kinds real / int / bool (no component, so no
    float(x.value[..]), no elm./ntw./ccp. call, no idiom), and which does not call a helper.  A division a/P inside a helper is
    accepted only when the argument passed for P is a name known non-zero in the caller (same rule as above).
  Accepted calls, from a translator function only, all arguments positional, as many as parameters, each of kind real / int:
    h(a1, ..., an)                         as an expression of the kind the helper returns (e.g. `if h(..):`, `NAME = h(..)`)
    NAME1, NAME2[, ...] = h(a1, ..., an)    for a helper returning a tuple of that many components (distinct names; a
                                           target may not occur in a later component's term)
  The helper name must be bound once at module level (one def, no import / alias assignment of that name) and must not be
  shadowed by a parameter of the caller.  A helper that no translator calls is refused (it would get no meaning).
The signatures of the elements.py functions used and the field order of network.Branch are checked against the source."""
import ast
import os
import re

from v2lib import Unsupported, parse, where, coq_string_codes as S, module_assign

REL = 'Circuit/transformers.py'
IDENT = re.compile(r'[A-Za-z_][A-Za-z0-9_]*\Z')
KEY = re.compile(r'[A-Za-z0-9_]+\Z')
RESERVED = {'np', 'elm', 'ntw', 'ccp', 'float', 'complex', 'str', 'periodic_function', 'fourier_series'}

# elements.py constructors: Python name -> (Coq constructor of Model/Network.v, parameter kinds after `name`)
ELM_CTORS = {
    'resistor': ('resistor', ['cplx']), 'conductor': ('conductor', ['cplx']),
    'impedance': ('impedance', ['cplx']), 'admittance': ('admittance', ['cplx']),
    'voltage_source': ('voltage_source', ['cplx', 'cplx']), 'current_source': ('current_source', ['cplx', 'cplx']),
    'short_circuit': ('short_circuit', []), 'open_circuit': ('open_circuit', []),
}
# signatures the translation relies on (ast.unparse of the argument list)
ELM_SIGNATURES = {
    'resistor': 'name: str, R: float', 'conductor': 'name: str, G: float',
    'impedance': 'name: str, Z: complex', 'admittance': 'name: str, Y: complex',
    'voltage_source': 'name: str, V: complex, Z: complex=0', 'current_source': 'name: str, I: complex, Y: complex=0',
    'short_circuit': 'name: str', 'open_circuit': 'name: str',
    'load': 'name: str, P: float, V_ref: float=-1, I_ref: float=-1, Q: float=0',
    'complex_value': 'X: float, phi: float=0.0, rms: bool=False, deg: bool=False',
    'impedance_value': 'R: float=0.0, X: float=0.0, absZ: float=-1.0, phi: float=0.0, degree: bool=False',
    'admittance_value': 'G: float=0.0, B: float=0.0, absY: float=-1.0, phi: float=0.0, degree: bool=False',
}
CCP_SIGNATURES = {
    'ac_voltage_source': 'id: str, nodes: tuple[str, str], V: float, R: float=0, w: float=0, phi: float=0',
    'ac_current_source': 'id: str, nodes: tuple[str, str], I: float, G: float=0, w: float=0, phi: float=0',
}
EXPECTED_IMPORTS = {
    'np': ('import', 'numpy'), 'elm': ('from', 2, 'Network', 'elements'), 'ntw': ('from', 2, 'Network', 'network'),
    'ccp': ('from', 1, None, 'components'),
    'periodic_function': ('from', 2, 'SignalProcessing.periodic_functions', 'periodic_function'),
    'fourier_series': ('from', 2, 'SignalProcessing.periodic_functions', 'fourier_series'),
}


class Var:
    def __init__(self, coq, typ, read=None, nonzero=False, extra=None):
        self.coq, self.typ, self.read, self.nonzero, self.extra = coq, typ, read, nonzero, extra


class Fn:
    """translation state of one Python function"""

    def __init__(self, f, path, module_funcs, helpers=None, used=None, parent=None):
        self.f, self.path, self.module_funcs = f, path, module_funcs
        self.helpers = helpers or {}      # name -> FunctionDef of the numeric helpers (inlined at their call sites)
        self.used = used if used is not None else set()
        self.parent = parent              # the translator a helper body is being inlined into (None for a translator)
        self.env = {}
        self.n = 0
        self.p0 = None
        self.wpar = None
        self.wrespar = None

    def bad(self, node, what):
        return Unsupported(f'{where(node, self.path)}: {self.f.name}: {what}')

    def fresh(self, stem):
        if self.parent is not None:       # one counter per generated definition
            return self.parent.fresh(stem)
        self.n += 1
        return f'{stem}{self.n}'

    # ---------------------------------------------------------------- recognisers
    def is_p0(self, e):
        return isinstance(e, ast.Name) and e.id == self.p0

    def value_key(self, e):
        """x.value['K'] -> 'K'"""
        if isinstance(e, ast.Subscript) and isinstance(e.value, ast.Attribute) and e.value.attr == 'value' \
                and self.is_p0(e.value.value):
            if not (isinstance(e.slice, ast.Constant) and isinstance(e.slice.value, str) and KEY.match(e.slice.value)):
                raise self.bad(e, f'value key is not a plain string literal: {ast.unparse(e)}')
            return e.slice.value
        return None

    def float_read(self, e):
        """float(x.value['K']) -> 'K'"""
        if isinstance(e, ast.Call) and isinstance(e.func, ast.Name) and e.func.id == 'float' and len(e.args) == 1 \
                and not e.keywords:
            return self.value_key(e.args[0])
        return None

    def node_index(self, e):
        """x.nodes[i] -> i"""
        if isinstance(e, ast.Subscript) and isinstance(e.value, ast.Attribute) and e.value.attr == 'nodes' \
                and self.is_p0(e.value.value):
            if not (isinstance(e.slice, ast.Constant) and isinstance(e.slice.value, int)
                    and not isinstance(e.slice.value, bool) and e.slice.value >= 0):
                raise self.bad(e, f'node subscript is not a non-negative literal: {ast.unparse(e)}')
            return e.slice.value
        return None

    def is_id(self, e):
        return isinstance(e, ast.Attribute) and e.attr == 'id' and self.is_p0(e.value)

    def attr_call(self, e, base):
        """base.f(...) -> 'f'"""
        if isinstance(e, ast.Call) and isinstance(e.func, ast.Attribute) and isinstance(e.func.value, ast.Name) \
                and e.func.value.id == base and base not in self.env:
            return e.func.attr
        return None

    def is_zero(self, e):
        return isinstance(e, ast.Constant) and not isinstance(e.value, bool) and isinstance(e.value, (int, float)) \
            and e.value == 0

    # ---------------------------------------------------------------- expressions
    # every translator returns (pre, term, type, var) where pre is the list of monadic bindings (coq name, coq term)
    # the expression's evaluation performs, in Python's evaluation order, and term is a pure Coq term.
    def real(self, e):
        pre, t, ty, v = self.expr(e)
        if ty == 'int':
            return pre, f'(ofZ {t})', 'real', None
        if ty != 'real':
            raise self.bad(e, f'a real number is expected, {ast.unparse(e)} is of kind {ty}')
        return pre, t, ty, v

    def cplx(self, e):
        pre, t, ty, v = self.expr(e)
        if ty == 'int':
            t, ty = f'(ofZ {t})', 'real'
        if ty == 'real':
            return pre, f'(real_to_complex {t})', 'cplx', None
        if ty != 'cplx':
            raise self.bad(e, f'a complex number is expected, {ast.unparse(e)} is of kind {ty}')
        return pre, t, ty, v

    def expr(self, e):
        k = self.float_read(e)
        if k is not None:
            x = self.fresh('x') + '_' + k
            return [(x, f'vget c "{k}"')], x, 'real', Var(x, 'real', read=k)
        if isinstance(e, ast.Name):
            if e.id in self.env:
                v = self.env[e.id]
                if v.typ in ('real', 'int', 'cplx', 'elem'):
                    return [], v.coq, v.typ, v
                raise self.bad(e, f'{e.id} (kind {v.typ}) used as a value')
            raise self.bad(e, f'unbound or unsupported name {e.id}')
        if isinstance(e, ast.Constant):
            if not isinstance(e.value, bool) and isinstance(e.value, (int, float)) and e.value in (0, 1):
                return [], '(f0 R)' if e.value == 0 else '(f1 R)', 'real', None
            raise self.bad(e, f'constant {e.value!r} (only 0 and 1 are in the subset)')
        if isinstance(e, ast.UnaryOp) and isinstance(e.op, ast.USub):
            pre, t, _, _ = self.real(e.operand)
            return pre, f'(fopp R {t})', 'real', None
        if isinstance(e, ast.BinOp):
            ops = {ast.Add: 'fadd', ast.Sub: 'fsub', ast.Mult: 'fmul', ast.Div: 'fdiv'}
            if type(e.op) not in ops:
                raise self.bad(e, f'operator in {ast.unparse(e)}')
            pa, ta, _, _ = self.real(e.left)
            pb, tb, _, vb = self.real(e.right)
            if isinstance(e.op, ast.Div) and not (isinstance(e.right, ast.Name) and vb is not None and vb.nonzero):
                raise self.bad(e, f'division by {ast.unparse(e.right)}, which is not a name known to be non-zero '
                                  f'(ZeroDivisionError is modelled only for the w0 of the fourier_series idiom)')
            return pa + pb, f'({ops[type(e.op)]} R {ta} {tb})', 'real', None
        if isinstance(e, ast.Compare):
            if len(e.ops) != 1:
                raise self.bad(e, f'chained comparison {ast.unparse(e)}')
            ops = {ast.Gt: 'py_gt', ast.GtE: 'py_ge', ast.Lt: 'py_lt', ast.LtE: 'py_le'}
            if type(e.ops[0]) not in ops:
                raise self.bad(e, f'comparison operator in {ast.unparse(e)}')
            pa, ta, _, _ = self.real(e.left)
            pb, tb, _, _ = self.real(e.comparators[0])
            return pa + pb, f'({ops[type(e.ops[0])]} {ta} {tb})', 'bool', None
        if isinstance(e, ast.Call):
            return self.call(e)
        raise self.bad(e, f'expression {ast.unparse(e)}')

    def call(self, e):
        f = self.attr_call(e, 'np')
        if f is not None:
            if f not in ('abs', 'round') or len(e.args) != 1 or e.keywords:
                raise self.bad(e, f'numpy call {ast.unparse(e)} (only np.abs(x) and np.round(x))')
            pre, t, _, _ = self.real(e.args[0])
            return (pre, f'(py_abs {t})', 'real', None) if f == 'abs' else (pre, f'(rnd {t})', 'int', None)
        if isinstance(e.func, ast.Name) and e.func.id == 'complex' and 'complex' not in self.env:
            if len(e.args) != 2 or e.keywords:
                raise self.bad(e, f'complex(...) with other than two positional arguments: {ast.unparse(e)}')
            pa, ta, _, _ = self.real(e.args[0])
            pb, tb, _, _ = self.real(e.args[1])
            return pa + pb, f'(py_complex {ta} {tb})', 'cplx', None
        f = self.attr_call(e, 'elm')
        if f is not None:
            return self.elm_call(e, f)
        if isinstance(e.func, ast.Name) and e.func.id in self.helpers:
            pre, rets = self.inline(e)
            if len(rets) != 1:
                raise self.bad(e, f'{ast.unparse(e)} returns a tuple; only `N1, N2 = {e.func.id}(...)` is in the subset')
            return pre, rets[0][0], rets[0][1], None
        raise self.bad(e, f'call {ast.unparse(e)}')

    def inline(self, e):
        """call of a numeric helper -> (pre, [(term, kind), ...]): the bindings of the arguments' evaluation followed by
        the pure lets of the helper's locals, and the returned component(s)"""
        name = e.func.id
        h = self.helpers[name]
        if self.parent is not None:
            raise self.bad(e, f'helper {self.f.name} calls the helper {name}')
        if name in self.env or name in (self.p0, self.wpar, self.wrespar) or \
                (self.f.args.vararg and self.f.args.vararg.arg == name):
            raise self.bad(e, f'the helper name {name} is shadowed by a local name')
        params = [x.arg for x in h.args.args]
        if e.keywords or len(e.args) != len(params) or any(isinstance(a, ast.Starred) for a in e.args):
            raise self.bad(e, f'call {ast.unparse(e)}: {len(params)} positional arguments expected')
        sub = Fn(h, self.path, self.module_funcs, helpers=self.helpers, used=self.used, parent=self)
        pre = []
        for p, a in zip(params, e.args):
            pa, ta, ty, va = self.expr(a)
            if ty not in ('real', 'int'):
                raise self.bad(a, f'argument {ast.unparse(a)} of {name} is of kind {ty} (real / int only)')
            pre += pa
            sub.env[p] = Var(ta, ty, nonzero=bool(va is not None and va.nonzero))
        self.used.add(name)
        lets, rets = sub.helper_body(params)
        return pre + lets, rets

    def helper_body(self, params):
        """body of a helper: NAME = expr ... return expr[, expr ...]"""
        body = list(self.f.body)
        if not body or not isinstance(body[-1], ast.Return) or body[-1].value is None:
            raise self.bad(self.f, 'helper does not end in `return <expression>`')
        lets = []
        for st in body[:-1]:
            if not isinstance(st, ast.Assign):
                raise self.bad(st, f'helper statement {type(st).__name__} (only NAME = <expression> before the return)')
            name = self.assign_target(st)
            if name in params or name in self.helpers:
                raise self.bad(st, f'helper assigns to its parameter / to a helper name {name}')
            pre, t, ty, _ = self.expr(st.value)
            if pre:
                raise self.bad(st, 'helper expression with an effect')
            if ty not in ('real', 'int'):
                raise self.bad(st, f'helper local of kind {ty}')
            if name in self.env and self.env[name].typ != ty:
                raise self.bad(st, f'helper local {name} rebound to another kind')
            x = self.fresh('h') + '_' + name
            lets.append((x, t, 'let'))
            self.env[name] = Var(x, ty)
        rv = body[-1].value
        comps = list(rv.elts) if isinstance(rv, ast.Tuple) else [rv]
        if isinstance(rv, ast.Tuple) and len(comps) < 2:
            raise self.bad(rv, 'helper returns a tuple of fewer than two components')
        rets = []
        for c in comps:
            pre, t, ty, _ = self.expr(c)
            if pre:
                raise self.bad(c, 'helper expression with an effect')
            if ty not in (('real', 'int', 'bool') if len(comps) == 1 else ('real', 'int')):
                raise self.bad(c, f'helper returns a value of kind {ty}')
            rets.append((t, ty))
        return lets, rets

    def elm_call(self, e, f):
        if f == 'complex_value':
            if e.keywords or len(e.args) not in (1, 2):
                raise self.bad(e, f'elm.complex_value call shape {ast.unparse(e)}')
            pre, t, _, _ = self.real(e.args[0])
            if len(e.args) == 1 or self.is_zero(e.args[1]):
                return pre, f'(complex_value_re {t})', 'cplx', None
            pp, tp, _, vp = self.real(e.args[1])
            if vp is None or vp.read != 'phi':
                raise self.bad(e, f'elm.complex_value(X, {ast.unparse(e.args[1])}): the phase is neither 0 nor the '
                                  f"component's own float({self.p0}.value['phi']) (only its cos/sin are model data)")
            return pre + pp, f'(complex_value_phi c {t} {tp})', 'cplx', None
        if f in ('admittance_value', 'impedance_value'):
            names = ('G', 'B') if f == 'admittance_value' else ('R', 'X')
            if e.args or any(k.arg not in names for k in e.keywords) or len({k.arg for k in e.keywords}) != len(e.keywords):
                raise self.bad(e, f'elm.{f} call shape {ast.unparse(e)} (keywords {names} only)')
            pre, parts = [], {}
            for k in e.keywords:       # evaluated in source order
                p, t, _, _ = self.real(k.value)
                pre += p
                parts[k.arg] = t
            return pre, f'({f} {parts.get(names[0], "(f0 R)")} {parts.get(names[1], "(f0 R)")})', 'cplx', None
        if f == 'load':
            if e.keywords or len(e.args) != 3 or not self.is_id(e.args[0]):
                raise self.bad(e, f'elm.load call shape {ast.unparse(e)} (expected elm.load({self.p0}.id, P, V_ref))')
            pa, ta, _, _ = self.real(e.args[1])
            pb, tb, _, _ = self.real(e.args[2])
            x = self.fresh('e') + '_load'
            return pa + pb + [(x, f'elm_load (cid c) {ta} {tb}')], x, 'elem', None
        if f in ELM_CTORS:
            coq, kinds = ELM_CTORS[f]
            if e.keywords or len(e.args) != 1 + len(kinds) or not self.is_id(e.args[0]):
                raise self.bad(e, f'elm.{f} call shape {ast.unparse(e)} (expected {1 + len(kinds)} positional arguments, '
                                  f'the first being {self.p0}.id)')
            pre, ts = [], []
            for a in e.args[1:]:
                p, t, _, _ = self.cplx(a)
                pre += p
                ts.append(t)
            return pre, '(' + ' '.join([coq, '(cid c)'] + ts) + ')', 'elem', None
        raise self.bad(e, f'elements function elm.{f}')

    # ---------------------------------------------------------------- statements
    @staticmethod
    def binds(pre, body, ind):
        """pre entries: (x, t) monadic `let* x := t in`; (x, t, 'let') pure `let x := t in` (locals of an inlined helper)"""
        return ''.join(f'{ind}let{"" if len(b) == 3 else "*"} {b[0]} := {b[1]} in\n' for b in pre) + body

    def branch(self, e, ind):
        """return-expression -> Coq text of type res (branch C)"""
        if not (self.attr_call(e, 'ntw') == 'Branch' and len(e.args) == 3 and not e.keywords):
            raise self.bad(e, f'returned expression is not ntw.Branch(n1, n2, element): {ast.unparse(e)}')
        i, j = self.node_index(e.args[0]), self.node_index(e.args[1])
        if i is None or j is None:
            raise self.bad(e, f'ntw.Branch terminals are not {self.p0}.nodes[<literal>]: {ast.unparse(e)}')
        pre, t, ty, _ = self.expr(e.args[2])
        if ty != 'elem':
            raise self.bad(e, f'third argument of ntw.Branch is of kind {ty}')
        if not pre:
            return f'{ind}mkbranch c {t}\n' if (i, j) == (0, 1) else f'{ind}branch_at c {i} {j} {t}\n'
        return f'{ind}branch_at_then c {i} {j} (\n' + self.binds(pre, f'{ind}  Ok {t})\n', ind + '  ')

    def assign_target(self, st, target=None):
        if target is None:
            if not (len(st.targets) == 1 and isinstance(st.targets[0], ast.Name)):
                raise self.bad(st, f'assignment target {ast.unparse(st)}')
            target = st.targets[0]
        if not isinstance(target, ast.Name):
            raise self.bad(st, f'assignment target {ast.unparse(target)}')
        name = target.id
        if not IDENT.match(name) or name in RESERVED or name in self.module_funcs or name in (self.p0, self.wpar, self.wrespar):
            raise self.bad(st, f'assignment to the reserved / parameter / function name {name}')
        return name

    def block(self, stmts, ind):
        if not stmts:
            raise self.bad(self.f, 'a path ends without `return`')
        st, rest = stmts[0], stmts[1:]
        if isinstance(st, ast.Return):
            if rest:
                raise self.bad(rest[0], 'statement after return')
            if st.value is None:
                raise self.bad(st, 'bare return')
            return self.branch(st.value, ind)
        if isinstance(st, ast.Assign) and len(st.targets) == 1 and isinstance(st.targets[0], ast.Tuple):
            # --- N1, N2[, ...] = helper(...)
            v = st.value
            if not (isinstance(v, ast.Call) and isinstance(v.func, ast.Name) and v.func.id in self.helpers):
                raise self.bad(st, f'tuple assignment from something other than a helper call: {ast.unparse(st)}')
            names = [self.assign_target(st, t) for t in st.targets[0].elts]
            if len(set(names)) != len(names):
                raise self.bad(st, 'tuple assignment binds a name twice')
            pre, rets = self.inline(v)
            if len(rets) != len(names) or len(rets) < 2:
                raise self.bad(st, f'{ast.unparse(v)} returns {len(rets)} value(s), {len(names)} targets')
            for i, n_ in enumerate(names):
                for t_, _ in rets[i + 1:]:
                    if re.search(r'(?<![A-Za-z0-9_\'])v_' + re.escape(n_) + r'(?![A-Za-z0-9_\'])', t_):
                        raise self.bad(st, f'tuple assignment: the target {n_} occurs in a later component')
            out = self.binds(pre, '', ind)
            for n_, (t_, ty_) in zip(names, rets):
                out += f'{ind}let v_{n_} := {t_} in\n'
                self.env[n_] = Var('v_' + n_, ty_)
            return out + self.block(rest, ind)
        if isinstance(st, ast.Assign):
            name = self.assign_target(st)
            v = st.value
            # --- idiom: NAME = str(x.value['wavetype'])
            if isinstance(v, ast.Call) and isinstance(v.func, ast.Name) and v.func.id == 'str':
                if not (len(v.args) == 1 and not v.keywords and self.value_key(v.args[0]) == 'wavetype'):
                    raise self.bad(st, f"str(...) other than str({self.p0}.value['wavetype'])")
                self.env[name] = Var('v_' + name, 'wavename')
                return f'{ind}let v_{name} := value_wavetype c in\n' + self.block(rest, ind)
            # --- idiom: NAME = fourier_series(periodic_function(WT)(period=2*np.pi/W0, amplitude=A, phase=PHI))
            if isinstance(v, ast.Call) and isinstance(v.func, ast.Name) and v.func.id in ('fourier_series', 'periodic_function'):
                return self.fourier(st, name, v, ind) + self.block(rest, ind)
            # --- idiom: NAME = ccp.ac_X_source(...) ; return ac_X_source(NAME, w, w_resolution)
            if self.attr_call(v, 'ccp') is not None:
                return self.single_frequency(st, name, v, rest, ind)
            pre, t, ty, var = self.expr(v)
            if ty not in ('real', 'int', 'cplx', 'elem'):
                raise self.bad(st, f'assignment of a value of kind {ty}')
            coq = 'v_' + name
            if pre and pre[-1][0] == t:          # NAME = float(x.value['K']) / elm.load(...): bind the name directly
                pre = pre[:-1] + [(coq,) + tuple(pre[-1][1:])]
                out = self.binds(pre, '', ind)
            else:
                out = self.binds(pre, f'{ind}let {coq} := {t} in\n', ind)
            self.env[name] = Var(coq, ty, read=var.read if var is not None else None)
            return out + self.block(rest, ind)
        if isinstance(st, ast.If):
            if st.orelse:
                raise self.bad(st, 'if with an else branch')
            pre, cond, ty, _ = self.expr(st.test)
            if ty != 'bool':
                raise self.bad(st, f'if test {ast.unparse(st.test)} is not a comparison')
            if len(st.body) == 1 and isinstance(st.body[0], ast.Assign):
                name = self.assign_target(st.body[0])
                if name not in self.env:
                    raise self.bad(st, f'conditional assignment to the unbound name {name}')
                old = self.env[name]
                p2, t2, ty2, _ = self.expr(st.body[0].value)
                if p2:
                    raise self.bad(st, f'conditional assignment whose right-hand side can raise / needs bindings: {ast.unparse(st.body[0])}')
                if ty2 != old.typ or ty2 not in ('real', 'int', 'cplx', 'elem'):
                    raise self.bad(st, f'conditional assignment changes the kind of {name} ({old.typ} -> {ty2})')
                self.env[name] = Var(old.coq, old.typ)
                return self.binds(pre, f'{ind}let {old.coq} := if {cond} then {t2} else {old.coq} in\n', ind) + self.block(rest, ind)
            if len(st.body) == 1 and isinstance(st.body[0], ast.Return) and st.body[0].value is not None:
                saved = dict(self.env)
                then = self.branch(st.body[0].value, ind + '  ')
                self.env = saved
                return self.binds(pre, f'{ind}if {cond} then\n{then}{ind}else\n', ind) + self.block(rest, ind)
            raise self.bad(st, 'if body is neither a single assignment nor a single return')
        raise self.bad(st, f'statement {type(st).__name__}: {ast.unparse(st).splitlines()[0]}')

    def named(self, e, typ, what):
        if isinstance(e, ast.Name) and e.id in self.env and self.env[e.id].typ == typ:
            return self.env[e.id]
        raise self.bad(e, f'{what}: {ast.unparse(e)} is not a name of kind {typ}')

    def fourier(self, st, name, v, ind):
        shape = 'fourier_series(periodic_function(WT)(period=2*np.pi/W0, amplitude=A, phase=PHI))'
        if not (v.func.id == 'fourier_series' and len(v.args) == 1 and not v.keywords and isinstance(v.args[0], ast.Call)):
            raise self.bad(st, f'idiom shape changed, expected {shape}')
        inst = v.args[0]
        mk = inst.func
        if not (isinstance(mk, ast.Call) and isinstance(mk.func, ast.Name) and mk.func.id == 'periodic_function'
                and len(mk.args) == 1 and not mk.keywords and not inst.args
                and [k.arg for k in inst.keywords] == ['period', 'amplitude', 'phase']):
            raise self.bad(st, f'idiom shape changed, expected {shape}')
        wt = self.named(mk.args[0], 'wavename', 'periodic_function argument')
        per, amp, ph = (k.value for k in inst.keywords)
        ok = isinstance(per, ast.BinOp) and isinstance(per.op, ast.Div) and isinstance(per.left, ast.BinOp) \
            and isinstance(per.left.op, ast.Mult) and isinstance(per.left.left, ast.Constant) and per.left.left.value == 2 \
            and not isinstance(per.left.left.value, bool) \
            and isinstance(per.left.right, ast.Attribute) and per.left.right.attr == 'pi' \
            and isinstance(per.left.right.value, ast.Name) and per.left.right.value.id == 'np' and 'np' not in self.env
        if not ok:
            raise self.bad(st, f'period is not 2*np.pi/W0: {ast.unparse(per)}')
        w0 = self.named(per.right, 'real', 'period divisor')
        a = self.named(amp, 'real', 'amplitude')
        p = self.named(ph, 'real', 'phase')
        if w0.read != 'w':
            raise self.bad(st, f"period divisor {ast.unparse(per.right)} is not bound to float({self.p0}.value['w'])")
        if a.read not in ('V', 'I'):
            raise self.bad(st, f"amplitude {ast.unparse(amp)} is not bound to float({self.p0}.value['V'|'I'])")
        if p.read != 'phi':
            raise self.bad(st, f"phase {ast.unparse(ph)} is not bound to float({self.p0}.value['phi'])")
        w0.nonzero = True          # 2*np.pi/w0 has raised ZeroDivisionError otherwise
        self.env[name] = Var('v_' + name, 'fprops', extra=a.read)
        return f'{ind}let* v_{name} := fourier_series_of c {wt.coq} {w0.coq} {a.coq} {p.coq} in\n'

    def single_frequency(self, st, name, v, rest, ind):
        ctor = self.attr_call(v, 'ccp')
        if ctor not in ('ac_voltage_source', 'ac_current_source'):
            raise self.bad(st, f'call of ccp.{ctor}')
        ampk, immk, prim = ('V', 'R', 'single_frequency_voltage_source') if ctor == 'ac_voltage_source' \
            else ('I', 'G', 'single_frequency_current_source')
        shape = f'ccp.{ctor}(id=x.id, nodes=(x.nodes[0], x.nodes[1]), w=w, phi=FP.phase(N), {ampk}=FP.amplitude(N), {immk}=...)'
        kw = {k.arg: k.value for k in v.keywords}
        if v.args or len(kw) != len(v.keywords) or set(kw) != {'id', 'nodes', 'w', 'phi', ampk, immk}:
            raise self.bad(st, f'idiom shape changed (keywords {sorted(map(str, kw))}), expected {shape}')
        if not self.is_id(kw['id']):
            raise self.bad(st, f'id= is not {self.p0}.id')
        nd = kw['nodes']
        if not (isinstance(nd, ast.Tuple) and len(nd.elts) == 2 and [self.node_index(x) for x in nd.elts] == [0, 1]):
            raise self.bad(st, f'nodes= is not ({self.p0}.nodes[0], {self.p0}.nodes[1])')
        if not (self.wpar and isinstance(kw['w'], ast.Name) and kw['w'].id == self.wpar):
            raise self.bad(st, 'w= is not the angular-frequency parameter of the translator')

        def coeff(e, meth):
            if not (isinstance(e, ast.Call) and isinstance(e.func, ast.Attribute) and e.func.attr == meth
                    and len(e.args) == 1 and not e.keywords):
                raise self.bad(st, f'expected FP.{meth}(N), found {ast.unparse(e)}')
            return self.named(e.func.value, 'fprops', f'{meth} receiver'), self.named(e.args[0], 'int', f'{meth} argument')
        fp1, n1 = coeff(kw['phi'], 'phase')
        fp2, n2 = coeff(kw[ampk], 'amplitude')
        if fp1 is not fp2 or n1 is not n2:
            raise self.bad(st, 'phase and amplitude are taken from different series / harmonic orders')
        if fp1.extra != ampk:
            raise self.bad(st, f"the series' amplitude was read from value['{fp1.extra}'], the source is built with {ampk}=")
        pre, timm, _, _ = self.real(kw[immk])
        # the following statement: return ac_X_source(NAME, w, w_resolution)
        if not (len(rest) == 1 and isinstance(rest[0], ast.Return) and isinstance(rest[0].value, ast.Call)):
            raise self.bad(st, f'ccp.{ctor}(...) is not immediately followed by `return {ctor}({name}, w, w_resolution)`')
        r = rest[0].value
        if not (isinstance(r.func, ast.Name) and r.func.id == ctor and ctor in self.module_funcs and ctor not in self.env
                and ctor not in (self.p0, self.wpar, self.wrespar) and not r.keywords and len(r.args) == 3
                and isinstance(r.args[0], ast.Name) and r.args[0].id == name
                and isinstance(r.args[1], ast.Name) and r.args[1].id == self.wpar
                and self.wrespar and isinstance(r.args[2], ast.Name) and r.args[2].id == self.wrespar):
            raise self.bad(rest[0], f'expected `return {ctor}({name}, {self.wpar}, {self.wrespar})`, found {ast.unparse(rest[0])}')
        h = self.fresh('h')
        return (f'{ind}let* {h} := harmonic {fp1.coq} {n1.coq} in\n'
                + self.binds(pre, f'{ind}{prim} c {h} {timm}\n', ind))

    # ---------------------------------------------------------------- the function
    def translate(self):
        f, a = self.f, self.f.args
        if f.decorator_list:
            raise self.bad(f, 'decorated function')
        if a.kwarg or a.kwonlyargs or a.posonlyargs:
            raise self.bad(f, 'keyword-only / positional-only / ** parameters')
        if not 1 <= len(a.args) <= 3:
            raise self.bad(f, f'{len(a.args)} positional parameters (1 to 3 expected: component, w, w_resolution)')
        names = [x.arg for x in a.args] + ([a.vararg.arg] if a.vararg else [])
        if len(set(names)) != len(names) or any(not IDENT.match(n) or n in RESERVED for n in names):
            raise self.bad(f, f'parameter names {names}')
        if len(a.defaults) > len(a.args) - 1:
            raise self.bad(f, 'the component parameter has a default')
        for d in a.defaults:
            if not (isinstance(d, ast.Constant) and isinstance(d.value, (int, float)) and not isinstance(d.value, bool)):
                raise self.bad(d, f'parameter default {ast.unparse(d)}')
        self.p0 = names[0]
        self.wpar = a.args[1].arg if len(a.args) > 1 else None
        self.wrespar = a.args[2].arg if len(a.args) > 2 else None
        if self.wpar:
            self.env[self.wpar] = Var('w', 'real')
        if self.wrespar:
            self.env[self.wrespar] = Var('wres', 'real')
        if a.vararg:
            for node in ast.walk(f):
                if isinstance(node, ast.Name) and node.id == a.vararg.arg:
                    raise self.bad(node, f'the star parameter *{a.vararg.arg} is used')
        body = self.block(list(f.body), '  ')
        pars = ['(c : comp)'] + (['(w : R)'] if len(a.args) == 2 else ['(w wres : R)'] if len(a.args) == 3 else [])
        sig = ast.unparse(a)
        text = (f'(* {f.name}({sig})   ({REL}:{f.lineno}) *)\n'
                f'Definition g_{f.name} {" ".join(pars)} : res (branch C) :=\n{body.rstrip()}.\n')
        call = f'g_{f.name} c' + (' w' if len(a.args) >= 2 else '') + (' wres' if len(a.args) == 3 else '')
        return text, call


def check_signatures(src):
    for rel, table in (('Network/elements.py', ELM_SIGNATURES), ('Circuit/components.py', CCP_SIGNATURES)):
        path = os.path.join(src, *rel.split('/'))
        fs = {st.name: st for st in parse(path).body if isinstance(st, ast.FunctionDef)}
        for name, sig in table.items():
            if name not in fs:
                raise Unsupported(f'{path}: function {name} not found')
            got = ast.unparse(fs[name].args)
            if got != sig:
                raise Unsupported(f'{where(fs[name], path)}: signature of {name} is ({got}), the translation assumes ({sig})')
    path = os.path.join(src, 'Network', 'network.py')
    for st in parse(path).body:
        if isinstance(st, ast.ClassDef) and st.name == 'Branch':
            fields = [s.target.id for s in st.body if isinstance(s, ast.AnnAssign) and isinstance(s.target, ast.Name)]
            if fields != ['node1', 'node2', 'element']:
                raise Unsupported(f'{where(st, path)}: fields of Branch are {fields}')
            break
    else:
        raise Unsupported(f'{path}: class Branch not found')


def check_imports(tree, path):
    bound = {}
    for st in tree.body:
        if isinstance(st, ast.Import):
            for al in st.names:
                bound[al.asname or al.name.split('.')[0]] = ('import', al.name)
        elif isinstance(st, ast.ImportFrom):
            for al in st.names:
                bound[al.asname or al.name] = ('from', st.level, st.module, al.name)
    for name, exp in EXPECTED_IMPORTS.items():
        if bound.get(name) != exp:
            raise Unsupported(f'{path}: the name {name} is bound by {bound.get(name)}, expected {exp}')


def generate(src):
    path = os.path.join(src, 'Circuit', 'transformers.py')
    tree = parse(path)
    check_imports(tree, path)
    check_signatures(src)
    funcs = []
    for st in tree.body:
        if isinstance(st, (ast.Import, ast.ImportFrom)):
            continue
        if isinstance(st, ast.FunctionDef):
            funcs.append(st)
            continue
        if isinstance(st, ast.Assign) and len(st.targets) == 1 and isinstance(st.targets[0], ast.Name):
            v = st.value
            if (isinstance(v, ast.Call) and isinstance(v.func, ast.Name) and v.func.id == 'TypeVar') or \
                    (isinstance(v, ast.Subscript) and isinstance(v.value, ast.Name) and v.value.id == 'Callable'):
                continue
        if isinstance(st, ast.AnnAssign) and isinstance(st.target, ast.Name) and st.target.id == 'transformers':
            continue
        raise Unsupported(f'{where(st, path)}: top-level statement {ast.unparse(st).splitlines()[0]}')
    names = [f.name for f in funcs]
    if len(set(names)) != len(names):
        raise Unsupported(f'{path}: a function is defined twice')
    for n in names:
        if not IDENT.match(n) or n in RESERVED:
            raise Unsupported(f'{path}: function name {n}')
    table = module_assign(tree, 'transformers')
    if not isinstance(table, ast.Dict):
        raise Unsupported(f'{path}: transformers is not a dict literal')
    for k, v in zip(table.keys, table.values):
        if not (isinstance(k, ast.Constant) and isinstance(k.value, str) and isinstance(v, ast.Name) and v.id in names):
            raise Unsupported(f'{where(table, path)}: transformers entry {ast.unparse(k) if k else "**"}: '
                              f'{ast.unparse(v)} is not `str: function of this module`')
    # a function must be defined before the table (module-level names are resolved when the dict literal is evaluated)
    tline = table.lineno
    for f in funcs:
        if f.lineno > tline:
            raise Unsupported(f'{where(f, path)}: function {f.name} defined after the transformers table')
    # numeric helpers: the module functions the table does not mention; inlined at their call sites (see the docstring)
    in_table = {v.id for v in table.values}
    helpers = {f.name: f for f in funcs if f.name not in in_table}
    funcs = [f for f in funcs if f.name in in_table]
    bound_otherwise = set()
    for st in tree.body:
        if isinstance(st, ast.Import):
            bound_otherwise |= {al.asname or al.name.split('.')[0] for al in st.names}
        elif isinstance(st, ast.ImportFrom):
            bound_otherwise |= {al.asname or al.name for al in st.names}
        elif isinstance(st, ast.Assign):
            bound_otherwise |= {t.id for t in st.targets if isinstance(t, ast.Name)}
        elif isinstance(st, ast.AnnAssign):
            bound_otherwise.add(st.target.id)
    for h in helpers.values():
        a = h.args
        hp = [x.arg for x in a.args]
        if h.decorator_list or a.vararg or a.kwarg or a.kwonlyargs or a.posonlyargs or a.defaults or not hp:
            raise Unsupported(f'{where(h, path)}: helper {h.name}: decorator / default / star / keyword-only parameters, or none')
        if len(set(hp)) != len(hp) or any(not IDENT.match(n) or n in RESERVED or n in names for n in hp):
            raise Unsupported(f'{where(h, path)}: helper {h.name}: parameter names {hp}')
        if h.name in bound_otherwise:
            raise Unsupported(f'{where(h, path)}: the helper name {h.name} is also bound by an import / assignment')

    L = ['(* GENERATED by tools/gen_transformers.py from Circuit/transformers.py — do not edit.',
         '   One definition g_<f> per translator function <f>, in the vocabulary of Model/CircuitPrims.v;',
         '   Theory/TransformersGen.v proves each equal to the hand-written t_<f> of Model/Circuit.v. *)',
         'From Coq Require Import List Bool NArith ZArith String.',
         'From CC Require Import Theory.Field Theory.Complex Model.Network Model.Circuit Model.CircuitPrims.',
         'Import ListNotations.',
         'Local Open Scope string_scope.',
         '',
         'Section GenTransformers.',
         'Variable R : fops.',
         'Variable leb : R -> R -> bool.',
         'Variable rnd : R -> Z.',
         'Variable ofZ : Z -> R.',
         'Notation C := (Cx R).',
         'Notation comp := (Model.Circuit.comp R).',
         'Notation "\'let*\' x \':=\' p \'in\' q" := (bind p (fun x => q)) (at level 200, x pattern, p at level 100, q at level 200).',
         'Notation vget := (Model.Circuit.vget R).',
         'Notation mkbranch := (Model.Circuit.mkbranch R).',
         'Notation branch_at := (Model.CircuitPrims.branch_at R).',
         'Notation branch_at_then := (Model.CircuitPrims.branch_at_then R).',
         'Notation py_complex := (Model.CircuitPrims.py_complex R).',
         'Notation real_to_complex := (Model.CircuitPrims.real_to_complex R).',
         'Notation complex_value_re := (Model.CircuitPrims.complex_value_re R).',
         'Notation complex_value_phi := (Model.CircuitPrims.complex_value_phi R).',
         'Notation admittance_value := (Model.CircuitPrims.admittance_value R).',
         'Notation impedance_value := (Model.CircuitPrims.impedance_value R).',
         'Notation py_abs := (Model.CircuitPrims.py_abs R leb).',
         'Notation py_gt := (Model.CircuitPrims.py_gt R leb).',
         'Notation py_ge := (Model.CircuitPrims.py_ge R leb).',
         'Notation py_lt := (Model.CircuitPrims.py_lt R leb).',
         'Notation py_le := (Model.CircuitPrims.py_le R leb).',
         'Notation elm_load := (Model.CircuitPrims.elm_load R leb).',
         'Notation value_wavetype := (Model.CircuitPrims.value_wavetype R).',
         'Notation fourier_series_of := (Model.CircuitPrims.fourier_series_of R).',
         'Notation harmonic := (Model.CircuitPrims.harmonic R).',
         'Notation single_frequency_voltage_source := (Model.CircuitPrims.single_frequency_voltage_source R).',
         'Notation single_frequency_current_source := (Model.CircuitPrims.single_frequency_current_source R).',
         'Notation resistor := (Model.Network.resistor (K:=C)).',
         'Notation conductor := (Model.Network.conductor (K:=C)).',
         'Notation impedance := (Model.Network.impedance (K:=C)).',
         'Notation admittance := (Model.Network.admittance (K:=C)).',
         'Notation voltage_source := (Model.Network.voltage_source (K:=C)).',
         'Notation current_source := (Model.Network.current_source (K:=C)).',
         'Notation short_circuit := (Model.Network.short_circuit (K:=C)).',
         'Notation open_circuit := (Model.Network.open_circuit (K:=C)).',
         '']
    calls = []
    used = set()
    for f in funcs:
        text, call = Fn(f, path, set(names), helpers=helpers, used=used).translate()
        L.append(text)
        calls.append((f.name, call))
    for h in helpers.values():
        if h.name not in used:
            raise Unsupported(f'{where(h, path)}: function {h.name} is neither in the transformers table nor called by a '
                              f'translator of the subset: no meaning can be given to it')
    if helpers:
        L.append('(* helper functions inlined at their call sites (no definition of their own): '
                 + ', '.join(f'{h.name}({ast.unparse(h.args)}) line {h.lineno}' for h in helpers.values()) + ' *)')
    L.append('(* the functions of the module by name, as called by transformers[type](component, w, w_resolution) *)')
    L.append('Definition g_functions : list (label * translator R) := [')
    L.append(';\n'.join(f'  ({S(n)}, fun c w wres => {call}) (* {n} *)' for n, call in calls))
    L.append('].')
    L.append('')
    L.append('End GenTransformers.')
    return {'Transformers.v': '\n'.join(L) + '\n'}
