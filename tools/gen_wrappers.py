"""Translator module: the circuit-level wrappers Circuit/impedance.py and Circuit/state_space_model.py (and the dataclass
StateSpaceModel of SignalProcessing/state_space_model.py that the second one constructs) -> coq/Gen/WrappersGen.v.

The generated definitions COMPOSE the regenerated definitions of Gen/CircuitGen.v (tools/gen_circuit.py: record `Circuit`,
`g_transform_circuit`) and of Gen/MatrixGen.v (tools/gen_matrix.py: `py_node_analysis.*`, `py_state_space.*`) over the
primitives of Model/CircuitGenPrims.v, Model/MatrixPrims.v and Model/WrappersPrims.v.  Theory/WrappersGenThm.v proves each
of them equal to the hand-written circuit-level model Model/CircuitWrappers.v (statements: Properties/C06e.v, C10d.v).
Fail-closed: everything outside the subset enumerated here raises v2lib.Unsupported naming file:line and the construct.
The translator reads the ast; no function body is compared with a reference text.

=== module level (both files) ===
  a docstring
  import numpy as NAME                                                   (NAME is then "numpy"; conventionally np)
  from .circuit import Circuit | transform_circuit
  from ..Network.NodalAnalysis import node_analysis [as NAME]
  from ..Network.NodalAnalysis.state_space_model import nodal_state_space_model
  from ..SignalProcessing.state_space_model import StateSpaceModel
  from ..Network.network import Network          from typing import Callable
      every imported name may carry an `as` alias; what a name MEANS is what its import says, never its spelling; an import
      outside this table is refused, a name bound twice at module level (import / def) is refused
  def f(..): ..       undecorated, not async; each is translated to `g_f` (callees first).  Required: open_circuit_impedance,
                      element_impedance, open_circuit_dc_resistance, element_dc_resistance (impedance.py), state_space_model
                      (state_space_model.py).  Recursion is refused.
                      EXPANSION.  A function other than the required ones that has no translation of its own under the rules
                      below (a parameter without a usable annotation: a bare function, `list`, `int`; a str parameter used as
                      the key of float(c.value[key]); ..) gets no definition g_f: every call f(args) is EXPANDED in place.  The
                      arguments are evaluated first, in Python's order (positional, then keywords; no defaults, * or **), then
                      the body is translated as statements of the caller with the parameters bound to the argument values
                      (annotations are not used); `return E` must be its last statement, and the value of the call is E.  The
                      locals of an expansion get Coq names of their own (x'<k>, k the number of the expansion), so nothing of
                      the caller is captured.  Arguments that exist at translation time only (STATIC values):
                        lambda X, ..: E            may only be CALLED in the helper: F(a, ..) is E with X, .. standing for the
                                                   values of a, .. (computed at the call, in order) and the other names read in
                                                   the scope where the lambda was written (which cannot change in between)
                        S.c_row_voltage | ..       a bound row method of a NodalStateSpaceModel S (a name): F(x) is S.c_row_voltage(x)
                        [(A, B, ..), ..]           a list display of tuples of values (static or not): may only be iterated by
                                                   `for X, Y, .. in NAME: <body>`, which is UNROLLED: one copy of the body per
                                                   tuple, in order, X, Y, .. standing for its components
                        'text'                     a str constant keeps its text: float(c.value[NAME]) is float(c.value['text'])
                      A function that is neither translated on its own nor expanded anywhere is refused.  A helper may not
                      return a static value; recursion through expansions is refused.
=== parameters ===     NAME: T [= default]   (no *args, **kw, keyword-only, positional-only; annotation required)
  T = Circuit -> Circuit (record of Gen/CircuitGen.v) | Network -> network C | str -> label | float -> R | list[str] -> list label
    | np.ndarray -> list R (a 1-D array of floats) | Callable[[T1, .., Tn], complex] -> T1 -> .. -> Tn -> res (option C)
      (`complex` as the RESULT of a Callable is a number returned by the port functions of node_analysis.py: Model/Port.v)
  default: a pure expression of the subset of that type ([] | np.array([0]) | ..): emitted as `g_f__default_NAME`; a
           parameter is never mutated, so the shared default object of Python is the same value at every call
  the return annotation is not used (the result type is that of the returned expression)
=== statements ===     (a local may not take the name of a module-level name, a parameter may not be reassigned in a loop)
  return E                                   last statement of the function (and nowhere else)
  NAME = E                                   E not a bare name (no aliasing); NAME = [] creates a fresh list
  NAME.append(E)                             NAME a fresh list of this function                     -> py_append
  for NAME in E: <body>                      E a list / 1-D array; the body consists of `X = E'` / `X.append(E')` for exactly
                                             ONE local X bound before the loop (plus locals of its own); neither NAME nor
                                             the body's own locals are usable after the loop
                                             -> for_res E (fun X NAME => ..) X   (fold_left when the body cannot raise)
  a docstring
=== expressions ===    (sub-expressions that can raise are sequenced with `bind` in Python's evaluation order: operands left
                       to right, positional arguments then keyword arguments in the order written, then the call)
  NAME                                       a parameter or local
  0 | 1                                      an int used as a float: f0 R | f1 R
  'text'                                     a str: its label
  [E, ..] | []                               a list display (of numbers, strings, arrays: no nested list / dict)
  [E for X in L] | [E for X in L if T]       T cannot raise; -> map / map_res over (filter T) L
  {K: V for X in L [if T]}                   -> dict_of_items of the (K, V) pairs (K before V)
  A == B | A != B                            on str                                                -> label_eqb
  lambda X, ..: E                            only as the argument for a Callable parameter
  F(args)                                    F a Callable parameter
  f(args)                                    f a function of this module; keywords / omitted defaulted parameters as in Python
  transform_circuit(circuit, w[, w_resolution])     -> g_transform_circuit (Gen/CircuitGen.v); the omitted w_resolution is the
                                             section variable dflt_transform_w_resolution, as in Gen/CircuitGen.v
  <node_analysis>.open_circuit_impedance(network, node1, node2) | <node_analysis>.element_impedance(network, element)
                                             -> py_node_analysis.* of Gen/MatrixGen.v, mapper = its generated default
  nodal_state_space_model(network, c_values, l_values)       -> py_state_space.nodal_state_space_model, mappers = generated
                                             defaults; a dict[str, float] argument is embedded by dict_real_to_complex
      (the parameter lists of these four callees are READ from circuit.py / node_analysis.py / NodalAnalysis/state_space_model.py
       and must be the ones the generated Coq definitions have; keyword arguments are matched against them)
  StateSpaceModel(A=, B=, C=, D=)            -> g_StateSpaceModel_new, generated here from the dataclass (see below)
  S.c_row_for_potential(x) | c_row_voltage | c_row_current | d_row_for_potential | d_row_voltage | d_row_current
                                             S a NodalStateSpaceModel -> py_state_space.NodalStateSpaceModel_* (Gen/MatrixGen.v)
  S.A | S.B | S.C | S.D                      S a NodalStateSpaceModel: the inherited dataclass fields -> m_A ..
  S.n_states | ..                            a property of StateSpaceModel whose body is `return self.F.shape[i]`, inlined
  circuit.components                         -> Circuit_components         c.type -> ctype c        c.id -> cid c
  float(c.value['K'])                        c a component -> vget c "K"  (KeyError)
  E[i]                                       E a list, i a literal int >= 0 -> list_at E i (IndexError)
  Z.real                                     Z a number returned by a port function -> py_real
  np.array(E)                                E a list of numbers -> np_array1
  np.ndarray(shape=(0, E))                   -> np_ndarray_0 E
  np.vstack([A, B])                          -> np_vstack A B
=== class StateSpaceModel (SignalProcessing/state_space_model.py) ===
  @dataclass(frozen=True) class StateSpaceModel: with fields `F: np.ndarray` (2-D arrays), a __post_init__(self) whose
  statements are `if self.F.shape[i] != self.G.shape[j]: raise ValueError(..)`, and properties `return self.F.shape[i]`
  -> Record StateSpaceModel, g_StateSpaceModel_post_init (ValueError = Err EValue, checks in order), g_StateSpaceModel_new.
  NodalStateSpaceModel (NodalAnalysis/state_space_model.py) must derive from it and define none of its members again.
"""
import ast
import os
import re

from v2lib import Unsupported, parse, where

IMPEDANCE = ('Circuit', 'impedance.py')
SSM = ('Circuit', 'state_space_model.py')
CIRCUIT = ('Circuit', 'circuit.py')
NODE_ANALYSIS = ('Network', 'NodalAnalysis', 'node_analysis.py')
NODAL_SSM = ('Network', 'NodalAnalysis', 'state_space_model.py')
SP_SSM = ('SignalProcessing', 'state_space_model.py')

REQUIRED = {IMPEDANCE: ('open_circuit_impedance', 'element_impedance', 'open_circuit_dc_resistance', 'element_dc_resistance'),
            SSM: ('state_space_model',)}

# (module, level, name) -> meaning, for the files of package CircuitCalculator.Circuit
FROM_IMPORTS = {
    ('circuit', 1, 'Circuit'): 'class:Circuit',
    ('circuit', 1, 'transform_circuit'): 'fn:transform_circuit',
    ('Network.NodalAnalysis', 2, 'node_analysis'): 'mod:node_analysis',
    ('Network.NodalAnalysis.state_space_model', 2, 'nodal_state_space_model'): 'fn:nodal_state_space_model',
    ('SignalProcessing.state_space_model', 2, 'StateSpaceModel'): 'class:StateSpaceModel',
    ('Network.network', 2, 'Network'): 'class:Network',
    ('typing', 0, 'Callable'): 'typing:Callable',
}
PLAIN_IMPORTS = {'numpy': 'mod:numpy'}

# the callees outside the two files: source file, def name, the parameter list the generated Coq definition has (name, defaulted),
# parameter types, result type, Coq head, how an omitted defaulted parameter is written
EXTERNAL = {
    'fn:transform_circuit': dict(
        file=CIRCUIT, name='transform_circuit', params=[('circuit', False), ('w', False), ('w_resolution', True)],
        types=['circuit', 'R', 'R'], ret='network', head='g_transform_circuit',
        default=lambda p: 'dflt_transform_w_resolution'),
    'na:open_circuit_impedance': dict(
        file=NODE_ANALYSIS, name='open_circuit_impedance',
        params=[('network', False), ('node1', False), ('node2', False), ('node_index_mapper', True)],
        types=['network', 'label', 'label', 'mapper'], ret='znum', head='py_node_analysis.open_circuit_impedance C',
        default=lambda p: f'(py_node_analysis.open_circuit_impedance__default_{p} C)'),
    'na:element_impedance': dict(
        file=NODE_ANALYSIS, name='element_impedance',
        params=[('network', False), ('element', False), ('node_index_mapper', True)],
        types=['network', 'label', 'mapper'], ret='znum', head='py_node_analysis.element_impedance C',
        default=lambda p: f'(py_node_analysis.element_impedance__default_{p} C)'),
    'fn:nodal_state_space_model': dict(
        file=NODAL_SSM, name='nodal_state_space_model',
        params=[('network', False), ('c_values', True), ('l_values', True), ('node_index_mapper', True),
                ('voltage_source_index_mapper', True), ('current_source_index_mapper', True)],
        types=['network', 'cdict', 'cdict', 'mapper', 'mapper', 'mapper'], ret='nssm',
        head='py_state_space.nodal_state_space_model C',
        default=lambda p: f'(py_state_space.nodal_state_space_model__default_{p} C)'),
}
ROW_METHODS = ('c_row_for_potential', 'c_row_voltage', 'c_row_current', 'd_row_for_potential', 'd_row_voltage', 'd_row_current')
BUILTINS_USED = ('str', 'float', 'list', 'complex')

IDENT = re.compile(r'^[A-Za-z_][A-Za-z0-9_]*$')


def U(node, path, msg):
    text = ''
    try:
        text = ': ' + ast.unparse(node)[:120].replace('\n', ' ')
    except Exception:  # noqa: BLE001
        pass
    return Unsupported(f'{where(node, path)}: {msg}{text}')


# ------------------------------------------------------------------ types
def coq_ty(t):
    """Coq type of a translator type, or None when it is left to Coq's inference"""
    if isinstance(t, tuple):
        if t[0] == 'list':
            e = coq_ty(t[1])
            return None if e is None else f'list ({e})'
        if t[0] == 'dict':
            e = coq_ty(t[1])
            return None if e is None else f'list (label * {e})'
        if t[0] == 'pair':
            a, b = coq_ty(t[1]), coq_ty(t[2])
            return None if a is None or b is None else f'({a} * {b})'
        if t[0] == 'fun':
            parts = [coq_ty(x) for x in t[1]] + [coq_ty(t[2])]
            if any(p is None for p in parts):
                return None
            return ' -> '.join(f'({p})' for p in parts[:-1]) + f' -> res ({parts[-1]})'
    return {'circuit': 'Circuit', 'label': 'label', 'R': 'R', 'nat': 'nat', 'bool': 'bool', 'network': 'network C',
            'znum': 'option C', 'ropt': 'option R', 'nssm': 'nssm C', 'arr': 'arr2 C', 'comp': 'comp',
            'sp': 'StateSpaceModel C'}.get(t)


def unify(a, b):
    """the common type of a and b (None = not yet known), or raise ValueError"""
    if a is None:
        return b
    if b is None:
        return a
    if a == b:
        return a
    if isinstance(a, tuple) and isinstance(b, tuple) and a[0] == b[0] and len(a) == len(b) and a[0] in ('list', 'dict'):
        return (a[0], unify(a[1], b[1]))
    raise ValueError((a, b))


def is_list(t):
    return isinstance(t, tuple) and t[0] == 'list'


def atomic(term):
    return bool(re.match(r"^[A-Za-z_][A-Za-z0-9_']*$", term))


def par(term):
    return term if atomic(term) or (term.startswith('(') and term.endswith(')') and balanced(term[1:-1])) or \
        (term.startswith('[') and term.endswith(']')) else f'({term})'


def balanced(s):
    d = 0
    for ch in s:
        if ch == '(':
            d += 1
        elif ch == ')':
            d -= 1
            if d < 0:
                return False
    return d == 0


class ConstLabel(str):
    """the term of a str constant handed to an expanded helper; .const is the Python string"""


def label_lit(s):
    if s and all(32 <= ord(c) < 127 and c != '"' for c in s):
        return f'(lbl "{s}")'
    return '[' + '; '.join(f'{ord(c)}%N' for c in s) + ']'


def render(items, final):
    """items: ('bind' | 'let', variable, term) in program order; final: a term of type res _"""
    s = final
    for kind, v, e in reversed(items):
        if kind == 'bind':
            s = f'bind ({e}) (fun {v} =>\n{s})'
        else:
            s = f'let {v} := {e} in\n{s}'
    return s


def has_bind(items):
    return any(k == 'bind' for k, _, _ in items)


def finish(items, term):
    """the res-valued term of a block whose value is `term` (a pure term over the block's variables)"""
    if items and items[-1][0] == 'bind' and items[-1][1] == term:
        return render(items[:-1], items[-1][2])          # bind X (fun t => Ok t) is X
    return render(items, f'Ok {par(term)}')


def indent(text, n):
    pad = ' ' * n
    return '\n'.join(pad + line if line else line for line in text.split('\n'))


# ------------------------------------------------------------------ the class StateSpaceModel
class SPClass:
    """what the translation needs of `StateSpaceModel`: fields (in order), properties, the text of record and constructor"""

    def __init__(self, src):
        path = os.path.join(src, *SP_SSM)
        rel = '/'.join(SP_SSM)
        tree = parse(path)
        dataclass_ok = False
        np_name = None
        cls = None
        for st in tree.body:
            if isinstance(st, ast.Import):
                for a in st.names:
                    if a.name == 'numpy':
                        np_name = a.asname or a.name
            elif isinstance(st, ast.ImportFrom):
                if st.module == 'dataclasses' and st.level == 0:
                    for a in st.names:
                        if a.name == 'dataclass' and a.asname is None:
                            dataclass_ok = True
            elif isinstance(st, ast.ClassDef) and st.name == 'StateSpaceModel':
                if cls is not None:
                    raise U(st, path, 'class StateSpaceModel defined twice')
                cls = st
            elif isinstance(st, (ast.FunctionDef, ast.Assign, ast.AnnAssign)) and \
                    'StateSpaceModel' in [n.id for n in ast.walk(st) if isinstance(n, ast.Name) and isinstance(n.ctx, ast.Store)] + \
                    ([st.name] if isinstance(st, ast.FunctionDef) else []):
                raise U(st, path, 'StateSpaceModel is rebound')
        if cls is None:
            raise Unsupported(f'{path}: class StateSpaceModel not found')
        if not dataclass_ok or np_name is None:
            raise Unsupported(f'{path}: `from dataclasses import dataclass` / `import numpy` not found')
        if cls.bases or cls.keywords:
            raise U(cls, path, 'StateSpaceModel has base classes')
        dec = [ast.unparse(d) for d in cls.decorator_list]
        if dec != ['dataclass(frozen=True)']:
            raise U(cls, path, f'StateSpaceModel is not decorated by exactly @dataclass(frozen=True) ({dec})')
        self.path, self.rel, self.line = path, rel, cls.lineno
        self.fields, self.props, self.checks = [], {}, None
        members = set()
        body = list(cls.body)
        if body and isinstance(body[0], ast.Expr) and isinstance(body[0].value, ast.Constant) and isinstance(body[0].value.value, str):
            body = body[1:]
        for st in body:
            if isinstance(st, ast.AnnAssign) and isinstance(st.target, ast.Name) and st.value is None and st.simple:
                if ast.unparse(st.annotation) != f'{np_name}.ndarray':
                    raise U(st, path, 'field that is not annotated np.ndarray')
                name = st.target.id
                if self.checks is not None or self.props:
                    raise U(st, path, 'field declared after a method')
            elif isinstance(st, ast.FunctionDef):
                name = st.name
                a = st.args
                if a.vararg or a.kwarg or a.kwonlyargs or a.posonlyargs or a.defaults or len(a.args) != 1:
                    raise U(st, path, f'{name}: parameter list is not (self)')
                selfn = a.args[0].arg
                fbody = list(st.body)
                if fbody and isinstance(fbody[0], ast.Expr) and isinstance(fbody[0].value, ast.Constant) and isinstance(fbody[0].value.value, str):
                    fbody = fbody[1:]
                if name == '__post_init__':
                    if st.decorator_list:
                        raise U(st, path, '__post_init__ is decorated')
                    self.checks = [self.check(x, selfn) for x in fbody]
                    self.post_line = st.lineno
                else:
                    if [ast.unparse(d) for d in st.decorator_list] != ['property']:
                        raise U(st, path, f'member {name} is not a plain @property')
                    if not (len(fbody) == 1 and isinstance(fbody[0], ast.Return) and fbody[0].value is not None):
                        raise U(st, path, f'property {name}: body is not `return self.F.shape[i]`')
                    self.props[name] = self.shape(fbody[0].value, selfn)
            else:
                raise U(st, path, 'class member outside the subset')
            if name in members or not IDENT.match(name):
                raise U(st, path, f'member {name} defined twice / not an identifier')
            members.add(name)
            if isinstance(st, ast.AnnAssign):
                self.fields.append(name)
        if not self.fields:
            raise Unsupported(f'{path}: StateSpaceModel has no field')
        if self.checks is None:
            self.checks, self.post_line = [], cls.lineno
        self.members = members

    def shape(self, n, selfn):
        """self.F.shape[i] -> (F, i)"""
        if isinstance(n, ast.Subscript) and isinstance(n.slice, ast.Constant) and type(n.slice.value) is int and n.slice.value in (0, 1) \
                and isinstance(n.value, ast.Attribute) and n.value.attr == 'shape' and isinstance(n.value.value, ast.Attribute) \
                and isinstance(n.value.value.value, ast.Name) and n.value.value.value.id == selfn \
                and n.value.value.attr in self.fields:
            return (n.value.value.attr, n.slice.value)
        raise U(n, self.path, 'expression that is not self.F.shape[0|1] for a field F')

    def check(self, st, selfn):
        if isinstance(st, ast.If) and not st.orelse and isinstance(st.test, ast.Compare) and len(st.test.ops) == 1 \
                and isinstance(st.test.ops[0], ast.NotEq) and len(st.body) == 1 and isinstance(st.body[0], ast.Raise) \
                and st.body[0].cause is None:
            exc = st.body[0].exc
            if isinstance(exc, ast.Call):
                if exc.keywords or not all(isinstance(a, ast.Constant) and isinstance(a.value, str) for a in exc.args):
                    raise U(st, self.path, 'raise with arguments other than message strings')
                exc = exc.func
            if not (isinstance(exc, ast.Name) and exc.id == 'ValueError'):
                raise U(st, self.path, 'raise of something else than ValueError')
            return (self.shape(st.test.left, selfn), self.shape(st.test.comparators[0], selfn), st.lineno)
        raise U(st, self.path, '__post_init__ statement that is not `if self.F.shape[i] != self.G.shape[j]: raise ValueError(..)`')

    @staticmethod
    def shape_term(fi, obj, prefix):
        f, i = fi
        return f'np_shape{i} ({prefix}{f} {obj})'

    def text(self):
        fs = self.fields
        rec = '; '.join(f'StateSpaceModel_{f} : arr2 K' for f in fs)
        out = [f'(* class StateSpaceModel   ({self.rel}:{self.line}) *)',
               f'Record StateSpaceModel (K : fops) := {{ {rec} }}.']
        out += [f'Arguments StateSpaceModel_{f} {{K}}.' for f in fs] + ['Arguments Build_StateSpaceModel {K}.']
        lines = [f'(* StateSpaceModel.__post_init__(self)   ({self.rel}:{self.post_line}) *)',
                 "Definition g_StateSpaceModel_post_init (K : fops) (self' : StateSpaceModel K) : res unit :="]
        for a, b, _ in self.checks:
            me = "self'"
            lines.append(f"  if negb (Nat.eqb ({self.shape_term(a, me, 'StateSpaceModel_')}) "
                         f"({self.shape_term(b, me, 'StateSpaceModel_')})) then Err EValue else")
        lines.append('  Ok tt.')
        out += lines
        params = ' '.join(f"({f}' : arr2 K)" for f in fs)
        val = '; '.join(f"StateSpaceModel_{f} := {f}'" for f in fs)
        out += ['(* the generated __init__ of the dataclass: the fields, then __post_init__ *)',
                f'Definition g_StateSpaceModel_new (K : fops) {params} : res (StateSpaceModel K) :=',
                f"  let self' := {{| {val} |}} in",
                "  bind (g_StateSpaceModel_post_init K self') (fun _ => Ok self')."]
        return '\n'.join(out)


def check_nodal_class(src, sp):
    """NodalStateSpaceModel derives from StateSpaceModel, defines none of its members again, and has the row methods"""
    path = os.path.join(src, *NODAL_SSM)
    tree = parse(path)
    sp_alias = None
    for st in tree.body:
        if isinstance(st, ast.ImportFrom) and st.level == 3 and st.module == 'SignalProcessing':
            for a in st.names:
                if a.name == 'state_space_model':
                    sp_alias = a.asname or a.name
    found = [st for st in tree.body if isinstance(st, ast.ClassDef) and st.name == 'NodalStateSpaceModel']
    if len(found) != 1:
        raise Unsupported(f'{path}: class NodalStateSpaceModel not found exactly once')
    cls = found[0]
    if sp_alias is None or [ast.unparse(b) for b in cls.bases] != [f'{sp_alias}.StateSpaceModel']:
        raise U(cls, path, 'NodalStateSpaceModel does not derive from (exactly) SignalProcessing.state_space_model.StateSpaceModel')
    methods = set()
    for st in cls.body:
        names = []
        if isinstance(st, ast.FunctionDef):
            names = [st.name]
            if not st.decorator_list:
                methods.add(st.name)
        elif isinstance(st, ast.AnnAssign) and isinstance(st.target, ast.Name):
            names = [st.target.id]
        elif isinstance(st, ast.Assign):
            names = [n.id for t in st.targets for n in ast.walk(t) if isinstance(n, ast.Name)]
        for n in names:
            if n in sp.members:
                raise U(st, path, f'NodalStateSpaceModel defines the member {n} of StateSpaceModel again')
    return methods


def check_signature(src, spec):
    """the def of an external callee has the parameter list that the generated Coq definition was made from"""
    path = os.path.join(src, *spec['file'])
    tree = parse(path)
    defs = [st for st in tree.body if isinstance(st, ast.FunctionDef) and st.name == spec['name']]
    if len(defs) != 1:
        raise Unsupported(f'{path}: def {spec["name"]} not found exactly once')
    f = defs[0]
    a = f.args
    if a.vararg or a.kwarg or a.kwonlyargs or a.posonlyargs:
        raise U(f, path, f'{spec["name"]}: parameter kinds outside the subset')
    nd = len(a.defaults)
    got = [(x.arg, i >= len(a.args) - nd) for i, x in enumerate(a.args)]
    if got != spec['params']:
        raise U(f, path, f'{spec["name"]}: parameters are {got}, the generated Coq definition is called with {spec["params"]}')


# ------------------------------------------------------------------ one source file
class FnInfo:
    def __init__(self, name, params, ret, text):
        self.name, self.params, self.ret, self.text = name, params, ret, text     # params: [(py name, type, has default)]


class Module:
    def __init__(self, src, relparts, sp, nodal_methods, taken):
        self.src, self.path, self.rel = src, os.path.join(src, *relparts), '/'.join(relparts)
        self.sp, self.nodal_methods, self.taken = sp, nodal_methods, taken
        self.names = {}            # module-level name -> meaning
        self.defs = {}             # name -> FunctionDef
        self.done = {}             # name -> FnInfo
        self.active = []
        self.out = []
        self.checked = set()
        self.required = REQUIRED.get(relparts, ())
        self.inline_only = {}      # name -> the Unsupported raised by the standalone translation
        self.inlined = set()
        tree = parse(self.path)
        body = list(tree.body)
        if body and isinstance(body[0], ast.Expr) and isinstance(body[0].value, ast.Constant) and isinstance(body[0].value.value, str):
            body = body[1:]
        for st in body:
            if isinstance(st, ast.Import):
                for a in st.names:
                    if a.name not in PLAIN_IMPORTS:
                        raise U(st, self.path, f'import of {a.name} is outside the subset')
                    self.bind_name(a.asname or a.name, PLAIN_IMPORTS[a.name], st)
            elif isinstance(st, ast.ImportFrom):
                for a in st.names:
                    key = (st.module, st.level, a.name)
                    if key not in FROM_IMPORTS:
                        raise U(st, self.path, f'import of {a.name} from {"." * st.level}{st.module} is outside the subset')
                    self.bind_name(a.asname or a.name, FROM_IMPORTS[key], st)
            elif isinstance(st, ast.FunctionDef):
                if st.decorator_list:
                    raise U(st, self.path, f'decorated function {st.name}')
                self.bind_name(st.name, 'def', st)
                self.defs[st.name] = st
            else:
                raise U(st, self.path, f'module-level statement {type(st).__name__}')
        for b in BUILTINS_USED:
            if b in self.names:
                raise Unsupported(f'{self.path}: the builtin {b} is rebound at module level')

    def bind_name(self, name, meaning, node):
        if name in self.names:
            raise U(node, self.path, f'module-level name {name} is bound twice')
        if not IDENT.match(name):
            raise U(node, self.path, f'name {name} is not an ASCII identifier')
        self.names[name] = meaning

    def translate_all(self):
        for name in self.defs:
            self.standalone(name, None)
        for name, err in self.inline_only.items():
            if name not in self.inlined:
                raise err              # a function that is neither translatable on its own nor expanded anywhere
        return self.out

    def standalone(self, name, node):
        """the FnInfo of g_<name>, or None when the function has no standalone translation (it is then expanded at its call
        sites, FnCompiler.inline_call); the required functions must have one"""
        if name in self.inline_only:
            return None
        n_out, n_active = len(self.out), len(self.active)
        try:
            return self.function(name, node)
        except Unsupported as e:
            if name in self.required or name in self.active[:n_active]:
                raise
            del self.active[n_active:]
            self.inline_only[name] = e
            return None

    def external(self, key, node):
        spec = EXTERNAL[key]
        if key not in self.checked:
            check_signature(self.src, spec)
            self.checked.add(key)
        return spec

    # ---------------- functions
    def function(self, name, node):
        if name in self.done:
            return self.done[name]
        if name in self.active:
            raise U(node or self.defs[name], self.path, f'recursive call of {name}')
        fd = self.defs[name]
        if f'g_{name}' in self.taken:
            raise U(fd, self.path, f'function name {name} is used by both files')
        self.active.append(name)
        fc = FnCompiler(self, fd)
        info = fc.compile()
        self.active.pop()
        self.done[name] = info
        self.taken.add(f'g_{name}')
        self.out.append(info.text)
        return info

    # ---------------- annotations
    def ann_type(self, a, node, result_of_callable=False):
        if a is None:
            raise U(node, self.path, 'parameter without annotation')
        if isinstance(a, ast.Name):
            m = self.names.get(a.id)
            if m == 'class:Circuit':
                return 'circuit'
            if m == 'class:Network':
                return 'network'
            if m is None and a.id == 'str':
                return 'label'
            if m is None and a.id == 'float':
                return 'R'
            if m is None and a.id == 'complex' and result_of_callable:
                return 'znum'
        if isinstance(a, ast.Attribute) and isinstance(a.value, ast.Name) and self.names.get(a.value.id) == 'mod:numpy' \
                and a.attr == 'ndarray' and not result_of_callable:
            return ('list', 'R')
        if isinstance(a, ast.Subscript) and isinstance(a.value, ast.Name) and not result_of_callable:
            if a.value.id == 'list' and 'list' not in self.names and isinstance(a.slice, ast.Name) and a.slice.id == 'str' \
                    and 'str' not in self.names:
                return ('list', 'label')
            if self.names.get(a.value.id) == 'typing:Callable' and isinstance(a.slice, ast.Tuple) and len(a.slice.elts) == 2 \
                    and isinstance(a.slice.elts[0], ast.List) and a.slice.elts[0].elts:
                args = [self.ann_type(x, node) for x in a.slice.elts[0].elts]
                if any(isinstance(t, tuple) and t[0] == 'fun' for t in args):
                    raise U(a, self.path, 'higher-order Callable')
                return ('fun', args, self.ann_type(a.slice.elts[1], node, result_of_callable=True))
        raise U(a, self.path, 'annotation outside the subset')


class FnCompiler:
    def __init__(self, mod, fd):
        self.m, self.fd, self.path = mod, fd, mod.path
        self.counter = 0
        self.fresh_lists = set()
        self.scopes = 0            # number of expansions (inlined helpers, applied lambdas) so far
        self.suffix = ''           # distinguishes the Coq names of the locals of an expansion: x'<k>

    def U(self, node, msg):
        return U(node, self.path, f'{self.fd.name}: {msg}')

    def temp(self):
        self.counter += 1
        return f't{self.counter}'

    def local_name(self, name, node, env):
        if not IDENT.match(name):
            raise self.U(node, f'name {name} is not an ASCII identifier')
        if name in self.m.names:
            raise self.U(node, f'local {name} rebinds a module-level name')
        return name + "'" + self.suffix

    # ---------------- the function
    def compile(self):
        fd, m = self.fd, self.m
        if isinstance(fd, ast.AsyncFunctionDef):
            raise self.U(fd, 'async function')
        a = fd.args
        if a.vararg or a.kwarg or a.kwonlyargs or a.posonlyargs:
            raise self.U(fd, 'parameter kinds outside the subset (*args, **kw, keyword-only, positional-only)')
        nd = len(a.defaults)
        env, params, pre, binders = {}, [], [], []
        for i, x in enumerate(a.args):
            ty = m.ann_type(x.annotation, x)
            if x.arg in env:
                raise self.U(x, f'duplicate parameter {x.arg}')
            cname = self.local_name(x.arg, x, env)
            has_default = i >= len(a.args) - nd
            if has_default:
                dnode = a.defaults[i - (len(a.args) - nd)]
                items = []
                term, dty = self.ex(dnode, {}, items)
                if items:
                    raise self.U(dnode, 'default value that can raise / is not a plain expression')
                try:
                    unify(dty, ty)
                except ValueError:
                    raise self.U(dnode, f'default value of type {dty} for a parameter of type {ty}') from None
                cty = coq_ty(ty)
                pre.append(f'Definition g_{fd.name}__default_{x.arg} : {cty} := {term}.')
            cty = coq_ty(ty)
            if cty is None:
                raise self.U(x, 'parameter type outside the subset')
            binders.append(f'({cname} : {cty})')
            env[x.arg] = (cname, ty)
            params.append((x.arg, ty, has_default))
        self.params = {p for p, _, _ in params}
        body = list(fd.body)
        if body and isinstance(body[0], ast.Expr) and isinstance(body[0].value, ast.Constant) and isinstance(body[0].value.value, str):
            body = body[1:]
        if not body or not isinstance(body[-1], ast.Return) or body[-1].value is None:
            raise self.U(fd, 'the last statement is not `return E`')
        items = []
        for st in body[:-1]:
            self.stmt(st, env, items, in_loop=False)
        term, rty = self.ex(body[-1].value, env, items)
        text = finish(items, term)
        rc = coq_ty(rty)
        sig = ast.unparse(fd.args)
        head = f'(* {fd.name}({sig})   ({m.rel}:{fd.lineno}) *)\n' + '\n'.join(pre + [''])
        head = head if pre else f'(* {fd.name}({sig})   ({m.rel}:{fd.lineno}) *)\n'
        decl = f'Definition g_{fd.name} {" ".join(binders)} : res ({rc if rc else "_"}) :=\n{indent(text, 2)}.'
        return FnInfo(fd.name, params, rty, head + decl)

    # ---------------- statements
    def stmt(self, st, env, items, in_loop):
        if isinstance(st, ast.Return):
            raise self.U(st, 'return that is not the last statement of the function')
        if isinstance(st, ast.Assign):
            if len(st.targets) != 1 or not isinstance(st.targets[0], ast.Name):
                raise self.U(st, 'assignment target outside the subset')
            name = st.targets[0].id
            if isinstance(st.value, ast.Name):
                raise self.U(st, 'assignment of a bare name (aliasing)')
            if name in self.params and in_loop:
                raise self.U(st, 'a parameter is reassigned in a loop')
            term, ty = self.ex(st.value, env, items)
            cname = self.local_name(name, st, env)
            items.append(('let', cname, term))
            env[name] = (cname, ty)
            if isinstance(st.value, ast.List) and not st.value.elts:
                self.fresh_lists.add(name)
            else:
                self.fresh_lists.discard(name)
            return
        if isinstance(st, ast.Expr):
            v = st.value
            if isinstance(v, ast.Constant) and isinstance(v.value, str):
                return
            if isinstance(v, ast.Call) and isinstance(v.func, ast.Attribute) and v.func.attr == 'append' \
                    and isinstance(v.func.value, ast.Name) and len(v.args) == 1 and not v.keywords \
                    and not isinstance(v.args[0], ast.Starred):
                name = v.func.value.id
                if name not in env or name not in self.fresh_lists or not is_list(env[name][1]):
                    raise self.U(st, f'.append on {name}, which is not a list created by [] in this function')
                term, ty = self.ex(v.args[0], env, items)
                try:
                    lty = unify(env[name][1], ('list', ty))
                except ValueError:
                    raise self.U(st, f'.append of a {ty} to a {env[name][1]}') from None
                cname = env[name][0]
                items.append(('let', cname, f'py_append {cname} {par(term)}'))
                env[name] = (cname, lty)
                return
            raise self.U(st, 'expression statement outside the subset')
        if isinstance(st, ast.For):
            return self.for_loop(st, env, items, in_loop)
        raise self.U(st, f'statement {type(st).__name__} outside the subset')

    def assigned(self, stmts):
        out = []
        for st in stmts:
            if isinstance(st, ast.Assign) and len(st.targets) == 1 and isinstance(st.targets[0], ast.Name):
                out.append(st.targets[0].id)
            elif isinstance(st, ast.Expr) and isinstance(st.value, ast.Call) and isinstance(st.value.func, ast.Attribute) \
                    and st.value.func.attr == 'append' and isinstance(st.value.func.value, ast.Name):
                out.append(st.value.func.value.id)
            elif isinstance(st, ast.Expr) and isinstance(st.value, ast.Constant):
                pass
            else:
                raise self.U(st, f'statement {type(st).__name__} in a loop body is outside the subset')
        return out

    def for_loop(self, st, env, items, in_loop):
        if st.orelse or isinstance(st, ast.AsyncFor):
            raise self.U(st, 'for ... else / async for')
        if isinstance(st.iter, ast.Name) and st.iter.id in env and isinstance(env[st.iter.id][1], tuple) \
                and env[st.iter.id][1][:2] == ('static', 'list'):
            return self.unrolled_loop(st, env, items, in_loop)
        if not isinstance(st.target, ast.Name):
            raise self.U(st, 'loop target that is not a name')
        v = st.target.id
        if v in env:
            raise self.U(st, f'loop variable {v} rebinds a local / parameter')
        it, ity = self.ex(st.iter, env, items)
        if not is_list(ity) or ity[1] is None:
            raise self.U(st.iter, f'iteration over a {ity}')
        names = self.assigned(st.body)
        carried = sorted({n for n in names if n in env})
        if len(carried) != 1:
            raise self.U(st, f'the loop body must update exactly one local bound before the loop (it updates {carried})')
        acc = carried[0]
        if acc in self.params:
            raise self.U(st, f'the loop updates the parameter {acc}')
        if v in names:
            raise self.U(st, 'the loop body assigns the loop variable')
        cacc, ty0 = env[acc]
        cv = self.local_name(v, st, env)
        inner = dict(env)
        inner[v] = (cv, ity[1])
        saved_fresh = set(self.fresh_lists)
        sub = []
        for s in st.body:
            self.stmt(s, inner, sub, in_loop=True)
        cacc1, ty1 = inner[acc]
        try:
            ty = unify(ty0, ty1)
        except ValueError:
            raise self.U(st, f'{acc} changes its type in the loop ({ty0} -> {ty1})') from None
        self.fresh_lists = {n for n in saved_fresh if n in env}
        if acc in saved_fresh and acc in self.fresh_lists and is_list(ty):
            pass
        if has_bind(sub):
            body = render(sub, f'Ok {cacc1}')
            items.append(('bind', cacc, f'for_res {par(it)} (fun {cacc} {cv} =>\n{indent(body, 2)}) {cacc}'))
        else:
            body = '\n'.join(f'let {x} := {e} in' for _, x, e in sub) + f'\n{cacc1}'
            items.append(('let', cacc, f'fold_left (fun {cacc} {cv} =>\n{indent(body.strip(), 2)}) {par(it)} {cacc}'))
        env[acc] = (cacc, ty)

    def unrolled_loop(self, st, env, items, in_loop):
        """for A, B, .. in ROWS: <body>   with ROWS a static list of tuples (a parameter of an expanded helper): one copy of the
        body per tuple, in order, with the targets bound to its components; the targets are not usable after the loop"""
        rows = env[st.iter.id][1][2]
        tg = st.target
        if not (isinstance(tg, ast.Tuple) and all(isinstance(x, ast.Name) for x in tg.elts)
                and len({x.id for x in tg.elts}) == len(tg.elts)):
            raise self.U(st, 'loop over a list of tuples whose target is not a tuple of distinct names')
        names = [x.id for x in tg.elts]
        for v in names:
            if v in env or v in self.m.names:
                raise self.U(st, f'loop variable {v} rebinds a local / parameter / module-level name')
        assigned = {x.id for s_ in st.body for x in ast.walk(s_) if isinstance(x, ast.Name) and isinstance(x.ctx, ast.Store)}
        if assigned & set(names) or st.iter.id in assigned:
            raise self.U(st, 'the loop body assigns a loop variable / the list it runs over')
        for row in rows:
            comps = row[1][2]
            if len(comps) != len(names):
                raise self.U(st, 'tuple of the wrong length for the loop targets')
            for v, c in zip(names, comps):
                env[v] = c
            before = set(env)
            for s_ in st.body:
                self.stmt(s_, env, items, in_loop)
            for k in set(env) - before:            # locals of the body are not usable after it
                del env[k]
        for v in names:
            env.pop(v, None)

    # ---------------- expressions
    def bound(self, e, ty, items):
        t = self.temp()
        items.append(('bind', t, e))
        return t, ty

    def ex(self, n, env, items):
        if isinstance(n, ast.Name):
            if n.id in env:
                return env[n.id]
            raise self.U(n, f'name {n.id} is not a parameter / local in scope')
        if isinstance(n, ast.Constant):
            if type(n.value) is int and n.value in (0, 1):
                return (f'(f{n.value} R)', 'R')
            if isinstance(n.value, str):
                return (label_lit(n.value), 'label')
            raise self.U(n, 'constant outside the subset (0, 1, str)')
        if isinstance(n, ast.List):
            if any(isinstance(x, ast.Starred) for x in n.elts):
                raise self.U(n, 'starred list element')
            ty, terms = None, []
            for x in n.elts:
                t, xt = self.ex(x, env, items)
                if is_list(xt) or (isinstance(xt, tuple) and xt[0] in ('dict', 'fun')):
                    raise self.U(n, 'list display with a list / dict / function element (no aliasing of mutable objects)')
                try:
                    ty = unify(ty, xt)
                except ValueError:
                    raise self.U(n, 'list display with elements of different types') from None
                terms.append(t)
            return ('[' + '; '.join(terms) + ']', ('list', ty))
        if isinstance(n, ast.Attribute):
            return self.attribute(n, env, items)
        if isinstance(n, ast.Subscript):
            v, vt = self.ex(n.value, env, items)
            if is_list(vt) and vt[1] is not None and isinstance(n.slice, ast.Constant) and type(n.slice.value) is int \
                    and n.slice.value >= 0:
                return self.bound(f'list_at {par(v)} {n.slice.value}%nat', vt[1], items)
            raise self.U(n, 'subscript outside the subset (a list with a literal index >= 0)')
        if isinstance(n, ast.Compare):
            if len(n.ops) != 1 or not isinstance(n.ops[0], (ast.Eq, ast.NotEq)):
                raise self.U(n, 'comparison outside the subset (one == or !=)')
            a, at = self.ex(n.left, env, items)
            b, bt = self.ex(n.comparators[0], env, items)
            if at != 'label' or bt != 'label':
                raise self.U(n, f'== on {at} and {bt}')
            t = f'label_eqb {par(a)} {par(b)}'
            return (f'({t})' if isinstance(n.ops[0], ast.Eq) else f'(negb ({t}))', 'bool')
        if isinstance(n, ast.ListComp):
            srcl, var, vty, cv = self.generator(n, env, items)
            inner = dict(env)
            inner[var] = (cv, vty)
            sub = []
            t, ty = self.ex(n.elt, inner, sub)
            if t == cv and not sub:
                return (srcl, ('list', vty))
            if sub:
                return self.bound(f'map_res (fun {cv} => {finish(sub, t)}) {par(srcl)}', ('list', ty), items)
            return (f'(map (fun {cv} => {t}) {par(srcl)})', ('list', ty))
        if isinstance(n, ast.DictComp):
            srcl, var, vty, cv = self.generator(n, env, items)
            inner = dict(env)
            inner[var] = (cv, vty)
            sub = []
            k, kt = self.ex(n.key, inner, sub)
            v, vt = self.ex(n.value, inner, sub)
            if kt != 'label':
                raise self.U(n.key, f'dictionary key of type {kt}')
            if sub:
                t, _ = self.bound(f'map_res (fun {cv} => {finish(sub, f"({k}, {v})")}) {par(srcl)}', None, items)
                return (f'(dict_of_items {t})', ('dict', vt))
            return (f'(dict_of_items (map (fun {cv} => ({k}, {v})) {par(srcl)}))', ('dict', vt))
        if isinstance(n, ast.Call):
            return self.call(n, env, items)
        if isinstance(n, ast.Lambda):
            raise self.U(n, 'lambda that is not the argument for a Callable parameter')
        raise self.U(n, f'expression {type(n).__name__} outside the subset')

    def generator(self, n, env, items):
        if len(n.generators) != 1:
            raise self.U(n, 'comprehension with several for clauses')
        g = n.generators[0]
        if g.is_async or not isinstance(g.target, ast.Name) or len(g.ifs) > 1:
            raise self.U(n, 'comprehension outside the subset (one name target, at most one if)')
        src, sty = self.ex(g.iter, env, items)
        if not is_list(sty) or sty[1] is None:
            raise self.U(g.iter, f'comprehension over a {sty}')
        var = g.target.id
        cv = self.local_name(var, g.target, env)
        if g.ifs:
            inner = dict(env)
            inner[var] = (cv, sty[1])
            sub = []
            c, ct = self.ex(g.ifs[0], inner, sub)
            if sub or ct != 'bool':
                raise self.U(g.ifs[0], 'comprehension condition that can raise / is not a boolean')
            src = f'(filter (fun {cv} => {c}) {par(src)})'
        return src, var, sty[1], cv

    def attribute(self, n, env, items):
        v, vt = self.ex(n.value, env, items)
        a = n.attr
        if vt == 'circuit' and a == 'components':
            return (f'(Circuit_components {par(v)})', ('list', 'comp'))
        if vt == 'comp' and a == 'type':
            return (f'(ctype {par(v)})', 'label')
        if vt == 'comp' and a == 'id':
            return (f'(cid {par(v)})', 'label')
        if vt == 'nssm' and a in self.m.sp.fields:
            return (f'(m_{a} {par(v)})', 'arr')
        if vt == 'nssm' and a in self.m.sp.props:
            f, i = self.m.sp.props[a]
            return (f'(np_shape{i} (m_{f} {par(v)}))', 'nat')
        if vt == 'znum' and a == 'real':
            return (f'(py_real R {par(v)})', 'ropt')
        raise self.U(n, f'attribute .{a} of a {vt} is outside the subset')

    # ---------------- calls
    def match_args(self, call, params, what):
        """params: [(name, has default)] -> ({name: node}, evaluation order of the names)"""
        if any(isinstance(x, ast.Starred) for x in call.args) or any(k.arg is None for k in call.keywords):
            raise self.U(call, f'{what}: * / ** argument')
        names = [p for p, _ in params]
        slots, order = {}, []
        if len(call.args) > len(names):
            raise self.U(call, f'{what}: too many positional arguments')
        for p, x in zip(names, call.args):
            slots[p] = x
            order.append(p)
        for k in call.keywords:
            if k.arg not in names or k.arg in slots:
                raise self.U(call, f'{what}: keyword {k.arg} unknown or given twice')
            slots[k.arg] = k.value
            order.append(k.arg)
        for p, d in params:
            if p not in slots and not d:
                raise self.U(call, f'{what}: argument {p} missing')
        return slots, order

    def coerce(self, term, ty, want, node):
        if want == 'cdict':
            if ty == ('dict', 'R'):
                return f'(dict_real_to_complex R {par(term)})'
            raise self.U(node, f'argument of type {ty} where a dict[str, float] is expected')
        if want == 'mapper':
            raise self.U(node, 'an explicit index mapper argument is outside the subset')
        try:
            unify(ty, want)
        except ValueError:
            raise self.U(node, f'argument of type {ty} where {want} is expected') from None
        return term

    def call(self, n, env, items):
        f = n.func
        m = self.m
        if isinstance(f, ast.Name):
            if f.id in env:
                ft = env[f.id][1]
                if isinstance(ft, tuple) and ft[0] == 'static':
                    return self.static_call(ft, n, env, items)
                if not (isinstance(ft, tuple) and ft[0] == 'fun'):
                    raise self.U(n, f'call of {f.id}, which is a {ft}')
                if n.keywords or len(n.args) != len(ft[1]) or any(isinstance(x, ast.Starred) for x in n.args):
                    raise self.U(n, 'call of a Callable parameter with keywords / a wrong number of arguments')
                args = []
                for x, want in zip(n.args, ft[1]):
                    t, ty = self.ex(x, env, items)
                    args.append(par(self.coerce(t, ty, want, x)))
                return self.bound(f'{env[f.id][0]} ' + ' '.join(args), ft[2], items)
            meaning = m.names.get(f.id)
            if meaning is None and f.id == 'float':
                return self.float_call(n, env, items)
            if meaning == 'def':
                info = m.standalone(f.id, n)
                if info is None:
                    return self.inline_call(f.id, n, env, items)
                params = [(p, d) for p, _, d in info.params]
                slots, order = self.match_args(n, params, f.id)
                vals = self.eval_args(slots, order, {p: t for p, t, _ in info.params}, env, items)
                args = [vals.get(p, f'g_{f.id}__default_{p}') for p, _ in params]
                return self.bound(f'g_{f.id} ' + ' '.join(par(a) for a in args), info.ret, items)
            if meaning in ('fn:transform_circuit', 'fn:nodal_state_space_model'):
                return self.external_call(meaning, n, env, items)
            if meaning == 'class:StateSpaceModel':
                sp = m.sp
                params = [(fld, False) for fld in sp.fields]
                slots, order = self.match_args(n, params, 'StateSpaceModel')
                vals = self.eval_args(slots, order, {fld: 'arr' for fld in sp.fields}, env, items)
                return self.bound('g_StateSpaceModel_new C ' + ' '.join(par(vals[fld]) for fld in sp.fields), 'sp', items)
            raise self.U(n, f'call of {f.id} is outside the subset')
        if isinstance(f, ast.Attribute):
            if isinstance(f.value, ast.Name) and f.value.id not in env:
                meaning = m.names.get(f.value.id)
                if meaning == 'mod:numpy':
                    return self.numpy_call(f.attr, n, env, items)
                if meaning == 'mod:node_analysis' and f'na:{f.attr}' in EXTERNAL:
                    return self.external_call(f'na:{f.attr}', n, env, items)
                raise self.U(n, f'call of {f.value.id}.{f.attr} is outside the subset')
            v, vt = self.ex(f.value, env, items)
            if vt == 'nssm' and f.attr in ROW_METHODS:
                if f.attr not in m.nodal_methods:
                    raise self.U(n, f'NodalStateSpaceModel has no plain method {f.attr}')
                if n.keywords or len(n.args) != 1 or isinstance(n.args[0], ast.Starred):
                    raise self.U(n, f'{f.attr}: not called with exactly one positional argument')
                a, at = self.ex(n.args[0], env, items)
                if at != 'label':
                    raise self.U(n, f'{f.attr}: argument of type {at}')
                return self.bound(f'py_state_space.NodalStateSpaceModel_{f.attr} C {par(v)} {par(a)}', 'arrlike', items)
            raise self.U(n, f'method .{f.attr} of a {vt} is outside the subset')
        raise self.U(n, 'call outside the subset')

    # ---------------- expansion of helpers that have no standalone translation
    def new_scope(self):
        self.scopes += 1
        return str(self.scopes)

    def arg_value(self, node, env, items):
        """the value of an argument of an expanded helper: an ordinary (term, type), or a STATIC value ('<static>', ('static',
        kind, ..)) that exists at translation time only: a lambda (with the environment it closes over), a bound row method of
        a NodalStateSpaceModel, a list display of tuples of such values"""
        m = self.m
        if isinstance(node, ast.Lambda):
            a = node.args
            if a.vararg or a.kwarg or a.kwonlyargs or a.posonlyargs or a.defaults or len({x.arg for x in a.args}) != len(a.args):
                raise self.U(node, 'lambda parameter list outside the subset')
            return ('<static>', ('static', 'lambda', node, dict(env)))
        if isinstance(node, ast.Attribute) and node.attr in ROW_METHODS and isinstance(node.value, ast.Name) and node.value.id in env \
                and env[node.value.id][1] == 'nssm':
            if node.attr not in m.nodal_methods:
                raise self.U(node, f'NodalStateSpaceModel has no plain method {node.attr}')
            return ('<static>', ('static', 'method', env[node.value.id][0], node.attr))
        if isinstance(node, ast.List) and node.elts and all(isinstance(x, ast.Tuple) for x in node.elts):
            rows = []
            for tp in node.elts:
                if any(isinstance(x, ast.Starred) for x in tp.elts):
                    raise self.U(node, 'starred tuple element')
                rows.append(('<static>', ('static', 'tuple', [self.arg_value(x, env, items) for x in tp.elts])))
            return ('<static>', ('static', 'list', rows))
        if isinstance(node, ast.Constant) and isinstance(node.value, str):
            t = ConstLabel(label_lit(node.value))
            t.const = node.value
            return (t, 'label')
        return self.ex(node, env, items)

    def inline_call(self, name, n, env, items):
        """f(args) for a function f of this module that has no standalone translation: the arguments are evaluated in Python's
        order (static values: see arg_value), then the body is translated in place with the parameters bound to them; the
        locals of the expansion get Coq names of their own"""
        m = self.m
        fd = m.defs[name]
        if name in m.active:
            raise self.U(n, f'recursive call of {name}')
        a = fd.args
        if a.vararg or a.kwarg or a.kwonlyargs or a.posonlyargs or a.defaults or a.kw_defaults:
            raise self.U(fd, f'{name} (expanded at its call sites): parameter kinds / defaults outside the subset')
        if len({x.arg for x in a.args}) != len(a.args):
            raise self.U(fd, f'{name}: duplicate parameter')
        slots, order = self.match_args(n, [(x.arg, False) for x in a.args], name)
        inner = {}
        for p in order:
            inner[p] = self.arg_value(slots[p], env, items)
        for p in inner:
            if p in m.names:
                raise self.U(fd, f'{name}: parameter {p} rebinds a module-level name')
        body = list(fd.body)
        if body and isinstance(body[0], ast.Expr) and isinstance(body[0].value, ast.Constant) and isinstance(body[0].value.value, str):
            body = body[1:]
        if not body or not isinstance(body[-1], ast.Return) or body[-1].value is None:
            raise self.U(fd, f'{name}: the last statement is not `return E`')
        saved = (self.params, self.fresh_lists, self.suffix)
        self.params, self.fresh_lists, self.suffix = set(inner), set(), self.new_scope()
        m.active.append(name)
        try:
            for st in body[:-1]:
                self.stmt(st, inner, items, in_loop=False)
            term, ty = self.ex(body[-1].value, inner, items)
        finally:
            m.active.pop()
            self.params, self.fresh_lists, self.suffix = saved
        if isinstance(ty, tuple) and ty[0] == 'static':
            raise self.U(n, f'{name} returns a function / a list of tuples')
        m.inlined.add(name)
        return term, ty

    def static_call(self, ft, n, env, items):
        """F(args) where F stands for a lambda or a bound row method handed to an expanded helper"""
        if n.keywords or any(isinstance(x, ast.Starred) for x in n.args):
            raise self.U(n, 'call of a function-valued parameter with keywords / starred arguments')
        if ft[1] == 'method':
            if len(n.args) != 1:
                raise self.U(n, f'{ft[3]}: not called with exactly one positional argument')
            a, at = self.ex(n.args[0], env, items)
            if at != 'label':
                raise self.U(n, f'{ft[3]}: argument of type {at}')
            return self.bound(f'py_state_space.NodalStateSpaceModel_{ft[3]} C {par(ft[2])} {par(a)}', 'arrlike', items)
        if ft[1] == 'lambda':
            lam, closure = ft[2], ft[3]
            if len(n.args) != len(lam.args.args):
                raise self.U(n, 'call of a lambda with a wrong number of arguments')
            inner = dict(closure)
            for x, node in zip(lam.args.args, n.args):
                if x.arg in self.m.names:
                    raise self.U(lam, f'lambda parameter {x.arg} rebinds a module-level name')
                inner[x.arg] = self.ex(node, env, items)           # the value computed at the call, under no new binder
            saved = self.suffix
            self.suffix = self.new_scope()
            try:
                return self.ex(lam.body, inner, items)
            finally:
                self.suffix = saved
        raise self.U(n, 'call of a value that is not a function')

    def eval_args(self, slots, order, types, env, items):
        vals = {}
        for p in order:
            node = slots[p]
            want = types[p]
            if isinstance(want, tuple) and want[0] == 'fun':
                vals[p] = self.fun_value(node, want, env)
                continue
            t, ty = self.ex(node, env, items)
            vals[p] = self.coerce(t, ty, want, node)
        return vals

    def fun_value(self, node, want, env):
        if isinstance(node, ast.Name) and node.id in env and env[node.id][1] == want:
            return env[node.id][0]
        if not isinstance(node, ast.Lambda):
            raise self.U(node, 'argument for a Callable parameter that is neither a lambda nor a Callable parameter of the same type')
        a = node.args
        if a.vararg or a.kwarg or a.kwonlyargs or a.posonlyargs or a.defaults or len(a.args) != len(want[1]):
            raise self.U(node, 'lambda parameter list does not fit the Callable annotation')
        inner = dict(env)
        binders = []
        for x, ty in zip(a.args, want[1]):
            cn = self.local_name(x.arg, node, env)
            inner[x.arg] = (cn, ty)
            binders.append(f'({cn} : {coq_ty(ty)})')
        if len({x.arg for x in a.args}) != len(a.args):
            raise self.U(node, 'duplicate lambda parameter')
        sub = []
        t, ty = self.ex(node.body, inner, sub)
        if ty != want[2]:
            raise self.U(node, f'lambda returns a {ty} where the Callable annotation says {want[2]}')
        return f'(fun {" ".join(binders)} => {finish(sub, t)})'

    def external_call(self, key, n, env, items):
        spec = self.m.external(key, n)
        slots, order = self.match_args(n, spec['params'], spec['name'])
        types = {p: t for (p, _), t in zip(spec['params'], spec['types'])}
        vals = self.eval_args(slots, order, types, env, items)
        args = [vals[p] if p in vals else spec['default'](p) for p, _ in spec['params']]
        return self.bound(f'{spec["head"]} ' + ' '.join(par(a) for a in args), spec['ret'], items)

    def float_call(self, n, env, items):
        if not n.keywords and len(n.args) == 1:
            s = n.args[0]
            key = None
            if isinstance(s, ast.Subscript) and isinstance(s.slice, ast.Constant) and isinstance(s.slice.value, str):
                key = s.slice.value
            elif isinstance(s, ast.Subscript) and isinstance(s.slice, ast.Name) and s.slice.id in env \
                    and isinstance(env[s.slice.id][0], ConstLabel):
                key = env[s.slice.id][0].const        # a parameter of an expanded helper that stands for a str constant
            if key is not None and re.match(r'^[A-Za-z0-9_]+$', key) and isinstance(s.value, ast.Attribute) and s.value.attr == 'value':
                c, ct = self.ex(s.value.value, env, items)
                if ct == 'comp':
                    return self.bound(f'vget {par(c)} "{key}"', 'R', items)
        raise self.U(n, "float(..) that is not float(<component>.value['<key>'])")

    def numpy_call(self, fn, n, env, items):
        if fn == 'array':
            if n.keywords or len(n.args) != 1 or isinstance(n.args[0], ast.Starred):
                raise self.U(n, 'np.array with keywords / not exactly one argument')
            t, ty = self.ex(n.args[0], env, items)
            if not is_list(ty) or ty[1] not in ('R', 'znum', None):
                raise self.U(n, f'np.array of a {ty}')
            return (f'(np_array1 {par(t)})', ty)
        if fn == 'ndarray':
            shape = None
            if not n.args and len(n.keywords) == 1 and n.keywords[0].arg == 'shape':
                shape = n.keywords[0].value
            elif not n.keywords and len(n.args) == 1:
                shape = n.args[0]
            if isinstance(shape, ast.Tuple) and len(shape.elts) == 2 and isinstance(shape.elts[0], ast.Constant) \
                    and type(shape.elts[0].value) is int and shape.elts[0].value == 0:
                t, ty = self.ex(shape.elts[1], env, items)
                if ty == 'nat':
                    return (f'(@np_ndarray_0 C {par(t)})', 'arr')
            raise self.U(n, 'np.ndarray(..) that is not np.ndarray(shape=(0, <a shape entry>))')
        if fn == 'vstack':
            if not n.keywords and len(n.args) == 1 and isinstance(n.args[0], ast.List) and len(n.args[0].elts) == 2 \
                    and not any(isinstance(x, ast.Starred) for x in n.args[0].elts):
                a, at = self.ex(n.args[0].elts[0], env, items)
                b, bt = self.ex(n.args[0].elts[1], env, items)
                if at in ('arr', 'arrlike') and bt in ('arr', 'arrlike'):
                    return (f'(np_vstack (K:=C) {par(a)} {par(b)})', 'arr')
            raise self.U(n, 'np.vstack(..) that is not np.vstack([<array>, <array>])')
        raise self.U(n, f'numpy function {fn} is outside the subset')


# ------------------------------------------------------------------ the output
HEADER = '''(* GENERATED by tools/gen_wrappers.py from Circuit/impedance.py, Circuit/state_space_model.py and the dataclass StateSpaceModel
   of SignalProcessing/state_space_model.py — do not edit.
   One definition g_<function> per Python function, composing the regenerated definitions of Gen/CircuitGen.v and Gen/MatrixGen.v
   over the primitives of Model/CircuitGenPrims.v, Model/MatrixPrims.v and Model/WrappersPrims.v.  Python local x is x';
   t1, t2, ... are the values of sub-expressions that can raise, bound in evaluation order.
   Theory/WrappersGenThm.v proves each definition equal to the hand-written model Model/CircuitWrappers.v
   (statements: Properties/C06e.v, Properties/C10d.v). *)
From Coq Require Import List Bool NArith ZArith Arith String.
From CC Require Import Theory.Field Theory.Complex Model.Network Model.NetworkPrims Model.StateSpace Model.Port Model.Circuit
  Model.CircuitPrims Model.CircuitGenPrims Model.MatrixPrims Model.WrappersPrims Gen.NetworkGen Gen.CircuitGen Gen.MatrixGen.
Import ListNotations.
Local Open Scope string_scope.
Local Open Scope list_scope.
Local Open Scope bool_scope.

'''

SECTION = '''
Section GenWrappers.
Variable R : fops.
Variable leb : R -> R -> bool.
Variable rnd : R -> Z.
Variable ofZ : Z -> R.
Variable dflt_transform_w_resolution : R.        (* the value of the default of transform_circuit's parameter w_resolution (Gen/CircuitGen.v) *)
Notation C := (Cx R).
Notation comp := (Model.Circuit.comp R).
Notation Circuit := (Gen.CircuitGen.Circuit R).
Notation Circuit_components := (Gen.CircuitGen.Circuit_components R).
Notation g_transform_circuit := (Gen.CircuitGen.g_transform_circuit R leb rnd ofZ).
Notation vget := (Model.Circuit.vget R).
Notation ctype := (Model.CircuitGenPrims.ctype R).
Notation list_at := Model.CircuitGenPrims.list_at.
Notation map_res := Model.MatrixPrims.map_res.
Notation for_res := Model.MatrixPrims.for_res.

'''


def generate(src):
    sp = SPClass(src)
    nodal_methods = check_nodal_class(src, sp)
    taken = set()
    parts, helpers = [], []
    for rel in (IMPEDANCE, SSM):
        mod = Module(src, rel, sp, nodal_methods, taken)
        out = mod.translate_all()
        for need in REQUIRED[rel]:
            if need not in mod.done:
                raise Unsupported(f'{mod.path}: function {need} not found')
        helpers += [f'g_{name}' for name in mod.done if name not in REQUIRED[rel]]
        parts.append(f'(* ================= {"/".join(rel)} ================= *)\n' + '\n\n'.join(out))
    tail = ('\n(* the functions of the two files beyond the required ones (helpers): the proofs look through them, whatever their\n'
            '   names (`autounfold with gen_wrappers_helpers`) *)\nCreate HintDb gen_wrappers_helpers.\n')
    if helpers:
        tail += '#[global] Hint Unfold ' + ' '.join(helpers) + ' : gen_wrappers_helpers.\n'
    text = HEADER + sp.text() + '\n' + SECTION + '\n\n'.join(parts) + '\n\nEnd GenWrappers.\n' + tail
    return {'WrappersGen.v': text}
