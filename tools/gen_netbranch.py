"""Translator module: SimpleCircuit/NetworkBranchTranslators.py (the table `network_translator_map` that
DiagramTranslator.network_translator uses, and the functions it binds) -> coq/Gen/NetBranchGen.v, in the vocabulary of
coq/Model/DrawingPrims.v (translator_fn, sval, attr_value, nth_res, table rows) and coq/Model/NetBranch.v (gbranch, mk_gbranch).
Sibling of section C of tools/gen_drawing.py (CircuitComponentTranslators.py); the class table, the attribute provenance
(`self._V = V if not reverse else -V`, or the same selection spelled `-V if reverse else V`) and the MODEL_CLASSES / UNMODELLED lists are those of gen_drawing.Elements.
Fail-closed: every construct outside the subset enumerated below raises Unsupported naming file:line and construct.

Accepted module (top level, nothing else)
   * an optional module docstring;
   * the imports, all before the first definition, binding EXACTLY
        ntw     = from ..Network import network as ntw
        ntw_elm = from ..Network import elements as ntw_elm
        elm     = from . import Elements as elm
        ElementTranslatorMap = from .SchemdrawTranslatorTypes import ElementTranslatorMap
   * `def f(<element>[: elm.<Class of Elements.py>], <nodes>[: tuple[str, str] | tuple[str, ...]]) [-> ntw.Branch]:`
        [docstring]
        return ntw.Branch(<nodes>[i], <nodes>[j], ntw_elm.g(K=<value>, ..., name=<element>.name))
     exactly three positional arguments to ntw.Branch (Network/network.py must define the dataclass Branch with the fields
     node1, node2, element in this order); i, j non-negative integer literals; the call of g with keywords only, `name=` being
     <element>.name.  The two parameter names are free (not a module-level name).  Annotations are not interpreted: type(element)
     is the table KEY, whatever the annotation says (mismatches are listed in a comment of the output).
        <value> ::= <element>.A  |  -v  |  v*w  |  v/w  |  int or float literal  |  v if [not] <element>.is_reverse else w
     meaning   attr_value g_net_attr_prov element "A" | SNeg | SMul | SDiv | SNum "<repr>" | if [negb] (s_reverse element) then..else
     (A any identifier except name / is_reverse / absanchors).  g_net_attr_prov lists, for every (table class, attribute read by
     the function bound to it) what Elements.py stores behind the property: PArg p / PNegIfReverse p (gen_drawing.Elements.provenance);
     a read without entry stays the opaque SAttr A.
     g is looked up in Network/elements.py (top level: imports without `*`, def, class, assignments, docstring only; no __getattr__):
        - bound once, by a `def` without *args/**kwargs/positional-only parameters: every keyword must be a parameter and every
          parameter without default must be given; emitted
              let* n1 := nth_res nodes i in let* n2 := nth_res nodes j in Ok (Some (mk_gbranch n1 n2 "g" (s_name element) [("K", v); ...]))
          (keywords other than name, in source order);
        - not bound at all: Python evaluates ntw.Branch, nodes[i], nodes[j] and then fails on the attribute lookup ntw_elm.g
          BEFORE any keyword value is evaluated; emitted
              let* n1 := nth_res nodes i in let* n2 := nth_res nodes j in Err EAttribute
          and (f, g) is listed in g_missing_network_ctors.  The keyword values must still be inside the grammar;
        - anything else (a class, an import, a name bound twice): refused.
   * `def f(*<any>) [-> None]: [docstring] return None`   ->  fun _ _ => Ok None
   * `network_translator_map [: ElementTranslatorMap] = { elm.C: <function defined above>, ... }`  exactly once: a dict literal, keys
     elm.<Class>, no duplicate key, no `**`.  C in gen_drawing.MODEL_CLASSES (the c_<Class> codes of Model/Drawing.v): a row of
     g_network_translator_map (source order) and a definition g_network_translator_of_<C> := g_<function>.  C in gen_drawing.UNMODELLED: must be bound to a `return None` function, listed in
     g_network_translator_unmodelled.  Any other class: refused.
Function names: identifiers, defined once, not one of the imported names or `network_translator_map`; no decorators, defaults,
keyword-only / positional-only parameters."""
import ast
import os

from v2lib import Unsupported, parse, where
import gen_drawing
from gen_drawing import S, cmt, dotted, IDENT, MODEL_CLASSES, UNMODELLED

NBT = 'SimpleCircuit/NetworkBranchTranslators.py'
NEL = 'Network/elements.py'
NNW = 'Network/network.py'
TABLE = 'network_translator_map'
IMPORTS = {'ntw': ('from', 2, 'Network', 'network'), 'ntw_elm': ('from', 2, 'Network', 'elements'),
           'elm': ('from', 1, None, 'Elements'),
           'ElementTranslatorMap': ('from', 1, 'SchemdrawTranslatorTypes', 'ElementTranslatorMap')}
RESERVED = set(IMPORTS) | {TABLE}


def is_docstring(st):
    return isinstance(st, ast.Expr) and isinstance(st.value, ast.Constant) and isinstance(st.value.value, str)


class NetworkElements:
    """the module-level names of Network/elements.py: constructor signatures, or absence"""

    def __init__(self, src):
        self.path = os.path.join(src, *NEL.split('/'))
        tree = parse(self.path)
        self.bound = {}
        for st in tree.body:
            names = []
            if isinstance(st, (ast.FunctionDef, ast.ClassDef)):
                names = [st.name]
            elif isinstance(st, ast.Import):
                names = [(a.asname or a.name).split('.')[0] for a in st.names]
            elif isinstance(st, ast.ImportFrom):
                if any(a.name == '*' for a in st.names):
                    raise Unsupported(f'{where(st, self.path)}: star import (the set of module attributes is not static)')
                names = [a.asname or a.name for a in st.names]
            elif isinstance(st, ast.Assign):
                for t in st.targets:
                    if not isinstance(t, ast.Name):
                        raise Unsupported(f'{where(st, self.path)}: top-level assignment target {ast.unparse(t)}')
                    names.append(t.id)
            elif isinstance(st, ast.AnnAssign) and isinstance(st.target, ast.Name):
                names = [st.target.id] if st.value is not None else []
            elif not is_docstring(st):
                raise Unsupported(f'{where(st, self.path)}: top-level statement {ast.unparse(st).splitlines()[0]}')
            for n in names:
                self.bound.setdefault(n, []).append(st)
        if '__getattr__' in self.bound:
            raise Unsupported(f'{self.path}: module-level __getattr__ (the set of module attributes is not static)')

    def lookup(self, g, node, path):
        """None when ntw_elm.g does not exist; (params, required) when it is a plain function"""
        sts = self.bound.get(g, [])
        if not sts:
            return None
        if len(sts) != 1 or not isinstance(sts[0], ast.FunctionDef):
            raise Unsupported(f'{where(node, path)}: ntw_elm.{g} is not bound exactly once by a def in {NEL}')
        f = sts[0]
        a = f.args
        if a.vararg or a.kwarg or a.posonlyargs or f.decorator_list:
            raise Unsupported(f'{where(f, self.path)}: {g}: star / positional-only parameters or decorators')
        ps = [x.arg for x in a.args] + [x.arg for x in a.kwonlyargs]
        nd = len(a.defaults)
        req = [x.arg for x in a.args[:len(a.args) - nd]] + [x.arg for x, d in zip(a.kwonlyargs, a.kw_defaults) if d is None]
        return ps, req


def check_branch_class(src):
    """ntw.Branch(a, b, e): a dataclass whose fields are node1, node2, element in this order and that defines no __init__/__new__"""
    path = os.path.join(src, *NNW.split('/'))
    tree = parse(path)
    found = [st for st in tree.body if isinstance(st, ast.ClassDef) and st.name == 'Branch']
    others = [st for st in ast.walk(tree) if isinstance(st, ast.Name) and st.id == 'Branch' and isinstance(st.ctx, (ast.Store, ast.Del))]
    if len(found) != 1 or others:
        raise Unsupported(f'{path}: Branch is not bound exactly once by a class statement')
    c = found[0]
    decs = [dotted(d.func) if isinstance(d, ast.Call) else dotted(d) for d in c.decorator_list]
    if decs not in (['dataclass'], ['dataclasses.dataclass']):
        raise Unsupported(f'{where(c, path)}: Branch is not a plain @dataclass: decorators {decs}')
    for d in c.decorator_list:
        if isinstance(d, ast.Call) and any(k.arg in ('init', 'kw_only') or k.arg is None for k in d.keywords):
            raise Unsupported(f'{where(c, path)}: dataclass option {ast.unparse(d)}')
    if c.bases or c.keywords:
        raise Unsupported(f'{where(c, path)}: Branch has bases / keywords')
    fields = []
    for s in c.body:
        if isinstance(s, ast.AnnAssign) and isinstance(s.target, ast.Name):
            fields.append(s.target.id)
        elif isinstance(s, ast.FunctionDef) and s.name in ('__init__', '__new__', '__post_init__'):
            raise Unsupported(f'{where(s, path)}: Branch defines {s.name}')
        elif isinstance(s, ast.Assign):
            raise Unsupported(f'{where(s, path)}: Branch: class-level assignment')
    if fields != ['node1', 'node2', 'element']:
        raise Unsupported(f'{where(c, path)}: Branch fields are {fields}, expected node1, node2, element')


class BranchTranslators:
    def __init__(self, src, elements):
        self.elements = elements
        self.path = os.path.join(src, *NBT.split('/'))
        self.tree = parse(self.path)
        self.netel = NetworkElements(src)
        check_branch_class(src)
        self.funcs, self.table, self.table_line = {}, None, None
        body = list(self.tree.body)
        if body and is_docstring(body[0]):
            body.pop(0)
        bound = {}
        while body and isinstance(body[0], (ast.Import, ast.ImportFrom)):
            st = body.pop(0)
            if isinstance(st, ast.Import):
                for al in st.names:
                    self.bind(bound, al.asname or al.name.split('.')[0], ('import', al.name), st)
            else:
                for al in st.names:
                    self.bind(bound, al.asname or al.name, ('from', st.level, st.module, al.name), st)
        if bound != IMPORTS:
            raise Unsupported(f'{self.path}: the imports bind {bound}, expected exactly {IMPORTS}')
        for st in body:
            if isinstance(st, ast.FunctionDef):
                if st.name in self.funcs:
                    raise self.bad(st, f'function {st.name} defined twice')
                if not IDENT.match(st.name) or st.name in RESERVED:
                    raise self.bad(st, f'function name {st.name}')
                self.funcs[st.name] = st
                continue
            tgt = None
            if isinstance(st, ast.AnnAssign) and st.value is not None and st.simple == 1:
                if not (isinstance(st.annotation, ast.Name) and st.annotation.id == 'ElementTranslatorMap'):
                    raise self.bad(st, f'annotation {ast.unparse(st.annotation)} (expected ElementTranslatorMap)')
                tgt = st.target
            elif isinstance(st, ast.Assign) and len(st.targets) == 1:
                tgt = st.targets[0]
            if isinstance(tgt, ast.Name) and tgt.id == TABLE and self.table is None:
                self.table, self.table_line = st.value, st.lineno
                continue
            raise self.bad(st, f'top-level statement {ast.unparse(st).splitlines()[0]}')
        if self.table is None:
            raise Unsupported(f'{self.path}: {TABLE} not found')
        self.reads, self.annot, self.missing, self.ctors_used = {}, {}, [], {}
        self.defs = {n: self.function(f) for n, f in self.funcs.items()}
        self.rows, self.unmodelled = self.read_table()

    def bind(self, bound, name, what, st):
        if name in bound:
            raise self.bad(st, f'the name {name} is imported twice')
        bound[name] = what

    def bad(self, node, what):
        return Unsupported(f'{where(node, self.path)}: {what}')

    # ---------------------------------------------------------------- one translator function
    def function(self, f):
        a = f.args
        if f.decorator_list:
            raise self.bad(f, f'{f.name}: decorated function')
        body = list(f.body)
        if body and is_docstring(body[0]):
            body.pop(0)
        if a.vararg and not (a.args or a.kwarg or a.kwonlyargs or a.posonlyargs):
            if a.vararg.annotation is not None:
                raise self.bad(f, f'{f.name}: annotated star parameter')
            if f.returns is not None and not (isinstance(f.returns, ast.Constant) and f.returns.value is None):
                raise self.bad(f, f'{f.name}: return annotation {ast.unparse(f.returns)} (expected None)')
            if len(body) == 1 and isinstance(body[0], ast.Return) and \
                    (body[0].value is None or (isinstance(body[0].value, ast.Constant) and body[0].value.value is None)):
                return {'text': f'(* {f.name}( *{a.vararg.arg})   ({NBT}:{f.lineno}) *)\n'
                                f'Definition g_{f.name} : translator_fn gbranch := fun _ _ => Ok None.\n', 'none': True}
            raise self.bad(f, f'{f.name}: a star-parameter function must be `return None`')
        if a.vararg or a.kwarg or a.kwonlyargs or a.posonlyargs or a.defaults or len(a.args) != 2:
            raise self.bad(f, f'{f.name}: parameters are not (element, nodes)')
        el, nd = a.args[0].arg, a.args[1].arg
        if el == nd or any(x in RESERVED or x in self.funcs for x in (el, nd)):
            raise self.bad(f, f'{f.name}: parameter names {el}, {nd}')
        # annotations: evaluated when the def statement runs, never at call time
        ea, na = a.args[0].annotation, a.args[1].annotation
        if ea is not None:
            d = dotted(ea)
            if not (d and d.startswith('elm.') and d.count('.') == 1 and d[4:] in self.elements.bound):
                raise self.bad(f, f'{f.name}: annotation of {el}: {ast.unparse(ea)} is not elm.<name bound in Elements.py>')
            self.annot[f.name] = d[4:]
        if na is not None and ast.unparse(na) not in ('tuple[str, str]', 'tuple[str, ...]'):
            raise self.bad(f, f'{f.name}: annotation of {nd}: {ast.unparse(na)}')
        if f.returns is not None and dotted(f.returns) != 'ntw.Branch':
            raise self.bad(f, f'{f.name}: return annotation {ast.unparse(f.returns)} (expected ntw.Branch)')
        if not (len(body) == 1 and isinstance(body[0], ast.Return) and body[0].value is not None):
            raise self.bad(body[0] if body else f, f'{f.name}: body is not a single `return ntw.Branch(...)`')
        t = V(self, f, el, nd)
        c = t.branch(body[0].value)
        head = (f'(* {f.name}({cmt(ast.unparse(a))})   ({NBT}:{f.lineno}) *)\n'
                f'Definition g_{f.name} : translator_fn gbranch := fun v_element v_nodes =>\n'
                f'  let* n1 := nth_res v_nodes {c["i"]} in\n  let* n2 := nth_res v_nodes {c["j"]} in\n')
        if c['missing']:
            self.missing.append((f.name, c['ctor']))
            self.reads[f.name] = []
            return {'text': head + f'  (* ntw_elm.{c["ctor"]} does not exist in {NEL}: AttributeError *)\n  Err EAttribute.\n',
                    'none': False}
        self.reads[f.name] = t.reads
        vals = '; '.join(f'({S(k)}, {v})' for k, v in c['values'])
        return {'text': head + f'  Ok (Some (mk_gbranch n1 n2 {S(c["ctor"])} {c["name"]}\n    [{vals}])).\n', 'none': False}

    # ---------------------------------------------------------------- the table
    def read_table(self):
        d = self.table
        if not isinstance(d, ast.Dict):
            raise self.bad(d, f'{TABLE} is not a dict literal')
        rows, un, seen = [], [], set()
        for k, v in zip(d.keys, d.values):
            kd = dotted(k) if k is not None else None
            if not (kd and kd.startswith('elm.') and kd.count('.') == 1):
                raise self.bad(d, f'{TABLE} key {ast.unparse(k) if k else "**"} is not elm.<Class>')
            c = kd[4:]
            if c in seen:
                raise self.bad(k, f'{TABLE}: duplicate key elm.{c}')
            seen.add(c)
            if not (isinstance(v, ast.Name) and v.id in self.funcs):
                raise self.bad(v, f'{TABLE}[elm.{c}] = {ast.unparse(v)} is not a function of this module')
            if self.funcs[v.id].lineno > self.table_line:
                raise self.bad(v, f'{v.id} is defined after the table')
            if c in MODEL_CLASSES:
                rows.append((c, v.id))
            elif c in UNMODELLED:
                if not self.defs[v.id]['none']:
                    raise self.bad(v, f'elm.{c} is outside the model and must map to a `return None` translator')
                un.append((c, v.id))
            else:
                raise self.bad(k, f'class elm.{c} is neither a class of the model nor in the UNMODELLED list')
        return rows, un


class V:
    """expression translation inside one translator function"""

    def __init__(self, owner, f, el, nd):
        self.o, self.f, self.el, self.nd = owner, f, el, nd
        self.reads = []

    def bad(self, node, what):
        return self.o.bad(node, f'{self.f.name}: {what}')

    def is_el(self, e):
        return isinstance(e, ast.Name) and e.id == self.el

    def reverse_test(self, e):
        if isinstance(e, ast.Attribute) and e.attr == 'is_reverse' and self.is_el(e.value):
            return True
        if isinstance(e, ast.UnaryOp) and isinstance(e.op, ast.Not) and self.reverse_test(e.operand) is True:
            return False
        return None

    def value(self, e):
        if isinstance(e, ast.Attribute) and self.is_el(e.value):
            if e.attr in ('is_reverse', 'name', 'absanchors') or not IDENT.match(e.attr):
                raise self.bad(e, f'value {ast.unparse(e)}')
            if e.attr not in self.reads:
                self.reads.append(e.attr)
            return f'(attr_value g_net_attr_prov v_element {S(e.attr)})'
        if isinstance(e, ast.Constant) and isinstance(e.value, (int, float)) and not isinstance(e.value, bool):
            return f'(SNum {S(repr(e.value))})'
        if isinstance(e, ast.UnaryOp) and isinstance(e.op, ast.USub):
            return f'(SNeg {self.value(e.operand)})'
        if isinstance(e, ast.BinOp) and isinstance(e.op, (ast.Mult, ast.Div)):
            return f'({"SMul" if isinstance(e.op, ast.Mult) else "SDiv"} {self.value(e.left)} {self.value(e.right)})'
        if isinstance(e, ast.IfExp):
            r = self.reverse_test(e.test)
            if r is None:
                raise self.bad(e, f'condition {ast.unparse(e.test)} (only [not] {self.el}.is_reverse)')
            a, b = self.value(e.body), self.value(e.orelse)
            return f'(if s_reverse v_element then {a} else {b})' if r else f'(if negb (s_reverse v_element) then {a} else {b})'
        raise self.bad(e, f'value expression {ast.unparse(e)}')

    def node(self, x):
        if not (isinstance(x, ast.Subscript) and isinstance(x.value, ast.Name) and x.value.id == self.nd
                and isinstance(x.slice, ast.Constant) and isinstance(x.slice.value, int)
                and not isinstance(x.slice.value, bool) and x.slice.value >= 0):
            raise self.bad(x, f'branch node {ast.unparse(x)} is not {self.nd}[<literal>]')
        return x.slice.value

    def branch(self, e):
        if not (isinstance(e, ast.Call) and dotted(e.func) == 'ntw.Branch'):
            raise self.bad(e, f'returned expression is not ntw.Branch(...): {ast.unparse(e)}')
        if e.keywords or len(e.args) != 3 or any(isinstance(x, ast.Starred) for x in e.args):
            raise self.bad(e, 'ntw.Branch takes exactly three positional arguments here')
        out = {'i': self.node(e.args[0]), 'j': self.node(e.args[1]), 'values': []}
        c = e.args[2]
        d = dotted(c.func) if isinstance(c, ast.Call) else None
        if not (d and d.startswith('ntw_elm.') and d.count('.') == 1):
            raise self.bad(c, f'third argument of ntw.Branch is not ntw_elm.<constructor>(...): {ast.unparse(c)}')
        g = d[len('ntw_elm.'):]
        out['ctor'] = g
        if c.args or any(k.arg is None for k in c.keywords):
            raise self.bad(c, f'ntw_elm.{g}: positional or ** arguments')
        kws = [k.arg for k in c.keywords]
        if len(set(kws)) != len(kws):
            raise self.bad(c, f'ntw_elm.{g}: repeated keyword')
        sig = self.o.netel.lookup(g, c, self.o.path)
        out['missing'] = sig is None
        if sig is not None:
            ps, req = sig
            if any(k not in ps for k in kws) or any(r not in kws for r in req):
                raise self.bad(c, f'ntw_elm.{g}: keywords {kws} do not fit the parameters {ps} (required {req})')
            out['sig'] = sig
        if 'name' not in kws:
            raise self.bad(c, f'ntw_elm.{g}: name= must be given')
        saved = list(self.reads)
        for k in c.keywords:
            if k.arg == 'name':
                if not (isinstance(k.value, ast.Attribute) and k.value.attr == 'name' and self.is_el(k.value.value)):
                    raise self.bad(c, f'name= is not {self.el}.name')
                out['name'] = '(s_name v_element)'
            else:
                out['values'].append((k.arg, self.value(k.value)))
        if sig is None:
            self.reads = saved       # never evaluated
        else:
            self.o.ctors_used[g] = sig
        return out


def generate(src):
    el = gen_drawing.Elements(src)
    bt = BranchTranslators(src, el)
    L = []
    w = L.append
    w(f'(* GENERATED by tools/gen_netbranch.py from {NBT} (with the facts of SimpleCircuit/Elements.py,')
    w(f'   {NEL} and {NNW} it relies on) — do not edit.  One definition g_<name> per function, in the vocabulary of')
    w('   Model/DrawingPrims.v and Model/NetBranch.v; Theory/NetBranchGenThm.v proves the table and every function equal to the')
    w('   hand-written model net_translator_of / apply_net_translator of Model/NetBranch.v. *)')
    w('From Coq Require Import String.')
    w('From Coq Require Import List Bool ZArith NArith Arith.')
    w('From CC Require Import Theory.Field Model.Network Model.Circuit Model.Drawing Model.DrawingPrims Model.NetBranch.')
    w('Import ListNotations.')
    w('Local Open Scope string_scope.')
    w('Local Open Scope nat_scope.')
    w('Local Notation "\'let*\' x \':=\' p \'in\' q" := (bind p (fun x => q)) (at level 200, x pattern, p at level 100, q at level 200).')
    w('')
    w('(* how the attributes read by the branch translators were stored by the constructor of the class they are bound to *)')
    rows = []
    for c, fn in bt.rows:
        for a in bt.reads.get(fn, []):
            p = el.provenance(c, a)
            if p is not None:
                rows.append(f'  (c_{c}, {S(a)}, {p})')
    w('Definition g_net_attr_prov : list (N * label * prov) := [' + ('\n' + ';\n'.join(rows) if rows else '') + '].')
    w(f'(* the constructors of {NEL} that are called: name, parameters (name, has a default) *)')
    crow = []
    for g, (ps, req) in bt.ctors_used.items():
        crow.append(f'  ({S(g)}, [' + '; '.join(f'({S(p)}, {"false" if p in req else "true"})' for p in ps) + '])')
    w('Definition g_network_ctors_used : list (label * list (label * bool)) := [' + ('\n' + ';\n'.join(crow) if crow else '') + '].')
    w(f'(* translators that call a constructor {NEL} does not define (translator, constructor): AttributeError when called *)')
    w('Definition g_missing_network_ctors : list (label * label) := ['
      + '; '.join(f'({S(f)}, {S(g)})' for f, g in bt.missing) + '].')
    mism = [(fn, bt.annot[fn], c) for c, fn in bt.rows
            if fn in bt.annot and (bt.annot[fn] not in el.cls or bt.annot[fn] not in el.ancestors(c))]
    if mism:
        w('(* parameter annotations that do not fit the table (no run-time meaning; type(element) is the table key): '
          + '; '.join(f'{fn}(element: elm.{a}) is bound to elm.{c}' for fn, a, c in mism) + ' *)')
    w('')
    for n in bt.funcs:
        w(bt.defs[n]['text'])
    w(f'(* {TABLE}, the classes of the model   ({NBT}:{bt.table_line}) *)')
    w('Definition g_network_translator_map : list (N * translator_fn gbranch) := ['
      + ('\n' + ';\n'.join(f'  (c_{c}, g_{fn})' for c, fn in bt.rows) if bt.rows else '') + '].')
    w('(* the function bound to each class of the model, under a name that does not depend on the Python function names *)')
    for c, fn in bt.rows:
        w(f'Definition g_network_translator_of_{c} : translator_fn gbranch := g_{fn}.')
    w('Definition g_network_translator_names : list (N * label) := ['
      + ('\n' + ';\n'.join(f'  (c_{c}, {S(fn)})' for c, fn in bt.rows) if bt.rows else '') + '].')
    w('(* entries for classes outside the model (all bound to a `return None` translator) *)')
    w('Definition g_network_translator_unmodelled : list (label * label) := ['
      + '; '.join(f'({S(c)}, {S(fn)})' for c, fn in bt.unmodelled) + '].')
    return {'NetBranchGen.v': '\n'.join(L) + '\n'}
