"""Translator module: the base layer of CircuitCalculator.Network -> coq/Gen/NetworkGen.v.

Sources: Network/elements.py, Network/network.py, Network/NodalAnalysis/label_mapping.py,
Network/NodalAnalysis/solution.py, Network/NodalAnalysis/bias_point_analysis.py, Network/transformers.py.

A small typed, compositional Python -> Gallina translation: every accepted statement/expression shape is enumerated
below; anything else raises v2lib.Unsupported with file:line and the construct (fail-closed).  The generated
definitions are written against Model/Network.v, Model/Transformers.v (data types, label primitives) and
Model/NetworkPrims.v (meaning of the Python primitives); Theory/NetworkGenThm.v proves each of them equal to the
hand-written model.

Accepted subset (see the tr_* functions):
  top level   import / from-import, dataclasses bound in RECORDS, `class X(Exception): pass|...`, the Protocol class,
              `def`s (translated, or named in SKIP), alias assignments `a = b`, type aliases `T = Callable[...]`
  statements  return E | raise Exc | if C: <terminating block> [else: <terminating block>] | x = E | a, b = E
              | x.remove(E) | nested pure `def` | `while (x := f(v)) is not None:` with a body of assignments to v
              | `try: return A / B  except ZeroDivisionError: return np.inf|np.nan`
              | s.update(ITERABLE) | `acc = []` + `for x in L:` accumulating loop            (added, see below)
  expressions names, 0 / 1 / True / False / string literals, attribute access on bound classes, calls of translated
              functions / methods / constructors, len set sorted list complex next, x[y] on Network / LabelMapping /
              vector / dict comprehension, v[:n], v[-n:], == != in `not in`, np.abs(x) > 0, np.abs(x) >= 0, and or not,
              + - * / unary -, `a if c else b`, list / set / dict comprehensions and generator-in-next with one
              `for` and at most one `if`, pairs, a.union(b), z.conjugate()
              | dict(zip(KS, VS)) | LabelMapping(dict(zip(X, range(len(X))))) | next(filter(f, L), None)
              | function values: f, lambda, calls of Callable parameters                     (added, see below)
Expressions that can raise (Network(...), network[id], mapping[k], calls of raising functions) are sequenced with
`bind` in Python evaluation order; they are refused inside comprehensions, lambdas and the non-first operands of
and / or / if-else (where hoisting would change which exception is raised).

Additions made so that behaviour-preserving refactorings of the six files stay inside the subset (every one is an
enumerated shape with a fixed Gallina meaning; everything else is still refused):
  * module-private helper `def _name(...)` at module level: translated ON DEMAND, as a definition of its own, when a
    translated definition calls it (same rules as any other function); `#[global] Hint Unfold _name : py_private.` is
    emitted after it so that the proofs about its callers can look through it without knowing its name.  A private
    helper that no translated definition reaches is not translated and is listed in a comment at the end of the output:
    it can only be used by the untranslated part (SKIP_FUNCS / SKIP_METHODS / SKIP_CLASSES); every use from translated
    code is a call, and a call translates the callee.  The public functions are still all translated by name.
  * `@staticmethod def _name(...)` inside the two solution classes: not translated (Gen.is_static_helper).  Translated
    code cannot reach it: `self._name` is refused by Gen.member (only fields, properties and methods are members) and
    `Class._name` is refused as an attribute of a global; so it can only serve __post_init__ (SKIP_METHODS).
  * annotation `Callable[[T1, ..., Tn], R]` (typing.Callable) on a parameter: the type T1 -> ... -> Tn -> R of PURE
    function values.  Values of that type: the name of a nested def or of a translated module-level function that cannot
    raise and has exactly that signature (fun_value), `lambda x1 ... xn: E` with E pure (only where such a type is
    expected, i.e. as an argument), and parameters of that type.  `f(a1, ..., an)` on such a parameter is application.
  * `next(filter(f, L), None)`, f a function value label/branch -> bool, L a list  ->  `find f L`
    (the same meaning as the accepted `next((x for x in L if f(x)), None)`).
  * `dict(zip(KS, VS))`, KS a list of strings, VS a list  ->  `combine KS VS`, an association list in insertion order read
    by `dict_item` (last entry of a key wins), exactly as `{k: v for ...}`; zip and combine both stop at the shorter list.
  * `LabelMapping(dict(zip(X, range(len(X)))))`, X ONE local list of strings named twice  ->  `enum_mapping X`: the same
    dict as the accepted `{k: v for v, k in enumerate(X)}`.
  * `s.update(ITERABLE)` as a statement, s a local set of strings bound by a set comprehension / set(...) and not read as a
    value since (private object, see Env.fresh_lists)  ->  `let s' := set_union s' (set_of_list ...)`.  ITERABLE: a
    generator expression (one `for`, at most one `if`), a list of strings, or a set.
  * `acc = []` immediately followed by `for x in L: BODY` (tr_acc_loop)  ->  `let acc' := flat_map (fun x' => ...) L`, the
    function returning the values one iteration appends, in order.  BODY: `acc.append(E)`, `v = E` for a new local of the
    iteration, `continue` at the end of a block, `if C: ... [else: ...]` (followed by further statements only when its
    first branch ends in `continue`).  All expressions pure; `acc` cannot be read in BODY; BODY cannot assign a name that
    exists outside the loop, and the loop variable / locals of BODY are unknown after the loop (a later use is refused).
  * builtins used by these shapes (filter, dict, zip, range, len, list, set) must not be shadowed (builtin_call); note that
    label_mapping.py defines its own `filter`.
Two refusals were added for aliasing that the let-translation cannot express (they do not affect the unmodified source):
  * x.remove(...) / s.update(...) are refused once the local has been read as a value after it was bound to the fresh
    object (the object may then be reachable from another name or from a constructed Network);
  * rebinding or mutating a local after a nested def that reads it was defined is refused (Env.captured): the Gallina
    closure captures the value at definition time, a Python closure sees the later value."""
import ast
import os

from v2lib import Unsupported, parse, where, coq_string_codes as S

# ------------------------------------------------------------------ types
K, OPTK, LABEL, KIND, BOOL, NAT, ELEM, BRANCH, NET, SOL, UNIT, MAPPING, SET, NONE = (
    'K', 'optK', 'label', 'kind', 'bool', 'nat', 'elem', 'branch', 'network', 'solution', 'unit', 'mapping', 'set', 'none')


def TList(t):
    return ('list', t)


def TOpt(t):
    return ('opt', t)


def TPair(a, b):
    return ('pair', a, b)


def TDict(v):
    return ('dict', v)


def TInt(n):
    return ('int', n)


def TFun(args, ret):
    """a pure function value (Callable[[args], ret]): a global / local pure function, a lambda, a parameter"""
    return ('fun', tuple(args), ret)


def is_fun(t):
    return isinstance(t, tuple) and t[0] == 'fun'


VEC = TList(K)


def coq_ty(t):
    simple = {K: 'K', OPTK: 'option K', LABEL: 'label', KIND: 'N', BOOL: 'bool', NAT: 'nat', ELEM: 'elem K',
              BRANCH: 'branch K', NET: 'network K', SOL: 'solution K', UNIT: 'unit', MAPPING: 'mapping', SET: 'pyset'}
    if isinstance(t, str):
        if t in simple:
            return simple[t]
    elif t[0] == 'list':
        return f'list ({coq_ty(t[1])})'
    elif t[0] == 'opt':
        return f'option ({coq_ty(t[1])})'
    elif t[0] == 'pair':
        return f'({coq_ty(t[1])} * {coq_ty(t[2])})'
    elif t[0] == 'dict':
        return f'list (label * {coq_ty(t[1])})'
    elif t[0] == 'fun':
        return '(' + ' -> '.join([par(coq_ty(a)) for a in t[1]] + [par(coq_ty(t[2]))]) + ')'
    raise Unsupported(f'no Coq type for {t!r}')


# ------------------------------------------------------------------ bindings to the hand-written data types
# dataclass -> Coq constructor / projections; `order` is the field order the Coq constructor expects and the source
# must declare; `ann` the Python annotation each field must carry; `ty` its type here.
RECORDS = {
    'NortenElement': dict(ctor='ZV', union=ELEM, order=['name', 'type', 'Z', 'V'],
                          ann={'name': 'str', 'type': 'str', 'Z': 'complex', 'V': 'complex'},
                          ty={'name': LABEL, 'type': KIND, 'Z': K, 'V': K}),
    'TheveninElement': dict(ctor='YI', union=ELEM, order=['name', 'type', 'Y', 'I'],
                            ann={'name': 'str', 'type': 'str', 'Y': 'complex', 'I': 'complex'},
                            ty={'name': LABEL, 'type': KIND, 'Y': K, 'I': K}),
    'Branch': dict(ctor='Build_branch', self=BRANCH, order=['node1', 'node2', 'element'],
                   ann={'node1': 'str', 'node2': 'str', 'element': 'elm.NortenTheveninElement'},
                   ty={'node1': LABEL, 'node2': LABEL, 'element': ELEM},
                   proj={'node1': 'node1', 'node2': 'node2', 'element': 'el'}),
    'Network': dict(ctor='Build_network', self=NET, order=['branches', 'node_zero_label'],
                    ann={'branches': 'list[Branch]', 'node_zero_label': 'str'},
                    ty={'branches': TList(BRANCH), 'node_zero_label': LABEL},
                    proj={'branches': 'branches', 'node_zero_label': 'zero'}),
}
PROTOCOL = 'NortenTheveninElement'
PROTOCOL_ANN = {'name': ('str', LABEL), 'type': ('str', KIND), 'Z': ('complex', None), 'Y': ('complex', None),
                'V': ('complex', None), 'I': ('complex', None)}
# the solution object: model record [solution] = (s_net, s_x); the mapper fields are resolved to their declared defaults
SOL_BASE, SOL_SUB = 'NodalAnalysisSolution', 'NodalAnalysisBiasPointSolution'
SOL_PROJ = {'network': ('s_net', NET), '_solution_vector': ('s_x', VEC)}
SOL_MAPPER_FIELDS = ('node_mapper', 'current_source_mapper', 'voltage_source_mapper')
# exception classes -> constructors of Model.Network.err
EXC = {'FloatingGroundNode': 'EFloatingGround', 'AmbiguousBranchIDs': 'EAmbiguousIDs', 'KeyError': 'EKeyError',
       'ValueError': 'EValue', 'AttributeError': 'EAttribute'}
# annotations -> types
ANN = {'str': LABEL, 'complex': K, 'float': K, 'bool': BOOL, 'int': NAT, 'Network': NET, 'Branch': BRANCH,
       'NortenTheveninElement': ELEM, 'elm.NortenTheveninElement': ELEM, 'list[str]': TList(LABEL),
       'list[Branch]': TList(BRANCH), 'list[NortenTheveninElement]': TList(ELEM), 'LabelMapping': MAPPING,
       'map.LabelMapping': MAPPING, 'Branch | None': TOpt(BRANCH), 'None': UNIT, 'np.ndarray': VEC, 'set[str]': SET}

# files, in dependency order; `coq` is the Coq module the definitions of the file go to
FILES = [
    ('elements', ('Network', 'elements.py'), 'py_elements'),
    ('network', ('Network', 'network.py'), 'py_network'),
    ('label_mapping', ('Network', 'NodalAnalysis', 'label_mapping.py'), 'py_label_mapping'),
    ('solution', ('Network', 'NodalAnalysis', 'solution.py'), 'py_nodal'),
    ('bias_point_analysis', ('Network', 'NodalAnalysis', 'bias_point_analysis.py'), 'py_nodal'),
    ('transformers', ('Network', 'transformers.py'), 'py_transformers'),
]
# named, deliberately untranslated parts (outside the base layer or modelled elsewhere)
SKIP_FUNCS = {
    'elements': {'load', 'impedance_value', 'admittance_value', 'complex_value'},
    'network': {'ideal_voltage_sources', 'ideal_current_sources', 'passive_elements'},
    'label_mapping': {'filter'},
    'solution': set(),
    'bias_point_analysis': {'open_circuit_voltage', 'short_circuit_current', 'nodal_analysis_bias_point_solver'},
    'transformers': set(),
}
SKIP_METHODS = {
    'Network': {'branches_connected_to', 'nodes_connected_to', 'branches_between'},
    SOL_SUB: {'__post_init__'},
}
SKIP_CLASSES = {'label_mapping': {'LabelMapping', 'DistinctValues'}}
ALLOWED_FOREIGN_IMPORTS = {'typing', 'dataclasses', 'abc', 'numpy'}


# ------------------------------------------------------------------ modules, imports, name resolution
def U(node, path, msg):
    return Unsupported(f'{where(node, path)}: {msg}')


def ident_ok(name):
    return name.isascii() and name.isidentifier() and "'" not in name


class Mod:
    def __init__(self, key, path, coqmod):
        self.key, self.path, self.coqmod = key, path, coqmod
        self.tree = parse(path)
        self.funcs, self.classes, self.aliases, self.imports = {}, {}, {}, {}
        self.type_aliases = set()

    def scan(self, bypath):
        """index the top level; refuse everything that is not an import, a class, a def or an alias"""
        pkg = os.path.dirname(self.path)
        bound = {}
        for st in self.tree.body:
            if isinstance(st, ast.Import):
                names = [(a.asname or a.name.split('.')[0], ('import', a.name)) for a in st.names]
            elif isinstance(st, ast.ImportFrom):
                names = [(a.asname or a.name, ('from', st.level, st.module, a.name)) for a in st.names]
                if any(n == '*' for n, _ in names):
                    raise U(st, self.path, 'star import')
            elif isinstance(st, (ast.ClassDef, ast.FunctionDef)):
                names = [(st.name, ('def', st.lineno))]
            elif isinstance(st, ast.Assign) and len(st.targets) == 1 and isinstance(st.targets[0], ast.Name):
                names = [(st.targets[0].id, ('assign', st.lineno))]
            else:
                names = []
            for n, what in names:
                if bound.get(n, what) != what:      # the same import repeated is harmless
                    raise U(st, self.path, f'module-level name {n} bound twice')
                bound[n] = what
        for st in self.tree.body:
            if isinstance(st, ast.Import):
                for a in st.names:
                    if a.name.split('.')[0] not in ALLOWED_FOREIGN_IMPORTS:
                        raise U(st, self.path, f'import {a.name}')
                    self.imports[a.asname or a.name] = ('np',) if a.name == 'numpy' else ('foreign', a.name)
            elif isinstance(st, ast.ImportFrom):
                if st.level == 0:
                    if st.module.split('.')[0] not in ALLOWED_FOREIGN_IMPORTS:
                        raise U(st, self.path, f'from {st.module} import ...')
                    for a in st.names:
                        self.imports[a.asname or a.name] = ('foreign', f'{st.module}.{a.name}')
                    continue
                base = pkg
                for _ in range(st.level - 1):
                    base = os.path.dirname(base)
                if st.module:
                    target = os.path.normpath(os.path.join(base, *st.module.split('.')) + '.py')
                    tkey = bypath.get(target)
                    for a in st.names:
                        self.imports[a.asname or a.name] = ('name', tkey, a.name) if tkey else \
                            ('foreign', f'{st.module}.{a.name}')
                else:
                    for a in st.names:
                        target = os.path.normpath(os.path.join(base, a.name + '.py'))
                        tkey = bypath.get(target)
                        self.imports[a.asname or a.name] = ('module', tkey) if tkey else ('foreign', a.name)
            elif isinstance(st, ast.ClassDef):
                self.classes[st.name] = st
            elif isinstance(st, ast.FunctionDef):
                if st.name in self.funcs:
                    raise U(st, self.path, f'function {st.name} defined twice')
                self.funcs[st.name] = st
            elif isinstance(st, ast.Assign) and len(st.targets) == 1 and isinstance(st.targets[0], ast.Name):
                v = st.value
                if isinstance(v, ast.Name):
                    self.aliases[st.targets[0].id] = v.id
                elif isinstance(v, ast.Subscript) and isinstance(v.value, ast.Name) and v.value.id == 'Callable':
                    self.type_aliases.add(st.targets[0].id)
                else:
                    raise U(st, self.path, f'module-level assignment {ast.unparse(st)}')
            else:
                raise U(st, self.path, f'top-level statement {type(st).__name__}')


def is_private(name):
    """module-private helper by the Python naming convention: _name (not __dunder__)"""
    return name.startswith('_') and not name.startswith('__')


def decorators(node, path, allowed):
    out = []
    for d in node.decorator_list:
        if isinstance(d, ast.Name) and d.id in allowed:
            out.append(d.id)
        elif isinstance(d, ast.Call) and isinstance(d.func, ast.Name) and d.func.id == 'dataclass' and 'dataclass' in allowed \
                and not d.args and all(k.arg == 'frozen' and isinstance(k.value, ast.Constant) for k in d.keywords):
            out.append('dataclass')
        else:
            raise U(node, path, f'decorator {ast.unparse(d)}')
    return out


def is_stub_body(body):
    """a body made of a docstring / `...` / pass only"""
    return all((isinstance(s, ast.Expr) and isinstance(s.value, ast.Constant)) or isinstance(s, ast.Pass) for s in body)


class Sig:
    def __init__(self, coqname, params, ret, monadic, defaults=None):
        self.coqname, self.params, self.ret, self.monadic = coqname, params, ret, monadic
        self.defaults = defaults or {}     # param -> Coq constant name of the default value


# ------------------------------------------------------------------ translation environment
class Env:
    def __init__(self, gen, mod, state):
        self.gen, self.mod = gen, mod
        self.vars = {}        # Python local -> (Coq term, type)
        self.localfuns = {}   # nested def -> Sig
        self.pending = []     # raising sub-expressions [(tmp, term)] of the statement being translated, in evaluation order
        self.nolift = 0       # > 0: inside a lambda or a guarded operand
        self.state = state    # per function: tmp counter, mode pure|monadic, monadic (seen a raising construct), ret, name
        self.selffields = {}
        # locals bound to a freshly built list / set object -> identity token of that object.  The object is "private" (its
        # mutation by .remove / .update cannot be seen through any other name) until the local is read as a value; reads are
        # recorded in state['escaped'] (see tr_expr, ast.Name)
        self.fresh_lists = {}
        self.captured = set()       # outer locals read by a nested def: rebinding / mutating them later is refused

    @property
    def path(self):
        return self.mod.path

    def child(self):
        e = Env(self.gen, self.mod, self.state)
        e.vars, e.localfuns, e.nolift = dict(self.vars), dict(self.localfuns), self.nolift
        e.selffields = self.selffields
        e.fresh_lists = dict(self.fresh_lists)
        e.captured = set(self.captured)
        return e

    def child_of_loop(self):
        e = self.child()
        e.pending = self.pending
        return e

    def fresh(self):
        self.state['tmp'] += 1
        return f't{self.state["tmp"]}'

    def bind_var(self, name, ty, node=None):
        if not ident_ok(name):
            raise U(node, self.path, f'identifier {name!r}')
        if name in self.captured:
            raise U(node, self.path, f'{name} is rebound / mutated after a nested function that reads it was defined '
                                     f'(the closure would see the new value)')
        self.vars[name] = (name + "'", ty)
        return name + "'"

    def lift(self, term, ty, node):
        """a sub-expression that can raise: evaluated (bound) before the statement it occurs in"""
        if self.nolift:
            raise U(node, self.path, f'expression that can raise inside a comprehension / lambda / guarded operand: '
                                     f'{ast.unparse(node)}')
        self.state['monadic'] = True
        t = self.fresh()
        self.pending.append((t, term))
        return t, ty

    def is_private_object(self, name):
        tok = self.fresh_lists.get(name)
        return tok is not None and tok not in self.state.setdefault('escaped', set())

    def take(self):
        p, self.pending = self.pending, []
        return p


def wrap(pending, body):
    for t, term in reversed(pending):
        body = f'bind ({term}) (fun {t} =>\n  {body})'
    return body


def par(t):
    """parenthesise a term unless it is atomic"""
    if all(c.isalnum() or c in "_'." for c in t) or (t.startswith('(') and t.endswith(')') and balanced(t[1:-1])) or \
            (t.startswith('[') and t.endswith(']') and balanced(t[1:-1])):
        return t
    return f'({t})'


def balanced(s):
    d = 0
    for c in s:
        if c in '([':
            d += 1
        elif c in ')]':
            d -= 1
            if d < 0:
                return False
    return d == 0


def app(f, *args):
    return ' '.join([f] + [par(a) for a in args])


def coerce(term, ty, want, node, env):
    if want is None or ty == want:
        return term
    if isinstance(ty, tuple) and ty[0] == 'int':
        n = ty[1]
        if want in (K, OPTK) and n in (0, 1):
            t = f'f{n} K'
            return t if want == K else app('Some', t)
        if want == NAT and n >= 0:
            return str(n)
        raise U(node, env.path, f'integer literal {n} where {want} is expected')
    if ty == K and want == OPTK:
        return app('Some', term)
    if ty == OPTK and want == K:
        return app('opt0', term)      # np.inf / np.nan operand: read as 0 (unreachable), as Model/Network.v does
    if ty == TList(None) and isinstance(want, tuple) and want[0] == 'list':
        return f'@nil ({coq_ty(want[1])})'
    raise U(node, env.path, f'type mismatch: {ast.unparse(node)} has type {ty}, expected {want}')


def ann_type(a, node, path, mod=None):
    if a is None:
        raise U(node, path, 'missing annotation')
    s = ast.unparse(a)
    if s == 'Any':
        return None
    # Callable[[T1, ..., Tn], R] (typing.Callable, n >= 1): a pure function value
    if isinstance(a, ast.Subscript) and isinstance(a.value, ast.Name) and a.value.id == 'Callable' and mod is not None \
            and mod.imports.get('Callable') == ('foreign', 'typing.Callable') and isinstance(a.slice, ast.Tuple) \
            and len(a.slice.elts) == 2 and isinstance(a.slice.elts[0], ast.List) and a.slice.elts[0].elts:
        args = [ann_type(x, x, path) for x in a.slice.elts[0].elts]
        ret = ann_type(a.slice.elts[1], a.slice.elts[1], path)
        if any(t is None or t == UNIT for t in args) or ret is None or ret == UNIT:
            raise U(a, path, f'annotation {s}')
        return TFun(args, ret)
    if s not in ANN:
        raise U(a, path, f'annotation {s}')
    return ANN[s]


# ------------------------------------------------------------------ expressions
def is_np(e, env, attr):
    return isinstance(e, ast.Attribute) and e.attr == attr and isinstance(e.value, ast.Name) and \
        e.value.id not in env.vars and env.mod.imports.get(e.value.id) == ('np',)


def is_zero(e):
    return isinstance(e, ast.Constant) and type(e.value) is int and e.value == 0


def tr(e, env, want=None):
    """translate an expression and coerce it to `want`"""
    t, ty = tr_expr(e, env, want)
    return coerce(t, ty, want, e, env), (want if want is not None else ty)


def guarded(env, f):
    env.nolift += 1
    try:
        return f()
    finally:
        env.nolift -= 1


def tr_expr(e, env, want=None):
    path = env.path
    if isinstance(e, ast.Constant):
        v = e.value
        if type(v) is bool:
            return ('true' if v else 'false'), BOOL
        if type(v) is int:
            return str(v), TInt(v)
        if type(v) is str:
            c = f' (* {v!r} *)' if v.replace('_', '').replace(' ', '').isalnum() and v.isascii() else ''
            if want == KIND:
                return f'type_tag {S(v)}{c}', KIND
            return f'{S(v)}{c}', LABEL
        raise U(e, path, f'constant {v!r}')
    if isinstance(e, ast.Name):
        if e.id in env.vars:
            if e.id in env.fresh_lists:                   # from now on the list / set object may be reachable elsewhere
                env.state.setdefault('escaped', set()).add(env.fresh_lists[e.id])
            return env.vars[e.id]
        if is_fun(want):
            return fun_value(e, env, want), want
        raise U(e, path, f'name {e.id} used as a value')
    if isinstance(e, ast.Lambda):
        if not is_fun(want):
            raise U(e, path, 'lambda where no function type is expected')
        a = e.args
        if a.vararg or a.kwarg or a.kwonlyargs or a.posonlyargs or a.defaults or len(a.args) != len(want[1]) \
                or len({x.arg for x in a.args}) != len(a.args):
            raise U(e, path, f'lambda parameters do not fit {want}')
        sub = env.child()
        sub.pending = env.pending
        names = [sub.bind_var(x.arg, t, e) for x, t in zip(a.args, want[1])]
        for x in a.args:
            sub.localfuns.pop(x.arg, None)
        body, _ = guarded(sub, lambda: tr(e.body, sub, want[2]))
        return f'(fun {" ".join(names)} => {body})', want
    if isinstance(e, ast.Attribute):
        return tr_attribute(e, env)
    if isinstance(e, ast.Call):
        return tr_call(e, env, want)
    if isinstance(e, ast.Subscript):
        return tr_subscript(e, env)
    if isinstance(e, ast.Compare):
        return tr_compare(e, env)
    if isinstance(e, ast.BoolOp):
        op = '&&' if isinstance(e.op, ast.And) else '||'
        first, _ = tr(e.values[0], env, BOOL)
        rest = [guarded(env, lambda v=v: tr(v, env, BOOL)[0]) for v in e.values[1:]]
        t = par(first)
        for r in rest:
            t = f'{t} {op} {par(r)}'
        return t, BOOL
    if isinstance(e, ast.UnaryOp):
        if isinstance(e.op, ast.Not):
            return app('negb', tr(e.operand, env, BOOL)[0]), BOOL
        if isinstance(e.op, ast.USub):
            return app('fopp K', tr(e.operand, env, K)[0]), K
        raise U(e, path, f'unary operator {type(e.op).__name__}')
    if isinstance(e, ast.BinOp):
        ops = {ast.Add: 'fadd', ast.Sub: 'fsub', ast.Mult: 'fmul', ast.Div: 'fdiv'}
        if type(e.op) not in ops:
            raise U(e, path, f'binary operator {type(e.op).__name__}')
        l, lt = tr_expr(e.left, env)
        if isinstance(lt, tuple) and lt[0] == 'list':
            if not isinstance(e.op, ast.Add):
                raise U(e, path, 'list operator other than +')
            r, _ = tr(e.right, env, lt)
            return f'{par(l)} ++ {par(r)}', lt
        r, rt = tr_expr(e.right, env)
        if isinstance(lt, tuple) and lt[0] == 'int' and isinstance(rt, tuple) and rt[0] == 'int':
            raise U(e, path, 'integer arithmetic')
        return app(f'{ops[type(e.op)]} K', coerce(l, lt, K, e.left, env), coerce(r, rt, K, e.right, env)), K
    if isinstance(e, ast.IfExp):
        c, _ = tr(e.test, env, BOOL)
        a, at = guarded(env, lambda: tr_expr(e.body, env, want))
        b, bt = guarded(env, lambda: tr_expr(e.orelse, env, want))
        ty = want if want is not None else join(at, bt, e, env)
        return f'if {c} then {coerce(a, at, ty, e.body, env)} else {coerce(b, bt, ty, e.orelse, env)}', ty
    if isinstance(e, ast.Tuple):
        if len(e.elts) != 2:
            raise U(e, path, 'tuple that is not a pair')
        a, at = tr_expr(e.elts[0], env)
        b, bt = tr_expr(e.elts[1], env)
        return f'({a}, {b})', TPair(at, bt)
    if isinstance(e, ast.List):
        if e.elts:
            ts = [tr_expr(x, env) for x in e.elts]
            ty = ts[0][1]
            for (_, t2), x in zip(ts, e.elts):
                if t2 != ty:
                    raise U(x, path, 'list literal with elements of different types')
            return '[' + '; '.join(t for t, _ in ts) + ']', TList(ty)
        return '[]', TList(None)
    if isinstance(e, (ast.ListComp, ast.SetComp)):
        fn, src, elt, ety = tr_comprehension(e, env)
        t = src if fn is None else app('map', fn, src)
        if isinstance(e, ast.SetComp):
            if ety != LABEL:
                raise U(e, path, 'set comprehension whose elements are not strings')
            return app('set_of_list', t), SET
        return t, TList(ety)
    if isinstance(e, ast.DictComp):
        g = single_generator(e, env)
        sub, var = comp_binder(g, env)
        k, _ = guarded(sub, lambda: tr(e.key, sub, LABEL))
        v, vt = guarded(sub, lambda: tr_expr(e.value, sub))
        src = comp_source(g, env, sub, var)
        return app('map', f'(fun {var} => ({k}, {v}))', src), TDict(vt)
    raise U(e, path, f'expression {type(e).__name__}: {ast.unparse(e)}')


def fun_value(e, env, want):
    """a function name used as a value where the function type `want` is expected: a nested def or a translated
    module-level function, pure (cannot raise), with exactly the expected parameter types and result type"""
    if e.id in env.localfuns:
        sig, term = env.localfuns[e.id], env.localfuns[e.id].coqname
    else:
        r = env.gen.resolve(env.mod, e.id)
        if not (r and r[0] == 'func'):
            raise U(e, env.path, f'name {e.id} used as a function value')
        sig = env.gen.function(r[1], r[2], e, env.path)
        term = f'{sig.coqname} K'
    if sig.monadic or tuple(t for _, t in sig.params) != want[1] or sig.ret != want[2]:
        raise U(e, env.path, f'function {e.id} used as a value of type {want}: it can raise or has another signature')
    return term


def join(a, b, node, env):
    if a == b:
        return a
    if {a, b} == {K, OPTK}:
        return OPTK
    for x, y in ((a, b), (b, a)):
        if isinstance(x, tuple) and x[0] == 'int' and y in (K, OPTK, NAT):
            return y
    raise U(node, env.path, f'branches of different types {a} / {b}')


def single_generator(e, env):
    if len(e.generators) != 1:
        raise U(e, env.path, 'comprehension with several `for`')
    g = e.generators[0]
    if g.is_async or len(g.ifs) > 1:
        raise U(e, env.path, 'comprehension with several `if` / async')
    if not isinstance(g.target, ast.Name):
        raise U(e, env.path, f'comprehension target {ast.unparse(g.target)}')
    return g


def comp_binder(g, env):
    """element type of the iterable, sub-environment with the loop variable bound"""
    src, sty = tr_expr(g.iter, env)
    if not (isinstance(sty, tuple) and sty[0] == 'list' and sty[1] is not None):
        raise U(g.iter, env.path, f'comprehension over a value of type {sty}')
    sub = env.child()
    sub.pending = env.pending
    var = sub.bind_var(g.target.id, sty[1], g.target)
    sub._src = src
    return sub, var


def comp_source(g, env, sub, var):
    src = sub._src
    if g.ifs:
        c, _ = guarded(sub, lambda: tr(g.ifs[0], sub, BOOL))
        src = app('filter', f'(fun {var} => {c})', src)
    return src


def tr_comprehension(e, env):
    """[E for x in L if C] -> (fun x => E | None when E is x, filtered source, element, element type)"""
    g = single_generator(e, env)
    sub, var = comp_binder(g, env)
    src = comp_source(g, env, sub, var)
    ety = sub.vars[g.target.id][1]
    if isinstance(e.elt, ast.Name) and e.elt.id == g.target.id:
        return None, src, var, ety
    body, bty = guarded(sub, lambda: tr_expr(e.elt, sub))
    return f'(fun {var} => {body})', src, var, bty


CLASS_OF = {BRANCH: 'Branch', NET: 'Network', SOL: SOL_SUB}


def tr_attribute(e, env):
    path = env.path
    if isinstance(e.value, ast.Name) and e.value.id not in env.vars:
        raise U(e, path, f'attribute of a module / global used as a value: {ast.unparse(e)}')
    o, oty = tr_expr(e.value, env)
    if isinstance(oty, tuple) and oty[0] == 'self':            # self inside one of the element dataclasses
        fields = env.selffields
        if e.attr in fields:
            return fields[e.attr]
        raise U(e, path, f'self.{e.attr}: not a field of {oty[1]}')
    if oty == ELEM:
        name, ty = env.gen.protocol_attr(e.attr, e, path)
        return app(f'{name} K', o), ty
    if oty == MAPPING:
        if e.attr == 'keys':
            return app('mapping_keys', o), TList(LABEL)
        if e.attr == 'N':
            return app('mapping_N', o), NAT
        raise U(e, path, f'LabelMapping.{e.attr}')
    if oty in CLASS_OF:
        kind, x, ty = env.gen.member(CLASS_OF[oty], e.attr, e, path)
        if kind == 'field':
            return app(x, o), ty
        if kind == 'property':
            call = app(f'{x.coqname} K', o)
            if x.monadic:
                return env.lift(call, x.ret, e)
            return call, x.ret
        raise U(e, path, f'method {e.attr} used as a value')
    raise U(e, path, f'attribute {e.attr} of a value of type {oty}')


def match_args(call, params, env, skip_first=0):
    """parameter name -> argument expression, in SOURCE order of evaluation"""
    if any(isinstance(a, ast.Starred) for a in call.args) or any(k.arg is None for k in call.keywords):
        raise U(call, env.path, '* / ** arguments')
    names = [p for p in params][skip_first:]
    if len(call.args) > len(names):
        raise U(call, env.path, 'too many positional arguments')
    out = []
    for p, a in zip(names, call.args):
        out.append((p, a))
    for k in call.keywords:
        if k.arg not in names or k.arg in [p for p, _ in out]:
            raise U(call, env.path, f'keyword argument {k.arg}')
        out.append((k.arg, k.value))
    return out


def apply_sig(sig, call, env, first=None, local=False):
    """call of a translated function: arguments evaluated in source order, placed in parameter order, defaults filled"""
    pnames = [p for p, _ in sig.params]
    ptypes = dict(sig.params)
    given = {}
    if first is not None:
        given[pnames[0]] = first
    for p, a in match_args(call, pnames, env, 1 if first is not None else 0):
        given[p] = tr(a, env, ptypes[p])[0]
    args = []
    for p in pnames:
        if p in given:
            args.append(given[p])
        elif p in sig.defaults:
            args.append(f'{sig.defaults[p]} K')
        else:
            raise U(call, env.path, f'missing argument {p}')
    t = app(sig.coqname if local else f'{sig.coqname} K', *args)
    if sig.monadic:
        return env.lift(t, sig.ret, call)
    return t, sig.ret


def tr_call(e, env, want=None):
    path, gen = env.path, env.gen
    f = e.func
    if isinstance(f, ast.Name) and f.id not in env.vars:
        n = f.id
        if n in env.localfuns:
            return apply_sig(env.localfuns[n], e, env, local=True)
        r = gen.resolve(env.mod, n)
        if r is None:
            return tr_builtin(n, e, env, want)
        return tr_global_call(r, e, env, want)
    if isinstance(f, ast.Name) and is_fun(env.vars[f.id][1]):
        v, vt = env.vars[f.id]                                   # call of a function-valued parameter: pure
        if e.keywords or len(e.args) != len(vt[1]) or any(isinstance(a, ast.Starred) for a in e.args):
            raise U(e, path, f'call of {f.id} with keyword / a wrong number of arguments')
        return app(v, *[tr(a, env, t)[0] for a, t in zip(e.args, vt[1])]), vt[2]
    if isinstance(f, ast.Attribute):
        if isinstance(f.value, ast.Name) and f.value.id not in env.vars:
            imp = env.mod.imports.get(f.value.id)
            if imp and imp[0] == 'module' and imp[1]:
                r = gen.resolve(gen.mods[imp[1]], f.attr)
                if r is None:
                    raise U(e, path, f'{ast.unparse(f)} not found')
                return tr_global_call(r, e, env, want)
            raise U(e, path, f'call of {ast.unparse(f)}')
        # method call on a value
        if isinstance(f.value, ast.Name) and env.vars[f.value.id][1] == SOL and f.attr in SOL_MAPPER_FIELDS:
            sig = gen.sol_mapper_default(f.attr, e, path)          # self.node_mapper(...) -> the declared default mapper
            return apply_sig(sig, e, env)
        o, oty = tr_expr(f.value, env)
        if oty == SET and f.attr == 'union' and len(e.args) == 1 and not e.keywords:
            return app('set_union', o, tr(e.args[0], env, SET)[0]), SET
        if oty in (K, OPTK) and f.attr == 'conjugate' and not e.args and not e.keywords:
            return app('fconj K', coerce(o, oty, K, f.value, env)), K
        if oty in CLASS_OF:
            kind, x, ty = gen.member(CLASS_OF[oty], f.attr, e, path)
            if kind == 'method':
                return apply_sig(x, e, env, first=o)
        raise U(e, path, f'method call .{f.attr}() on a value of type {oty}')
    raise U(e, path, f'call of {ast.unparse(f)}')


def tr_global_call(r, e, env, want):
    path, gen = env.path, env.gen
    if r[0] == 'func':
        return apply_sig(gen.function(r[1], r[2], e, path), e, env)
    if r[0] == 'class':
        cname = r[2]
        if cname in RECORDS:
            rec = RECORDS[cname]
            gen.check_record(r[1], cname)
            vals = {}
            for p, a in match_args(e, rec['order'], env):
                vals[p] = tr(a, env, rec['ty'][p])[0]
            defaults = gen.field_defaults(r[1], cname)
            args = []
            for p in rec['order']:
                if p in vals:
                    args.append(vals[p])
                elif p in defaults:
                    args.append(f'{defaults[p]} K')
                else:
                    raise U(e, path, f'{cname}(...): field {p} not given')
            if cname == 'Network':
                sig = gen.network_new(e, path)
                return env.lift(app(f'{sig.coqname} K', *args), NET, e)
            return app(rec['ctor'], *args), rec.get('union') or rec['self']
        if cname == 'LabelMapping':
            # LabelMapping({k: v for v, k in enumerate(L)})  ->  enum_mapping L
            if len(e.args) == 1 and not e.keywords and isinstance(e.args[0], ast.DictComp):
                d = e.args[0]
                if len(d.generators) == 1 and not d.generators[0].ifs and isinstance(d.generators[0].target, ast.Tuple) \
                        and len(d.generators[0].target.elts) == 2 \
                        and all(isinstance(x, ast.Name) for x in d.generators[0].target.elts) \
                        and isinstance(d.key, ast.Name) and isinstance(d.value, ast.Name):
                    v, k = (x.id for x in d.generators[0].target.elts)
                    it = d.generators[0].iter
                    if d.key.id == k and d.value.id == v and k != v and isinstance(it, ast.Call) and \
                            isinstance(it.func, ast.Name) and it.func.id == 'enumerate' and len(it.args) == 1 \
                            and not it.keywords and gen.resolve(env.mod, 'enumerate') is None:
                        return app('enum_mapping', tr(it.args[0], env, TList(LABEL))[0]), MAPPING
            # LabelMapping(dict(zip(X, range(len(X)))))  with X a local list of labels: the same dict  ->  enum_mapping X
            if len(e.args) == 1 and not e.keywords and builtin_call(e.args[0], env, 'dict', 1) \
                    and builtin_call(e.args[0].args[0], env, 'zip', 2):
                x, rg = e.args[0].args[0].args
                if isinstance(x, ast.Name) and x.id in env.vars and env.vars[x.id][1] == TList(LABEL) \
                        and builtin_call(rg, env, 'range', 1) and builtin_call(rg.args[0], env, 'len', 1) \
                        and isinstance(rg.args[0].args[0], ast.Name) and rg.args[0].args[0].id == x.id:
                    return app('enum_mapping', env.vars[x.id][0]), MAPPING
            raise U(e, path, 'LabelMapping(...) other than LabelMapping({k: v for v, k in enumerate(L)}) / '
                             'LabelMapping(dict(zip(X, range(len(X)))))')
        raise U(e, path, f'constructor {cname}(...)')
    raise U(e, path, f'call of {ast.unparse(e.func)} ({r[0]})')


def builtin_call(x, env, name, nargs):
    """is x the call `name(a1, ..., a_nargs)` of the (unshadowed) builtin `name`, without keyword / starred arguments?"""
    return isinstance(x, ast.Call) and isinstance(x.func, ast.Name) and x.func.id == name and name not in env.vars \
        and name not in env.localfuns and env.gen.resolve(env.mod, name) is None and not x.keywords \
        and len(x.args) == nargs and not any(isinstance(a, ast.Starred) for a in x.args)


def tr_builtin(n, e, env, want):
    path = env.path
    if e.keywords:
        raise U(e, path, f'{n}(...) with keyword arguments')
    a = e.args
    if n == 'next' and len(a) == 2 and isinstance(a[1], ast.Constant) and a[1].value is None \
            and builtin_call(a[0], env, 'filter', 2):
        # next(filter(f, L), None): the first element of L satisfying the pure predicate f
        src, sty = tr_expr(a[0].args[1], env)
        if not (isinstance(sty, tuple) and sty[0] == 'list' and sty[1] is not None):
            raise U(e, path, f'filter over a value of type {sty}')
        pred, _ = tr(a[0].args[0], env, TFun([sty[1]], BOOL))
        return app('find', pred, src), TOpt(sty[1])
    if n == 'dict' and builtin_call(e, env, 'dict', 1) and builtin_call(a[0], env, 'zip', 2):
        # dict(zip(KEYS, VALUES)): association list in insertion order (zip stops at the shorter list, as `combine`);
        # d[k] reads the LAST entry of k (dict_item), exactly as for the dict comprehension
        ks, _ = tr(a[0].args[0], env, TList(LABEL))
        vs, vty = tr_expr(a[0].args[1], env)
        if not (isinstance(vty, tuple) and vty[0] == 'list' and vty[1] is not None):
            raise U(e, path, f'dict(zip(_, V)) with V of type {vty}')
        return app('combine', ks, vs), TDict(vty[1])
    if n == 'len' and len(a) == 1:
        t, ty = tr_expr(a[0], env)
        if ty == SET:
            return app('set_len', t), NAT
        if isinstance(ty, tuple) and ty[0] == 'list':
            return app('length', t), NAT
        raise U(e, path, f'len of a value of type {ty}')
    if n == 'set' and len(a) == 1:
        return app('set_of_list', tr(a[0], env, TList(LABEL))[0]), SET
    if n == 'sorted' and len(a) == 1:
        x = a[0]
        if isinstance(x, ast.Call) and isinstance(x.func, ast.Name) and x.func.id == 'list' and len(x.args) == 1 \
                and not x.keywords and x.func.id not in env.vars:
            t, ty = tr_expr(x.args[0], env)
            if ty == SET:
                return app('set_sorted', t), TList(LABEL)     # sorted(list(s))
            x = x.args[0]
        t, ty = tr_expr(x, env)
        if ty == SET:
            return app('set_sorted', t), TList(LABEL)
        if ty == TList(LABEL):
            return app('lsort', t), TList(LABEL)
        raise U(e, path, f'sorted of a value of type {ty}')
    if n == 'list' and len(a) == 1:
        t, ty = tr_expr(a[0], env)
        if isinstance(ty, tuple) and ty[0] == 'list':
            return t, ty                                      # a copy
        raise U(e, path, f'list(...) of a value of type {ty} (the order of a set is unspecified)')
    if n == 'complex' and len(a) == 1:
        return tr(a[0], env, K)                               # complex(z) of a number
    if n == 'next' and len(a) == 2 and isinstance(a[1], ast.Constant) and a[1].value is None \
            and isinstance(a[0], ast.GeneratorExp):
        g = single_generator(a[0], env)
        if not (isinstance(a[0].elt, ast.Name) and a[0].elt.id == g.target.id):
            raise U(e, path, 'next((E for x in L ...), None) with E other than x')
        sub, var = comp_binder(g, env)
        ety = sub.vars[g.target.id][1]
        c = guarded(sub, lambda: tr(g.ifs[0], sub, BOOL))[0] if g.ifs else 'true'
        return app('find', f'(fun {var} => {c})', sub._src), TOpt(ety)
    raise U(e, path, f'call of {n}')


def tr_subscript(e, env):
    path = env.path
    o, oty = tr_expr(e.value, env)
    s = e.slice
    if oty == NET:
        kind, sig, _ = env.gen.member('Network', '__getitem__', e, path)
        return env.lift(app(f'{sig.coqname} K', o, tr(s, env, sig.params[1][1])[0]), sig.ret, e)
    if oty == MAPPING:
        return env.lift(app('mapping_item', o, tr(s, env, LABEL)[0]), NAT, e)
    if isinstance(oty, tuple) and oty[0] == 'dict':
        return env.lift(app('dict_item', o, tr(s, env, LABEL)[0]), oty[1], e)
    if oty == VEC:
        if isinstance(s, ast.Slice):
            if s.step is None and s.lower is None and s.upper is not None:
                return app('slice_to', o, tr(s.upper, env, NAT)[0]), VEC
            if s.step is None and s.upper is None and isinstance(s.lower, ast.UnaryOp) and isinstance(s.lower.op, ast.USub):
                return app('slice_last', o, tr(s.lower.operand, env, NAT)[0]), VEC
            raise U(e, path, f'slice {ast.unparse(e)}')
        return app('vec_item', o, tr(s, env, NAT)[0]), K
    raise U(e, path, f'subscript of a value of type {oty}')


def tr_compare(e, env):
    path = env.path
    if len(e.ops) != 1:
        raise U(e, path, 'chained comparison')
    op, l, r = e.ops[0], e.left, e.comparators[0]
    # np.abs(x) > 0  /  np.abs(x) >= 0   on a value that may be nan
    if isinstance(op, (ast.Gt, ast.GtE)):
        if isinstance(l, ast.Call) and is_np(l.func, env, 'abs') and len(l.args) == 1 and not l.keywords and is_zero(r):
            x, _ = tr(l.args[0], env, OPTK)
            return app('nz' if isinstance(op, ast.Gt) else 'num', x), BOOL
        raise U(e, path, f'ordering comparison other than np.abs(x) > 0 / np.abs(x) >= 0: {ast.unparse(e)}')
    if isinstance(op, (ast.Eq, ast.NotEq)):
        a, at = tr_expr(l, env)
        b, bt = tr_expr(r, env)
        neg = (lambda t: app('negb', t)) if isinstance(op, ast.NotEq) else (lambda t: t)
        if at == OPTK and bt == TInt(0):
            return neg(app('isz', a)), BOOL
        if at == TInt(0) and bt == OPTK:
            raise U(e, path, '0 == x (write x == 0)')
        ty = join(at, bt, e, env)
        eqs = {LABEL: 'label_eqb', NAT: 'Nat.eqb', K: 'feqb K', ELEM: 'elem_eqb', BRANCH: 'branch_eqb', KIND: 'N.eqb'}
        if ty not in eqs:
            raise U(e, path, f'== on values of type {ty}')
        return neg(app(eqs[ty], coerce(a, at, ty, l, env), coerce(b, bt, ty, r, env))), BOOL
    if isinstance(op, (ast.In, ast.NotIn)):
        a, at = tr_expr(l, env)
        b, bt = tr_expr(r, env)
        neg = (lambda t: app('negb', t)) if isinstance(op, ast.NotIn) else (lambda t: t)
        if at == LABEL and bt == TList(LABEL):
            return neg(app('lmem', a, b)), BOOL
        if at == ELEM and bt == TList(ELEM):
            return neg(app('in_keep', a, b)), BOOL
        raise U(e, path, f'`in` between {at} and {bt}')
    raise U(e, path, f'comparison {type(op).__name__}')


# ------------------------------------------------------------------ statements
def terminates(stmts):
    if not stmts:
        return False
    s = stmts[-1]
    if isinstance(s, (ast.Return, ast.Raise)):
        return True
    if isinstance(s, ast.If):
        return terminates(s.body) and terminates(s.orelse)
    if isinstance(s, ast.Try):
        return True
    return False


def finish(env, term, ty, node):
    """`return term`: coerce to the declared / first seen return type, wrap in Ok when the function can raise"""
    st = env.state
    if st['ret'] is None:
        if isinstance(ty, tuple) and ty[0] == 'int':
            raise U(node, env.path, 'cannot infer the return type from an integer literal')
        st['ret'] = ty
    term = coerce(term, ty, st['ret'], node, env)
    pend = env.take()
    if st['mode'] == 'monadic':
        if pend and pend[-1][0] == term:          # return f(x) with f raising: no bind / Ok round trip
            return wrap(pend[:-1], pend[-1][1])
        return wrap(pend, app('Ok', term))
    return wrap(pend, term)


def exception_name(x, env):
    if isinstance(x, ast.Call) and isinstance(x.func, ast.Name) and not x.keywords and \
            all(isinstance(a, ast.Constant) and isinstance(a.value, str) for a in x.args):
        x = x.func
    if not isinstance(x, ast.Name):
        raise U(x, env.path, f'raise {ast.unparse(x)}')
    r = env.gen.resolve(env.mod, x.id)
    if r is None and x.id in ('KeyError', 'ValueError', 'AttributeError'):
        return EXC[x.id]
    if r and r[0] == 'class' and env.gen.is_exception_class(r[1], r[2]) and r[2] in EXC:
        return EXC[r[2]]
    raise U(x, env.path, f'raise of {x.id}: not a known exception class')


def tr_try(st, env):
    """try: return A / B   except ZeroDivisionError: return np.inf | np.nan"""
    path = env.path
    ok = (len(st.body) == 1 and isinstance(st.body[0], ast.Return) and isinstance(st.body[0].value, ast.BinOp)
          and isinstance(st.body[0].value.op, ast.Div) and len(st.handlers) == 1 and not st.orelse and not st.finalbody)
    if ok:
        h = st.handlers[0]
        ok = (isinstance(h.type, ast.Name) and h.type.id == 'ZeroDivisionError' and h.name is None and len(h.body) == 1
              and isinstance(h.body[0], ast.Return) and env.gen.resolve(env.mod, 'ZeroDivisionError') is None)
    if not ok:
        raise U(st, path, 'try statement other than `try: return A / B  except ZeroDivisionError: return np.inf|np.nan`')
    v = h.body[0].value
    if is_np(v, env, 'inf'):
        env.state['excval'] = 'inf'
    elif is_np(v, env, 'nan'):
        env.state['excval'] = 'nan'
    else:
        raise U(v, path, f'except ZeroDivisionError: return {ast.unparse(v)} (np.inf or np.nan expected)')
    d = st.body[0].value
    a, _ = tr(d.left, env, K)
    b, _ = tr(d.right, env, K)
    return app('try_div', a, b), OPTK


def tr_stmts(stmts, env):
    path = env.path
    if not stmts:
        if env.state['ret'] == UNIT:
            return finish(env, 'tt', UNIT, None)
        raise Unsupported(f'{path}: {env.state["name"]}: control can reach the end of the function without `return`')
    st, rest = stmts[0], stmts[1:]
    if isinstance(st, ast.Expr) and isinstance(st.value, ast.Constant) and isinstance(st.value.value, str):
        return tr_stmts(rest, env)      # docstring
    if isinstance(st, (ast.Return, ast.Raise, ast.Try)) and rest:
        raise U(rest[0], path, 'statement after return / raise')
    if isinstance(st, ast.Return):
        if st.value is None:
            raise U(st, path, 'bare return')
        t, ty = tr_expr(st.value, env, env.state['ret'])
        return finish(env, t, ty, st.value)
    if isinstance(st, ast.Try):
        t, ty = tr_try(st, env)
        return finish(env, t, ty, st)
    if isinstance(st, ast.Raise):
        if st.exc is None or st.cause is not None:
            raise U(st, path, 'raise without an exception / with a cause')
        env.state['monadic'] = True
        return wrap(env.take(), app('Err', exception_name(st.exc, env)))
    if isinstance(st, ast.If):
        c, _ = tr(st.test, env, BOOL)
        pend = env.take()
        if not terminates(st.body):
            raise U(st, path, '`if` whose body does not end in return / raise')
        a = tr_stmts(st.body, env.child())
        if st.orelse:
            if terminates(st.orelse):
                if rest:
                    raise U(rest[0], path, 'statement after an if / else that always returns')
                b = tr_stmts(st.orelse, env.child())
            else:
                b = tr_stmts(st.orelse + rest, env)      # the `if` branch has returned: else-branch, then the rest
        else:
            b = tr_stmts(rest, env)
        return wrap(pend, f'if {c} then {a}\n  else {b}')
    if isinstance(st, ast.Assign) and len(st.targets) == 1 and isinstance(st.targets[0], ast.Name) \
            and isinstance(st.value, ast.List) and not st.value.elts and rest and isinstance(rest[0], ast.For):
        return tr_acc_loop(st.targets[0], rest[0], rest[1:], env)
    if isinstance(st, ast.Assign):
        if len(st.targets) != 1:
            raise U(st, path, 'chained assignment')
        tg = st.targets[0]
        t, ty = tr_expr(st.value, env)
        pend = env.take()
        if isinstance(tg, ast.Name):
            v = st.value
            if isinstance(v, (ast.ListComp, ast.SetComp)) or builtin_call(v, env, 'list', 1) or builtin_call(v, env, 'set', 1):
                env.fresh_lists[tg.id] = object()        # a new list / set object, not shared with any input
            else:
                env.fresh_lists.pop(tg.id, None)
        return wrap(pend, f'let {bind_target(tg, ty, env)} := {t} in\n  {tr_stmts(rest, env)}')
    if isinstance(st, ast.Expr):
        if isinstance(st.value, ast.Call) and isinstance(st.value.func, ast.Attribute) and st.value.func.attr == 'update':
            return _update_then(st, rest, env)
        return _remove_then(st, rest, env)
    if isinstance(st, ast.FunctionDef):
        name, lam, sig = tr_nested_def(st, env)
        env.localfuns[st.name] = sig
        env.vars.pop(st.name, None)
        return f'let {name} := {lam} in\n  {tr_stmts(rest, env)}'
    if isinstance(st, ast.While):
        v, t = tr_while(st, env)
        return f'let {v} := {t} in\n  {tr_stmts(rest, env)}'
    raise U(st, path, f'statement {type(st).__name__}')


def bind_target(tg, ty, env):
    if isinstance(tg, ast.Name):
        if isinstance(ty, tuple) and ty[0] in ('int', 'list') and (ty[0] == 'int' or ty[1] is None):
            raise U(tg, env.path, f'cannot type the variable {tg.id}')
        env.localfuns.pop(tg.id, None)
        return env.bind_var(tg.id, ty, tg)
    if isinstance(tg, ast.Tuple) and len(tg.elts) == 2 and all(isinstance(x, ast.Name) for x in tg.elts) \
            and isinstance(ty, tuple) and ty[0] == 'pair' and tg.elts[0].id != tg.elts[1].id:
        a = env.bind_var(tg.elts[0].id, ty[1], tg)
        b = env.bind_var(tg.elts[1].id, ty[2], tg)
        return f"'({a}, {b})"
    raise U(tg, env.path, f'assignment target {ast.unparse(tg)} for a value of type {ty}')


def _remove_then(st, rest, env):
    """x.remove(E) on a local list of branches (dataclass equality): first occurrence removed.  ValueError (absent) is not
    modelled, as in Model/Transformers.v."""
    c = st.value
    if isinstance(c, ast.Call) and isinstance(c.func, ast.Attribute) and c.func.attr == 'remove' and \
            isinstance(c.func.value, ast.Name) and c.func.value.id in env.vars and len(c.args) == 1 and not c.keywords \
            and env.vars[c.func.value.id][1] == TList(BRANCH):
        x = c.func.value.id
        if not env.is_private_object(x):
            raise U(st, env.path, f'{x}.remove(...) on a list that may be shared (not bound by list(...) / a comprehension, '
                                  f'or already used as a value): the model has no aliasing')
        old = env.vars[x][0]
        a, _ = tr(c.args[0], env, BRANCH)
        pend = env.take()
        new = env.bind_var(x, TList(BRANCH), c)
        return wrap(pend, f'let {new} := {app("remove_first", a, old)} in\n  {tr_stmts(rest, env)}')
    raise U(st, env.path, f'expression statement {ast.unparse(st)}')


def _update_then(st, rest, env):
    """s.update(ITERABLE) on a local set of strings that was freshly built in this function (a set comprehension / set(...),
    so the mutation cannot be seen through any other name): s becomes s | set(ITERABLE).  ITERABLE: a generator expression
    (one `for`, at most one `if`), a list of strings or a set."""
    c = st.value
    if not (isinstance(c.func.value, ast.Name) and c.func.value.id in env.vars and len(c.args) == 1 and not c.keywords
            and not isinstance(c.args[0], ast.Starred) and env.vars[c.func.value.id][1] == SET):
        raise U(st, env.path, f'expression statement {ast.unparse(st)}')
    x = c.func.value.id
    if not env.is_private_object(x):
        raise U(st, env.path, f'{x}.update(...) on a set that may be shared (not bound by a set comprehension / set(...), '
                              f'or already used as a value)')
    old = env.vars[x][0]
    a = c.args[0]
    if isinstance(a, ast.GeneratorExp):
        fn, src, _, ety = tr_comprehension(a, env)
        if ety != LABEL:
            raise U(a, env.path, 'generator whose elements are not strings')
        new_elems = app('set_of_list', src if fn is None else app('map', fn, src))
    else:
        t, ty = tr_expr(a, env)
        if ty == SET:
            new_elems = t
        elif ty == TList(LABEL):
            new_elems = app('set_of_list', t)
        else:
            raise U(a, env.path, f'{x}.update(...) with an argument of type {ty}')
    pend = env.take()
    new = env.bind_var(x, SET, c)
    return wrap(pend, f'let {new} := {app("set_union", old, new_elems)} in\n  {tr_stmts(rest, env)}')


def tr_acc_loop(tg, loop, rest, env):
    """acc = []
       for x in L: BODY            ->   let acc' := flat_map (fun x' => <list of the values BODY appends, in order>) L in ...
    BODY (one iteration; every expression in it is pure, `acc` is only touched by acc.append):
       acc.append(E) | v = E (v a new local of the iteration) | continue (last statement of its block)
       | if C: B1 [else: B2]   (followed by more statements only when B1 ends in `continue`, or when there is an else
                                branch and B1 ends in `continue`)
    The loop variable and the locals of the body are not visible after the loop (any later use is refused), and the body
    cannot assign a variable that exists outside the loop (no loop-carried state other than `acc`)."""
    path = env.path
    acc = tg.id
    if loop.orelse or not isinstance(loop.target, ast.Name) or getattr(loop, 'type_comment', None):
        raise U(loop, path, 'for loop with an else branch / a target that is not a name')
    x = loop.target.id
    if x == acc or x in env.vars or x in env.localfuns:
        raise U(loop, path, f'loop variable {x} rebinds an existing name')
    src, sty = tr_expr(loop.iter, env)
    if not (isinstance(sty, tuple) and sty[0] == 'list' and sty[1] is not None):
        raise U(loop.iter, path, f'for loop over a value of type {sty}')
    pend = env.take()
    be = env.child()
    be.pending = []
    be.nolift += 1
    be.vars.pop(acc, None)          # `acc` cannot be read inside the body
    be.localfuns.pop(acc, None)
    be.localfuns.pop(x, None)
    xv = be.bind_var(x, sty[1], loop.target)
    st = {'ty': None}

    def body(stmts, e):
        if not stmts:
            return '[]'
        s, more = stmts[0], stmts[1:]
        if isinstance(s, ast.Continue):
            if more:
                raise U(more[0], path, 'statement after continue')
            return '[]'
        if isinstance(s, ast.Expr) and isinstance(s.value, ast.Call) and isinstance(s.value.func, ast.Attribute) \
                and s.value.func.attr == 'append' and isinstance(s.value.func.value, ast.Name) \
                and s.value.func.value.id == acc and len(s.value.args) == 1 and not s.value.keywords \
                and not isinstance(s.value.args[0], ast.Starred):
            t, ty = tr_expr(s.value.args[0], e)
            if (isinstance(ty, tuple) and ty[0] in ('int', 'fun')) or ty == TList(None):
                raise U(s, path, f'cannot type the elements of {acc}')
            if st['ty'] is None:
                st['ty'] = ty
            elif st['ty'] != ty:
                raise U(s, path, f'{acc}.append of values of different types')
            return f'{par(t)} :: {body(more, e)}'
        if isinstance(s, ast.Assign) and len(s.targets) == 1:
            names = assigned_names([s], e)
            for n in names:
                if n == acc or n == x or n in env.vars or n in env.localfuns:
                    raise U(s, path, f'assignment to {n} inside the loop: it exists outside the iteration')
            t, ty = tr_expr(s.value, e)
            return f'let {bind_target(s.targets[0], ty, e)} := {t} in\n    {body(more, e)}'
        if isinstance(s, ast.If):
            c, _ = tr(s.test, e, BOOL)
            ends = bool(s.body) and isinstance(s.body[-1], ast.Continue)
            if more and not ends:
                raise U(s, path, '`if` inside the loop body that is followed by more statements and does not end in continue')
            a = body(s.body, e.child_of_loop())
            b = body(s.orelse + more, e.child_of_loop())
            return f'if {c} then {a}\n    else {b}'
        raise U(s, path, f'statement {type(s).__name__} in the body of an accumulating for loop')

    t = body(loop.body, be)
    if st['ty'] is None:
        raise U(loop, path, f'for loop that never appends to {acc}')
    env.localfuns.pop(acc, None)
    new = env.bind_var(acc, TList(st['ty']), tg)
    env.fresh_lists[acc] = object()
    return wrap(pend, f'let {new} := flat_map (fun {xv} => {t}) {par(src)} in\n  {tr_stmts(rest, env)}')


def fun_params(fdef, env, self_ty=None):
    a = fdef.args
    if a.vararg or a.kwarg or a.kwonlyargs or a.posonlyargs:
        raise U(fdef, env.path, f'{fdef.name}: star / keyword-only / positional-only parameters')
    params = []
    for i, x in enumerate(a.args):
        if i == 0 and self_ty is not None:
            if x.arg != 'self':
                raise U(fdef, env.path, f'{fdef.name}: first parameter of a method is not self')
            params.append((x.arg, self_ty))
        else:
            ty = ann_type(x.annotation, x, env.path, env.mod)
            if ty is None:
                raise U(x, env.path, f'parameter {x.arg}: Any')
            params.append((x.arg, ty))
    return params


def tr_nested_def(fdef, env):
    """nested `def`: a local pure function (closure over the enclosing locals)"""
    if fdef.decorator_list:
        raise U(fdef, env.path, 'decorated nested function')
    if fdef.args.defaults:
        raise U(fdef, env.path, 'nested function with default values')
    sub = Env(env.gen, env.mod, {'tmp': env.state['tmp'], 'monadic': False, 'mode': 'pure', 'name': fdef.name,
                                  'ret': ann_type(fdef.returns, fdef, env.path)})
    sub.vars, sub.localfuns = dict(env.vars), dict(env.localfuns)
    params = fun_params(fdef, sub)
    binders = ' '.join(f'({sub.bind_var(p, t, fdef)} : {coq_ty(t)})' for p, t in params)
    body = tr_stmts(fdef.body, sub)
    if sub.state['monadic']:
        raise U(fdef, env.path, f'nested function {fdef.name} can raise')
    # the translation closes over the CURRENT values of the enclosing locals; Python closures see later rebindings, so those
    # are refused (Env.bind_var) for every enclosing local the body may read
    pnames = {p for p, _ in params}
    env.captured |= {n.id for n in ast.walk(fdef) if isinstance(n, ast.Name) and isinstance(n.ctx, ast.Load)
                     and n.id in env.vars and n.id not in pnames}
    env.state['tmp'] = sub.state['tmp']
    if not ident_ok(fdef.name):
        raise U(fdef, env.path, f'identifier {fdef.name!r}')
    name = fdef.name + "'"
    return name, f'(fun {binders} => {body})', Sig(name, params, sub.state['ret'], False)


def assigned_names(stmts, env):
    out = []
    for s in stmts:
        if not (isinstance(s, ast.Assign) and len(s.targets) == 1):
            raise U(s, env.path, f'statement {type(s).__name__} in a while body (only assignments are accepted)')
        tg = s.targets[0]
        for x in (tg.elts if isinstance(tg, ast.Tuple) else [tg]):
            if not isinstance(x, ast.Name):
                raise U(s, env.path, f'assignment target {ast.unparse(tg)}')
            if x.id not in out:
                out.append(x.id)
    return out


def tr_while(st, env):
    """while (x := COND) is not None: <assignments>   with exactly one loop-carried variable, a list"""
    path = env.path
    t = st.test
    if st.orelse or not (isinstance(t, ast.Compare) and len(t.ops) == 1 and isinstance(t.ops[0], ast.IsNot)
                         and isinstance(t.comparators[0], ast.Constant) and t.comparators[0].value is None
                         and isinstance(t.left, ast.NamedExpr) and isinstance(t.left.target, ast.Name)):
        raise U(st, path, 'while loop other than `while (x := f(v)) is not None:`')
    xname = t.left.target.id
    carried = [n for n in assigned_names(st.body, env) if n in env.vars]
    if len(carried) != 1 or xname in env.vars or xname in carried:
        raise U(st, path, f'while loop with loop-carried variables {carried} (exactly one expected)')
    v = carried[0]
    vty = env.vars[v][1]
    if not (isinstance(vty, tuple) and vty[0] == 'list'):
        raise U(st, path, f'loop-carried variable {v} is not a list')
    old = env.vars[v][0]
    # condition, as a function of the carried variable
    ce = env.child()
    cv = ce.bind_var(v, vty, st)
    c, cty = guarded(ce, lambda: tr_expr(t.left.value, ce))
    if not (isinstance(cty, tuple) and cty[0] == 'opt'):
        raise U(t, path, f'`is not None` on a value of type {cty}')
    # body, as a function of the carried variable and of x
    be = env.child()
    bv = be.bind_var(v, vty, st)
    bx = be.bind_var(xname, cty[1], st)
    be.nolift += 1
    body = ''
    for s in st.body:
        e, ety = tr_expr(s.value, be)
        body += f'let {bind_target(s.targets[0], ety, be)} := {e} in\n    '
    if be.vars[v][1] != vty:
        raise U(st, path, f'loop-carried variable {v} changes type')
    body += be.vars[v][0]
    new = env.bind_var(v, vty, st)
    return new, app('while_list', f'(fun {cv} => {c})', f'(fun {bv} {bx} => {body})', old)


# ------------------------------------------------------------------ the generator
def new_state(name, ret, mode):
    return {'tmp': 0, 'monadic': False, 'mode': mode, 'name': name, 'ret': ret}


class Gen:
    def __init__(self, src):
        self.src = src
        bypath = {}
        for key, rel, _ in FILES:
            bypath[os.path.normpath(os.path.join(src, *rel))] = key
        self.mods = {key: Mod(key, os.path.normpath(os.path.join(src, *rel)), coqmod) for key, rel, coqmod in FILES}
        for m in self.mods.values():
            m.scan(bypath)
        self.coqmods = []
        for _, _, c in FILES:
            if c not in self.coqmods:
                self.coqmods.append(c)
        self.out = {c: [] for c in self.coqmods}
        self.sigs = {}
        self.busy = []
        self.checked = {}
        self.excvals = []
        self.cur = []          # stack of Coq modules being translated (reference order check)

    # ---------------- names
    def resolve(self, mod, name, depth=0):
        if depth > 10:
            raise Unsupported(f'{mod.path}: alias cycle through {name}')
        if name in mod.funcs:
            return ('func', mod.key, name)
        if name in mod.classes:
            return ('class', mod.key, name)
        if name in mod.aliases:
            return self.resolve(mod, mod.aliases[name], depth + 1)
        imp = mod.imports.get(name)
        if imp is None:
            return None
        if imp[0] == 'name':
            return self.resolve(self.mods[imp[1]], imp[2], depth + 1) or ('foreign', imp[2])
        return imp

    def emit(self, coqmod, text):
        self.out[coqmod].append(text)

    def order_check(self, target, node, path):
        if self.cur and self.coqmods.index(target.coqmod) > self.coqmods.index(self.cur[-1]):
            raise U(node, path, f'reference from {self.cur[-1]} to the later module {target.coqmod}')

    # ---------------- functions and methods
    def function(self, key, name, node=None, path=''):
        mod = self.mods[key]
        if name in SKIP_FUNCS[key]:
            raise U(node, path, f'call of {key}.{name}, which is outside the translated subset')
        self.order_check(mod, node, path)
        return self.translate_def(mod, mod.funcs[name], name)

    def translate_def(self, mod, fdef, shortname, self_ty=None, allowed_decorators=()):
        k = (mod.coqmod, shortname)
        if k in self.sigs:
            return self.sigs[k]
        if k in self.busy:
            raise U(fdef, mod.path, f'recursion through {shortname}')
        self.busy.append(k)
        self.cur.append(mod.coqmod)
        try:
            decorators(fdef, mod.path, allowed_decorators)
            env0 = Env(self, mod, new_state(fdef.name, None, 'pure'))
            params = fun_params(fdef, env0, self_ty)
            defaults = {}
            ds = fdef.args.defaults
            for (p, ty), d in zip(params[len(params) - len(ds):], ds):
                dn = f'{shortname}__default_{p}'
                t, _ = tr(d, Env(self, mod, new_state(fdef.name, None, 'pure')), ty)
                self.emit(mod.coqmod, f'Definition {dn} (K : fops) : {coq_ty(ty)} := {t}.')
                defaults[p] = f'{mod.coqmod}.{dn}'
            if fdef.returns is not None:
                ret = ann_type(fdef.returns, fdef, mod.path)
            else:
                ret = UNIT if fdef.name == '__post_init__' else None
            for mode in ('pure', 'monadic'):
                env = Env(self, mod, new_state(fdef.name, ret, mode))
                binders = ' '.join(f'({env.bind_var(p, t, fdef)} : {coq_ty(t)})' for p, t in params)
                body = tr_stmts(fdef.body, env)
                if mode == 'pure' and env.state['monadic']:
                    continue
                break
            rty = env.state['ret']
            monadic = env.state['mode'] == 'monadic'
            cty = f'res ({coq_ty(rty)})' if monadic else coq_ty(rty)
            self.emit(mod.coqmod, f'(* {os.path.basename(mod.path)}:{fdef.lineno} {fdef.name} *)\n'
                                  f'Definition {shortname} (K : fops) {binders} : {cty} :=\n  {body}.')
            if self_ty is None and is_private(shortname):
                # a private helper is a definition of its own; the hint lets the proofs about its (public) callers see through it
                self.emit(mod.coqmod, f'#[global] Hint Unfold {shortname} : py_private.')
            sig = Sig(f'{mod.coqmod}.{shortname}', params, rty, monadic, defaults)
            self.sigs[k] = sig
            return sig
        finally:
            self.busy.pop()
            self.cur.pop()

    def class_methods(self, mod, cname):
        ms = {}
        for s in mod.classes[cname].body:
            if isinstance(s, ast.FunctionDef):
                if s.name in ms:
                    raise U(s, mod.path, f'{cname}.{s.name} defined twice')
                if s.name.startswith('__') and s.name not in ('__post_init__', '__getitem__'):
                    raise U(s, mod.path, f'special method {cname}.{s.name}')
                if s.name == '__getitem__' and cname != 'Network':
                    raise U(s, mod.path, f'special method {cname}.{s.name}')
                ms[s.name] = s
        return ms

    def member(self, cname, name, node, path):
        if cname in ('Branch', 'Network'):
            rec, mod = RECORDS[cname], self.mods['network']
            self.check_record('network', cname)
            if name in rec['proj']:
                return 'field', rec['proj'][name], rec['ty'][name]
            owners = [(mod, cname, RECORDS[cname]['self'])]
        elif cname == SOL_SUB:
            self.check_solution_classes()
            if name in SOL_PROJ:
                return 'field', SOL_PROJ[name][0], SOL_PROJ[name][1]
            owners = [(self.mods['bias_point_analysis'], SOL_SUB, SOL), (self.mods['solution'], SOL_BASE, SOL)]
        else:
            raise U(node, path, f'member of {cname}')
        for mod, cn, sty in owners:
            ms = self.class_methods(mod, cn)
            if name not in ms:
                continue
            f = ms[name]
            decs = decorators(f, mod.path, ('property', 'abstractmethod'))
            if 'abstractmethod' in decs:
                if not is_stub_body(f.body):
                    raise U(f, mod.path, f'abstract method {name} with a body')
                continue
            if name in SKIP_METHODS.get(cn, ()):
                raise U(node, path, f'use of {cn}.{name}, which is outside the translated subset')
            self.order_check(mod, node, path)
            sig = self.translate_def(mod, f, f'{cn}_{name}', self_ty=sty, allowed_decorators=('property',))
            return ('property' if 'property' in decs else 'method'), sig, sig.ret
        raise U(node, path, f'{cname} has no member {name}')

    # ---------------- classes
    def check_record(self, key, cname):
        if cname in self.checked:
            return
        self.checked[cname] = True
        mod, rec = self.mods[key], RECORDS[cname]
        if cname not in mod.classes:
            raise Unsupported(f'{mod.path}: class {cname} not found')
        c = mod.classes[cname]
        if 'dataclass' not in decorators(c, mod.path, ('dataclass',)) or c.bases or c.keywords:
            raise U(c, mod.path, f'{cname} is not a plain @dataclass')
        fields = []
        for s in c.body:
            if isinstance(s, ast.AnnAssign) and isinstance(s.target, ast.Name):
                fields.append(s.target.id)
                if ast.unparse(s.annotation) != rec['ann'].get(s.target.id):
                    raise U(s, mod.path, f'{cname}.{s.target.id}: annotation {ast.unparse(s.annotation)}')
            elif isinstance(s, ast.FunctionDef) or (isinstance(s, ast.Expr) and isinstance(s.value, ast.Constant)):
                pass
            else:
                raise U(s, mod.path, f'statement {type(s).__name__} in class {cname}')
        if fields != rec['order']:
            raise U(c, mod.path, f'{cname}: fields {fields}, the model constructor {rec["ctor"]} expects {rec["order"]}')

    def field_defaults(self, key, cname):
        k = ('defaults', cname)
        if k in self.checked:
            return self.checked[k]
        mod, rec, out = self.mods[key], RECORDS[cname], {}
        for s in mod.classes[cname].body:
            if isinstance(s, ast.AnnAssign) and s.value is not None:
                f = s.target.id
                ty = rec['ty'][f]
                t, _ = tr(s.value, Env(self, mod, new_state(cname, None, 'pure')), ty)
                self.emit(mod.coqmod, f'Definition {cname}__default_{f} (K : fops) : {coq_ty(ty)} := {t}.')
                out[f] = f'{mod.coqmod}.{cname}__default_{f}'
        self.checked[k] = out
        return out

    def network_new(self, node, path):
        k = ('py_network', 'Network__new')
        if k not in self.sigs:
            mod = self.mods['network']
            self.order_check(mod, node, path)
            if '__post_init__' not in self.class_methods(mod, 'Network'):
                raise U(mod.classes['Network'], mod.path, 'Network without __post_init__')
            _, pi, _ = self.member('Network', '__post_init__', node, path)
            if not (pi.monadic and pi.ret == UNIT and len(pi.params) == 1):
                raise U(mod.classes['Network'], mod.path, 'Network.__post_init__ never raises / has parameters')
            self.field_defaults('network', 'Network')
            rec = RECORDS['Network']
            binders = ' '.join(f"({f}' : {coq_ty(rec['ty'][f])})" for f in rec['order'])
            args = ' '.join(f"{f}'" for f in rec['order'])
            self.emit('py_network', "(* Network(...): dataclass __init__, then __post_init__ *)\n"
                      f"Definition Network__new (K : fops) {binders} : res (network K) :=\n"
                      f"  let self' := {rec['ctor']} {args} in bind ({pi.coqname} K self') (fun _ => Ok self').")
            self.sigs[k] = Sig('py_network.Network__new', [(f, rec['ty'][f]) for f in rec['order']], NET, True)
        return self.sigs[k]

    def is_exception_class(self, key, cname):
        mod = self.mods[key]
        c = mod.classes[cname]
        return len(c.bases) == 1 and isinstance(c.bases[0], ast.Name) and c.bases[0].id == 'Exception' \
            and not c.decorator_list and not c.keywords and is_stub_body(c.body) and self.resolve(mod, 'Exception') is None

    def protocol_attr(self, attr, node=None, path=''):
        mod = self.mods['elements']
        k = ('py_elements', f'get_{attr}')
        if k in self.sigs:
            return self.sigs[k].coqname, self.sigs[k].ret
        self.check_protocol()
        if attr not in PROTOCOL_ANN:
            raise U(node, path, f'{PROTOCOL} has no property {attr}')
        self.order_check(mod, node, path)
        self.cur.append('py_elements')
        try:
            rows = []
            for cname, rec in RECORDS.items():
                if rec.get('union') != ELEM:
                    continue
                self.check_record('elements', cname)
                binders = ' '.join(f"{f}'" for f in rec['order'])
                fields = {f: (f"{f}'", rec['ty'][f]) for f in rec['order']}
                if attr in fields:
                    rows.append((rec['ctor'], binders, fields[attr][0], fields[attr][1], f'field of {cname}'))
                    continue
                ms = self.class_methods(mod, cname)
                if attr not in ms:
                    raise U(mod.classes[cname], mod.path, f'{cname} has neither a field nor a property {attr}')
                f = ms[attr]
                if decorators(f, mod.path, ('property',)) != ['property'] or len(f.args.args) != 1 or f.args.defaults:
                    raise U(f, mod.path, f'{cname}.{attr} is not a property')
                want = ANN.get(PROTOCOL_ANN[attr][0])
                if f.returns is None or ast.unparse(f.returns) != PROTOCOL_ANN[attr][0]:
                    raise U(f, mod.path, f'{cname}.{attr}: return annotation')
                env = Env(self, mod, new_state(f'{cname}.{attr}', None, 'pure'))
                env.vars['self'] = ("self'", ('self', cname))
                env.selffields = fields
                body = tr_stmts(f.body, env)
                if env.state['monadic']:
                    raise U(f, mod.path, f'{cname}.{attr} can raise')
                if 'excval' in env.state:
                    self.excvals.append((cname, attr, env.state['excval']))
                rty = env.state['ret']
                if rty not in (want, OPTK):
                    raise U(f, mod.path, f'{cname}.{attr} returns {rty}')
                rows.append((rec['ctor'], binders, body, rty, f'{cname}.{attr}, line {f.lineno}'))
            ty = rows[0][3]
            for r in rows[1:]:
                ty = join(ty, r[3], node, Env(self, mod, new_state(attr, None, 'pure')))
            if PROTOCOL_ANN[attr][1] is not None and ty != PROTOCOL_ANN[attr][1]:
                raise Unsupported(f'{mod.path}: {PROTOCOL}.{attr} has type {ty}')
            lines = [f'Definition get_{attr} (K : fops) (e : elem K) : {coq_ty(ty)} :=', '  match e with']
            for ctor, binders, body, rty, what in rows:
                e0 = Env(self, mod, new_state(attr, None, 'pure'))
                lines.append(f'  | {ctor} {binders} => {coerce(body, rty, ty, node, e0)}   (* {what} *)')
            lines.append('  end.')
            self.emit('py_elements', '\n'.join(lines))
            self.sigs[k] = Sig(f'py_elements.get_{attr}', [('e', ELEM)], ty, False)
            return self.sigs[k].coqname, ty
        finally:
            self.cur.pop()

    def check_protocol(self):
        if 'protocol' in self.checked:
            return
        self.checked['protocol'] = True
        mod = self.mods['elements']
        if PROTOCOL not in mod.classes:
            raise Unsupported(f'{mod.path}: class {PROTOCOL} not found')
        c = mod.classes[PROTOCOL]
        if not (len(c.bases) == 1 and isinstance(c.bases[0], ast.Name) and c.bases[0].id == 'Protocol' and not c.decorator_list):
            raise U(c, mod.path, f'{PROTOCOL} is not a Protocol')
        seen = []
        for s in c.body:
            if isinstance(s, ast.Expr) and isinstance(s.value, ast.Constant):
                continue
            if not (isinstance(s, ast.FunctionDef) and decorators(s, mod.path, ('property',)) == ['property']
                    and is_stub_body(s.body) and s.name in PROTOCOL_ANN and s.returns is not None
                    and ast.unparse(s.returns) == PROTOCOL_ANN[s.name][0]):
                raise U(s, mod.path, f'{PROTOCOL}: member other than a known property stub')
            seen.append(s.name)
        if sorted(seen) != sorted(PROTOCOL_ANN):
            raise U(c, mod.path, f'{PROTOCOL}: properties {seen}')

    def check_solution_classes(self):
        if 'solution' in self.checked:
            return
        self.checked['solution'] = True
        bm, sm = self.mods['bias_point_analysis'], self.mods['solution']
        if SOL_BASE not in sm.classes or SOL_SUB not in bm.classes:
            raise Unsupported(f'{sm.path}: classes {SOL_BASE} / {SOL_SUB} not found')
        b, s = sm.classes[SOL_BASE], bm.classes[SOL_SUB]
        if 'dataclass' not in decorators(b, sm.path, ('dataclass',)) or [ast.unparse(x) for x in b.bases] != ['ABC']:
            raise U(b, sm.path, f'{SOL_BASE} is not a @dataclass deriving from ABC')
        if 'dataclass' not in decorators(s, bm.path, ('dataclass',)) or [ast.unparse(x) for x in s.bases] != [SOL_BASE] \
                or self.resolve(bm, SOL_BASE) != ('class', 'solution', SOL_BASE):
            raise U(s, bm.path, f'{SOL_SUB} is not a @dataclass deriving from {SOL_BASE}')
        fields = [(x.target.id, ast.unparse(x.annotation)) for x in b.body if isinstance(x, ast.AnnAssign)]
        want = [('network', 'Network'), ('node_mapper', 'map.NetworkMapper'), ('current_source_mapper', 'map.SourceIndexMapper'),
                ('voltage_source_mapper', 'map.SourceIndexMapper')]
        if fields != want:
            raise U(b, sm.path, f'{SOL_BASE}: fields {fields}')
        for c, m in ((b, sm), (s, bm)):
            for x in c.body:
                if isinstance(x, ast.AnnAssign):
                    if c is s:
                        raise U(x, m.path, f'{SOL_SUB} declares a field')
                elif not (isinstance(x, ast.FunctionDef) or (isinstance(x, ast.Expr) and isinstance(x.value, ast.Constant))):
                    raise U(x, m.path, f'statement {type(x).__name__} in class {c.name}')
        # _solution_vector is only assigned in __post_init__ (the linear solve, modelled in Model/Network.v)
        for c, m in ((b, sm), (s, bm)):
            for f in self.class_methods(m, c.name).values():
                if f.name == '__post_init__':
                    continue
                for n in ast.walk(f):
                    if isinstance(n, (ast.Assign, ast.AugAssign, ast.AnnAssign)):
                        tg = n.targets if isinstance(n, ast.Assign) else [n.target]
                        if any(isinstance(t, ast.Attribute) for t in tg):
                            raise U(n, m.path, 'attribute assignment outside __post_init__')

    def is_static_helper(self, mod, f):
        """`@staticmethod def _name(...)` in one of the solution classes: a helper without access to the solution object.
        It is NOT translated.  The only way translated code could reach it is `self._name` / `Class._name`, and both are
        refused (`member` accepts property / abstractmethod only; attributes of a class name are refused), so it can only
        belong to the deliberately untranslated part (__post_init__, the linear solve)."""
        d = f.decorator_list
        return (len(d) == 1 and isinstance(d[0], ast.Name) and d[0].id == 'staticmethod' and self.resolve(mod, 'staticmethod') is None
                and f.name.startswith('_') and not f.name.startswith('__'))

    def sol_mapper_default(self, field, node, path):
        k = ('py_nodal', f'{SOL_BASE}__default_{field}')
        if k not in self.sigs:
            self.check_solution_classes()
            sm = self.mods['solution']
            val = [x.value for x in sm.classes[SOL_BASE].body if isinstance(x, ast.AnnAssign) and x.target.id == field][0]
            r = None
            if isinstance(val, ast.Attribute) and isinstance(val.value, ast.Name):
                imp = sm.imports.get(val.value.id)
                if imp and imp[0] == 'module' and imp[1]:
                    r = self.resolve(self.mods[imp[1]], val.attr)
            elif isinstance(val, ast.Name):
                r = self.resolve(sm, val.id)
            if not (r and r[0] == 'func'):
                raise U(val or node, sm.path, f'{SOL_BASE}.{field}: default is not a known mapper function')
            target = self.function(r[1], r[2], node, path)
            if target.monadic or len(target.params) != 1 or target.params[0][1] != NET or target.ret != MAPPING:
                raise U(val, sm.path, f'{SOL_BASE}.{field}: default mapper has an unexpected signature')
            self.emit('py_nodal', f'(* {SOL_BASE}.{field} = {ast.unparse(val)}: solutions are built with the default mappers *)\n'
                      f'Definition {k[1]} (K : fops) := {target.coqname} K.')
            self.sigs[k] = Sig(f'py_nodal.{k[1]}', target.params, target.ret, False)
        return self.sigs[k]


    # ---------------- driver
    def run(self):
        for key, _, coqmod in FILES:
            mod = self.mods[key]
            self.cur = [coqmod]
            for cname, c in mod.classes.items():
                if cname in SKIP_CLASSES.get(key, ()):
                    continue
                if cname == PROTOCOL and key == 'elements':
                    self.check_protocol()
                    for a in PROTOCOL_ANN:
                        self.protocol_attr(a, c, mod.path)
                elif cname in RECORDS and key == ('elements' if RECORDS[cname].get('union') else 'network'):
                    self.check_record(key, cname)
                    if RECORDS[cname].get('union'):
                        for m in self.class_methods(mod, cname):
                            if m not in PROTOCOL_ANN:
                                raise U(c, mod.path, f'{cname}.{m}: method outside the {PROTOCOL} protocol')
                    else:
                        self.field_defaults(key, cname)
                        for m in self.class_methods(mod, cname):
                            if m not in SKIP_METHODS.get(cname, ()):
                                self.member(cname, m, c, mod.path)
                        if cname == 'Network':
                            self.network_new(c, mod.path)
                elif (cname, key) in ((SOL_BASE, 'solution'), (SOL_SUB, 'bias_point_analysis')):
                    self.check_solution_classes()
                    for m, f in self.class_methods(mod, cname).items():
                        if m in SKIP_METHODS.get(cname, ()) or self.is_static_helper(mod, f):
                            continue
                        if 'abstractmethod' in decorators(f, mod.path, ('property', 'abstractmethod')):
                            continue
                        self.member(SOL_SUB, m, c, mod.path)
                elif self.is_exception_class(key, cname):
                    continue
                else:
                    raise U(c, mod.path, f'class {cname}')
            for name in mod.funcs:
                # private helpers (_name) are translated on demand, when a translated definition calls them
                if name not in SKIP_FUNCS[key] and not is_private(name):
                    self.function(key, name, mod.funcs[name], mod.path)
            for a, target in mod.aliases.items():
                r = self.resolve(mod, a)
                if not (r and r[0] == 'func'):
                    raise Unsupported(f'{mod.path}: alias {a} = {target} is not a function')
                sig = self.function(r[1], r[2])
                self.emit(coqmod, f'(* {a} = {target} *)\nDefinition {a} (K : fops) := {sig.coqname} K.')
        self.cur = []
        # private helpers no translated definition refers to: they belong to the untranslated part (SKIP_*); named in the output
        self.unreached = [f'{os.path.basename(self.mods[key].path)}: {name}' for key, _, _ in FILES
                          for name in self.mods[key].funcs
                          if is_private(name) and (self.mods[key].coqmod, name) not in self.sigs]

    def text(self):
        L = ['(* GENERATED by tools/gen_network.py from /repo/src/CircuitCalculator/Network — do not edit.',
             '   elements.py, network.py, NodalAnalysis/label_mapping.py, NodalAnalysis/solution.py,',
             '   NodalAnalysis/bias_point_analysis.py, transformers.py: a compositional image of the Python source over the',
             '   data types of Model/Network.v and the primitives of Model/NetworkPrims.v.  Python local x is x\'; t1, t2, ...',
             '   are the values of sub-expressions that can raise, bound in evaluation order.',
             '   Every definition is proved equal to the hand-written model in Theory/NetworkGenThm.v. *)',
             'From Coq Require Import List Bool NArith Arith.',
             'From CC Require Import Theory.Field Model.Network Model.Transformers Model.NetworkPrims.',
             'Import ListNotations.',
             '(* unfolding hints for the module-private helper functions (def _name) of the source, filled below *)',
             'Create HintDb py_private.', '']
        for c in self.coqmods:
            L.append(f'Module {c}.')
            L.extend(self.out[c])
            L.append(f'End {c}.')
            L.append('')
        if self.unreached:
            L.append('(* private helpers that no translated definition calls (used by untranslated code only), not translated:')
            L.extend(f'     {u}' for u in self.unreached)
            L.append('*)')
        L.append('(* what each `except ZeroDivisionError` handler returns: (class, property, inf | nan) *)')
        L.append('Definition zero_division_values : list (label * label * label) := [')
        L.append(';\n'.join(f'  ({S(c)}, {S(a)}, {S(v)}) (* {c}.{a}: np.{v} *)' for c, a, v in self.excvals))
        L.append('].')
        return '\n'.join(L) + '\n'


def generate(src):
    try:
        g = Gen(src)
        g.run()
        return {'NetworkGen.v': g.text()}
    except (Unsupported, OSError, SyntaxError):
        raise
    except Exception as e:      # a shape the translator did not anticipate: refuse, never guess
        raise Unsupported(f'gen_network: internal {type(e).__name__}: {e}') from e
