#!/usr/bin/env python3
"""Mutation check of the transformers.py translator (tools/gen_transformers.py) and of the equalities over its output.
For every edit below: copy the Python source tree, apply the edit to the COPY of Circuit/transformers.py, run all gen_*.py
translators on the copy (as py2v.py does with VERIF_REPO), write the result into a private copy of coq/ and rebuild
Properties/C07.vo and Properties/C07c.vo there with `make -k`.  Reported per edit: refused by the translator (message),
or the lemmas that stop compiling, or `passes`.
usage: mutcheck_transformers.py [--src /repo/src/CircuitCalculator] [--work DIR] [--only NAME ...]"""
import argparse
import importlib
import os
import re
import shutil
import subprocess
import sys

HERE = os.path.dirname(os.path.abspath(__file__))
sys.path.insert(0, HERE)
from v2lib import Unsupported  # noqa: E402

T = 'Circuit/transformers.py'
# (name, expectation, [(old, new, occurrence index or None for "exactly once")])
EDITS = [
    ('M01 swapped keys R/X in impedance', 'caught',
     [("float(impedance.value['R']),\n        float(impedance.value['X'])",
       "float(impedance.value['X']),\n        float(impedance.value['R'])", None)]),
    ('M02 capacitor B=w*C -> B=C', 'caught', [('admittance_value(B=w*C)', 'admittance_value(B=C)', None)]),
    ('M03 dc_voltage_source `>` -> `>=`', 'caught',
     [("if np.abs(w-float(voltage_source.value['w'])) > w_resolution:", "if np.abs(w-float(voltage_source.value['w'])) >= w_resolution:", 0)]),
    ('M04 ac_voltage_source drops the phase (cis)', 'caught',
     [('elm.complex_value(vs_V, vs_phi)', 'elm.complex_value(vs_V, 0)', None)]),
    ('M05 dc_current_source off-frequency: short instead of open circuit', 'caught',
     [('element = elm.open_circuit(current_source.id)', 'element = elm.short_circuit(current_source.id)', 0)]),
    ('M06 resistor terminals swapped', 'caught',
     [('ntw.Branch(resistor.nodes[0], resistor.nodes[1],', 'ntw.Branch(resistor.nodes[1], resistor.nodes[0],', None)]),
    ('M07 periodic_voltage_source: R= argument dropped (the bug fixed by 735295e)', 'caught',
     [("        V=frequency_properties.amplitude(n),\n        R=float(source.value['R'])\n",
       "        V=frequency_properties.amplitude(n)\n", None)]),
    ('M08 periodic_current_source: np.round -> np.floor', 'caught', [('n = np.round(w/w0)', 'n = np.floor(w/w0)', 1)]),
    ('M09 periodic_voltage_source: `delta_n >` -> `delta_n >=`', 'caught',
     [('if delta_n > w_resolution/w0:', 'if delta_n >= w_resolution/w0:', 0)]),
    ("M10 table: 'lamp' -> resistor", 'caught', [("'lamp' : resistive_load", "'lamp' : resistor", None)]),
    ("M11 ac_current_source reads value['V'] for the amplitude", 'caught',
     [("cs_I = float(current_source.value['I'])\n    cs_G = float(current_source.value['G'])\n    cs_w = float(current_source.value['w'])\n    cs_phi",
       "cs_I = float(current_source.value['V'])\n    cs_G = float(current_source.value['G'])\n    cs_w = float(current_source.value['w'])\n    cs_phi", None)]),
    ('M12 inductance: impedance_value(X=w*L) -> impedance_value(R=w*L)', 'caught',
     [('elm.impedance_value(X=w*L)', 'elm.impedance_value(R=w*L)', None)]),
    ('M13 dc_voltage_source: elm.voltage_source(id, Z, V)', 'caught',
     [('element = elm.voltage_source(voltage_source.id, V, Z)', 'element = elm.voltage_source(voltage_source.id, Z, V)', None)]),
    ('M14 periodic_voltage_source: amplitude=phi, phase=V', 'caught',
     [('amplitude=V, phase=phi', 'amplitude=phi, phase=V', None)]),
    ('M15 periodic_current_source: phase of harmonic n+1', 'caught',
     [('phi=frequency_properties.phase(n),\n        I=', 'phi=frequency_properties.phase(n+1),\n        I=', None)]),
    ('M16 periodic_voltage_source: the on-frequency source is built with w=w0', 'caught',
     [('        w=w,\n        phi=frequency_properties.phase(n),\n        V=', '        w=w0,\n        phi=frequency_properties.phase(n),\n        V=', None)]),
    ('M17 complex_current_source: G and B swapped', 'caught',
     [("float(current_source.value['G']),\n        float(current_source.value['B'])",
       "float(current_source.value['B']),\n        float(current_source.value['G'])", None)]),
    ('M18 resistive_load: V_ref and P swapped', 'caught',
     [("float(load.value['P']), float(load.value['V_ref'])", "float(load.value['V_ref']), float(load.value['P'])", None)]),
    ('M19 conductance built with elm.resistor', 'caught',
     [('elm.conductor(conductance.id, G)', 'elm.resistor(conductance.id, G)', None)]),
    ('M20 short_circuit returns an open circuit', 'caught',
     [('elm.short_circuit(short_circuit.id)', 'elm.open_circuit(short_circuit.id)', None)]),
    ('M21 capacitor reads a defaulted key: value.get', 'caught',
     [("C = float(capacitor.value['C'])", "C = float(capacitor.value.get('C', 0))", None)]),
    ('M22 inductance w*L -> L*w (harmless over floats; not provable without the field laws)', 'caught',
     [('impedance_value(X=w*L)', 'impedance_value(X=L*w)', None)]),
    # ---- harmless rewrites
    ('H01 ac_voltage_source: local vs_V renamed', 'passes', [('vs_V', 'amplitude', 'all')]),
    ('H02 ac_voltage_source: the reads of V and phi reordered', 'passes',
     [("    vs_V = float(voltage_source.value['V'])\n    vs_phi = float(voltage_source.value['phi'])\n",
       "    vs_phi = float(voltage_source.value['phi'])\n    vs_V = float(voltage_source.value['V'])\n", None)]),
    ('H03 dc_current_source: parameter w_resolution renamed', 'passes',
     [('def dc_current_source(current_source: ccp.Component, w: float = 0, w_resolution: float = 1e-3) -> ntw.Branch:\n'
       "    cs_I = float(current_source.value['I'])\n    cs_G = float(current_source.value['G'])\n    cs_w = float(current_source.value['w'])\n"
       '    element = elm.current_source(current_source.id, elm.complex_value(cs_I, 0), elm.complex_value(cs_G, 0))\n'
       '    if np.abs(w-cs_w) > w_resolution:',
       'def dc_current_source(current_source: ccp.Component, omega: float = 0, tol: float = 1e-3) -> ntw.Branch:\n'
       "    cs_I = float(current_source.value['I'])\n    cs_G = float(current_source.value['G'])\n    cs_w = float(current_source.value['w'])\n"
       '    element = elm.current_source(current_source.id, elm.complex_value(cs_I, 0), elm.complex_value(cs_G, 0))\n'
       '    if np.abs(omega-cs_w) > tol:', None)]),
    ('H04 dc_current_source: cs_w inlined into the test (read after the element is built)', 'passes',
     [("    cs_w = float(current_source.value['w'])\n    element = elm.current_source(current_source.id, elm.complex_value(cs_I, 0), elm.complex_value(cs_G, 0))\n    if np.abs(w-cs_w) > w_resolution:",
       "    element = elm.current_source(current_source.id, elm.complex_value(cs_I, 0), elm.complex_value(cs_G, 0))\n    if np.abs(w-float(current_source.value['w'])) > w_resolution:", None)]),
    ('H05 ac_current_source: elm.complex_value(cs_G) -> elm.complex_value(cs_G, 0)', 'passes',
     [('elm.complex_value(cs_G))', 'elm.complex_value(cs_G, 0))', None)]),
    ('H06 resistor: element bound to a local first', 'passes',
     [("    return ntw.Branch(resistor.nodes[0], resistor.nodes[1], elm.resistor(resistor.id, R))",
       "    element = elm.resistor(resistor.id, R)\n    return ntw.Branch(resistor.nodes[0], resistor.nodes[1], element)", None)]),
    ('H07 periodic_voltage_source: locals renamed, delta_n inlined', 'passes',
     [("    delta_n = np.abs(w/w0 - n)\n    if delta_n > w_resolution/w0:\n        return ntw.Branch(\n            source.nodes[0],\n            source.nodes[1],\n            elm.short_circuit(source.id))",
       "    if np.abs(w/w0 - n) > w_resolution/w0:\n        return ntw.Branch(\n            source.nodes[0],\n            source.nodes[1],\n            elm.short_circuit(source.id))", None),
      ('single_frequency_source', 'sfs', 'first2')]),
    ('H08 capacitor: admittance_value(B=w*C) -> complex(0, w*C)', 'passes',
     [('elm.admittance_value(B=w*C)', 'complex(0, w*C)', None)]),
]


def apply_edits(text, edits, name):
    for old, new, occ in edits:
        n = text.count(old)
        if occ is None:
            if n != 1:
                raise SystemExit(f'{name}: pattern occurs {n} times (expected once): {old!r}')
            text = text.replace(old, new)
        elif occ == 'all':
            if n == 0:
                raise SystemExit(f'{name}: pattern absent: {old!r}')
            text = text.replace(old, new)
        elif occ == 'first2':
            if n < 2:
                raise SystemExit(f'{name}: pattern occurs {n} times: {old!r}')
            text = text.replace(old, new, 2)
        else:
            parts = text.split(old)
            if len(parts) - 1 <= occ:
                raise SystemExit(f'{name}: pattern occurs {n} times, occurrence {occ} wanted: {old!r}')
            text = old.join(parts[:occ + 1]) + new + old.join(parts[occ + 1:])
    return text


def enclosing(vfile, line):
    """name of the Lemma/Theorem/Example/Definition enclosing a line of a .v file"""
    name = '?'
    with open(vfile, encoding='utf-8') as f:
        for i, l in enumerate(f, 1):
            m = re.match(r'\s*(Lemma|Theorem|Example|Definition|Fixpoint|Corollary)\s+([A-Za-z0-9_\']+)', l)
            if m:
                name = m.group(2)
            if i >= line:
                break
    return name


def write_if_changed(path, text):
    if os.path.exists(path) and open(path, encoding='utf-8').read() == text:
        return
    with open(path, 'w', encoding='utf-8') as f:
        f.write(text)


def generate_all(src):
    out = {}
    for name in sorted(os.listdir(HERE)):
        if name.startswith('gen_') and name.endswith('.py'):
            out.update(importlib.import_module(name[:-3]).generate(src))
    return out


def main():
    ap = argparse.ArgumentParser()
    ap.add_argument('--src', default=os.path.join(os.environ.get('VERIF_REPO', '/repo'), 'src', 'CircuitCalculator'))
    ap.add_argument('--work', default='/tmp/mutcheck_transformers')
    ap.add_argument('--only', nargs='*')
    a = ap.parse_args()
    coq0 = os.path.join(os.path.dirname(HERE), 'coq')
    coq = os.path.join(a.work, 'coq')
    if not os.path.isdir(coq):
        os.makedirs(a.work, exist_ok=True)
        shutil.copytree(coq0, coq)          # compiled copy; rebuilt incrementally
    rows = []
    for name, expect, edits in EDITS + [('(restore: unmodified source)', 'passes', [])]:
        if a.only and not any(name.startswith(o) for o in a.only) and edits:
            continue
        srcm = os.path.join(a.work, 'repo', 'src', 'CircuitCalculator')
        shutil.rmtree(os.path.join(a.work, 'repo'), ignore_errors=True)
        shutil.copytree(a.src, srcm)
        p = os.path.join(srcm, *T.split('/'))
        write_if_changed(p, apply_edits(open(p, encoding='utf-8').read(), edits, name))
        try:
            files = generate_all(srcm)
        except Unsupported as e:
            msg = str(e).replace(srcm + '/', '')
            rows.append((name, expect, 'caught', 'translator refuses: ' + msg))
            print(rows[-1], flush=True)
            continue
        for fn, text in files.items():
            write_if_changed(os.path.join(coq, 'Gen', fn), text)
        r = subprocess.run(['timeout', '1800', 'make', '-k', '-j4', 'Properties/C07c.vo', 'Properties/C07.vo', 'Properties/C07b.vo'],
                           cwd=coq, capture_output=True, text=True)
        errs = []
        for m in re.finditer(r'File "\./([^"]+)", line (\d+)', r.stdout + r.stderr):
            lemma = enclosing(os.path.join(coq, m.group(1)), int(m.group(2)))
            errs.append(f'{m.group(1)}: {lemma}')
        if r.returncode == 0 and not errs:
            rows.append((name, expect, 'passes', 'all of C07, C07b, C07c compile'))
        else:
            rows.append((name, expect, 'caught', 'stops compiling: ' + '; '.join(dict.fromkeys(errs)) if errs
                         else 'make failed: ' + (r.stderr.strip().splitlines() or ['?'])[-1]))
        print(rows[-1], flush=True)
    print()
    bad = 0
    for name, expect, got, detail in rows:
        flag = '' if expect == got else '   <-- UNEXPECTED'
        bad += expect != got
        print(f'{name}\n    {got}: {detail}{flag}')
    return 1 if bad else 0


if __name__ == '__main__':
    sys.exit(main())
