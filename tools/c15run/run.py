import json, os, re, shutil, subprocess, sys, glob
W = '/tmp/pw/c15run'
MUTS = {
 'M1-reverse-not-saved': ('SimpleCircuit/dump_load.py', "        reverse=e.is_reverse,\n", ""),
 'M2-userparams-key-renamed': ('SimpleCircuit/dump_load.py', None, None),
 'M3-type-dropped-from-table': ('SimpleCircuit/dump_load.py', "    'rect_current_source' : lambda **kwargs: simple_circuit_elements.RectCurrentSource(**kwargs),\n", ""),
 'M4-V-not-negated-under-reverse': ('SimpleCircuit/Elements.py', None, None),
 'M5-sin-shift-dropped': ('SimpleCircuit/Elements.py', None, None),
 'M6-deg-ignored-by-translator': ('SimpleCircuit/CircuitComponentTranslators.py', None, None),
 'M7-terminals-swapped-capacitor': ('SimpleCircuit/CircuitComponentTranslators.py', "return ccp.capacitor(nodes=(nodes[0], nodes[1])", "return ccp.capacitor(nodes=(nodes[1], nodes[0])"),
 'M8-flags-not-cleared-on-load': ('SimpleCircuit/dump_load.py', "            kwargs.update({flag: False for flag in ('deg', 'sin') if flag in kwargs})\n", "            pass\n"),
 'M9-combine-swaps-real-imag': ('SimpleCircuit/dump_load.py', "complex(kv.pop(real_imag[0], 0), kv.pop(real_imag[1], 0))", "complex(kv.pop(real_imag[1], 0), kv.pop(real_imag[0], 0))"),
 'M10-circuit-values-not-merged': ('SimpleCircuit/dump_load.py', "        kwargs.update(circuit_dict[element_dict['name']])\n", ""),
 'M11-reverse-flag-not-restored': ('SimpleCircuit/dump_load.py', "    kwargs.update({'reverse': element_dict.get('reverse', False)})\n", ""),
 'M13-absanchors-not-restored': ('SimpleCircuit/dump_load.py', "    element.absanchors=deserialize_schemdraw_elements(element_dict['values']['absanchors'])\n", ""),
 'M12-rect-current-I-negated-twice': ('SimpleCircuit/CircuitComponentTranslators.py', None, None),
}
def special(name, text):
    if name.startswith('M2'):
        assert text.count("'_userparams'") == 2
        return text.replace("'_userparams'", "'userparams'")
    if name.startswith('M4'):
        i = text.index('class VoltageSource(')
        j = text.index("self._V = V if not reverse else -V", i)
        return text[:j] + "self._V = V" + text[j + len("self._V = V if not reverse else -V"):]
    if name.startswith('M5'):
        i = text.index('class ACVoltageSource(')
        j = text.index("            self._phi -= np.pi/2\n", i)
        return text[:j] + "            pass\n" + text[j + len("            self._phi -= np.pi/2\n"):]
    if name.startswith('M6'):
        i = text.index('def ac_current_source_translator(')
        s = "phi=element.phi*pi/180 if element.deg else element.phi"
        j = text.index(s, i)
        return text[:j] + "phi=element.phi" + text[j + len(s):]
    if name.startswith('M12'):
        i = text.index('def rect_current_source_translator(')
        s = "I=element.I if not element.is_reverse else -element.I"
        j = text.index(s, i)
        return text[:j] + "I=element.I" + text[j + len(s):]
only = sys.argv[1:]
for name, (rel, old, new) in MUTS.items():
    if only and not any(name.split('-')[0] == o for o in only):
        continue
    shutil.rmtree(f'{W}/repo_mut', ignore_errors=True)
    os.makedirs(f'{W}/repo_mut')
    shutil.copytree('/repo/src', f'{W}/repo_mut/src')
    for extra in os.listdir('/repo'):
        if extra not in ('src', '.git') and not os.path.exists(f'{W}/repo_mut/{extra}'):
            try:
                os.symlink(f'/repo/{extra}', f'{W}/repo_mut/{extra}')
            except OSError:
                pass
    p = f'{W}/repo_mut/src/CircuitCalculator/{rel}'
    text = open(p).read()
    if old is None:
        out = special(name, text)
    else:
        assert text.count(old) == 1, (name, text.count(old))
        out = text.replace(old, new)
    assert out != text
    open(p, 'w').write(out)
    for f in glob.glob(f'{W}/replays/C15_*'):
        os.remove(f)
    env = dict(os.environ, VERIF_REPO=f'{W}/repo_mut', VERIF_SEED='0')
    r = subprocess.run([f'{W}/check', 'C15', '--tier', 'quick'], env=env, capture_output=True, text=True, timeout=1800)
    keys = []
    for f in sorted(glob.glob(f'{W}/replays/C15_*')):
        o = json.load(open(f))
        keys.append(('PRINTED', o['key'], o['what'][:150]))
        for b in o['broken_obligations']:
            if b['key'] != o['key']:
                keys.append(('obligation', b['key'], b['what'][:150]))
    seen = set()
    print(f'== {name}: exit={r.returncode}; {r.stdout.strip().splitlines()[-1]}')
    for k in keys:
        if k[:2] not in seen:
            seen.add(k[:2])
            print('   ', k)
    sys.stdout.flush()
shutil.rmtree(f'{W}/repo_mut', ignore_errors=True)
for f in glob.glob(f'{W}/replays/C15_*'):
    os.remove(f)
