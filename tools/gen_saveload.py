"""Translator module: SimpleCircuit/dump_load.py, the `.type` properties of SimpleCircuit/Elements.py and the element part
of SimpleSimulation/schematic.py -> coq/Gen/SaveLoadGen.v, in the vocabulary of coq/Model/SaveLoadPrims.v.
Theory/SaveLoadGenThm.v proves the generated definitions equal to the hand model Model/SaveLoad.v (Properties/C15c.v).
Fail-closed: every construct outside the subset below raises Unsupported naming file:line and the construct.

=== SimpleCircuit/dump_load.py ===
Module level (anything else is refused; a name bound twice at module level is refused):
  import / from-import            the names the translation relies on must come from the expected module
                                  (simple_circuit_elements = .Elements, dictify_circuit = ..Circuit.dump_load,
                                  circuit_translator = .DiagramTranslator, Schematic = .Elements, dump_load = .., functools)
  class X(TypedDict | earlier X)  body: annotated fields only
  NAME = TypeVar(...)
  NAME = functools.partial(dump_load.F, KW=G)           -> g_entry_points
  NAME = {...}                    for schemdraw_serializers, schemdraw_deserializers (ignored: drawing objects),
                                  simple_circuit_element_types
  def f(...)                      undecorated; translated, pinned or ignored as listed below
  def _h(p, ...)                  private helper (one leading underscore, plain positional parameters without defaults): never
                                  translated on its own, inlined where undictify_element calls it (see below); a helper that is
                                  not called from there is refused
  _NAME = ('a', 'b', ...)         private tuple of string literals (immutable): only usable as `for x in _NAME`; refused if unused
  (the builtins type, dict, complex, setattr, getattr, hasattr, KeyError and the builtin types may not be rebound)
Ignored functions (third-party drawing state, not part of the symbol model): schemdraw_object_properties, listify_point,
  dictify_segment, dictify_segment_text, dictify_segment_circle, dictify_transform.
Pinned function (must be the reference text up to renaming of locals): deserialize_schemdraw_elements.
schemdraw_serializers   {TYPE: lambda}  TYPE a name or dotted name; lambda one of
  lambda x: x | lambda x: {k: serialize_schemdraw_element(v) for k, v in x.items()} |
  lambda x: [serialize_schemdraw_element(e) for e in x] | lambda x: schemdraw_object_properties(x, NAME)
serialize_schemdraw_element   s = schemdraw_serializers.get(type(e), lambda _: None); return s(e)   (or in one expression)
dictify_element(e)      return D(K=e.A, ..., K={'k': serialize_schemdraw_element(e.A), ...})  D a TypedDict class or a dict
                        literal; e.A among type, name, is_reverse; serialised A among _userparams, absanchors or the
                        drawing state (segments, params, anchors, transform, absdrop -> g_saved_drawing_state)
schematic_to_dict(d)    return [dictify_element(e) for e in d.elements]
dictify_all(s)          return {'k': dictify_circuit(circuit_translator(s)) | schematic_to_dict(s), ...}
combine_to_complex(p, z, kv)   kv.update({z: complex(kv.pop(p[i], INT), kv.pop(p[j], INT))}); return kv
simple_circuit_element_types   {'t': lambda **kw: simple_circuit_elements.C(**kw)
                                   | lambda **kw: simple_circuit_elements.C(**combine_to_complex(('a','b'), 'z', kw))
                                   | simple_circuit_elements.C}
undictify_element(element_dict, circuit_dict)  statements
  K = deserialize_schemdraw_elements(<doc>)            K becomes the keyword dictionary
  K.update({'k': <doc>, ...}) | K['k'] = <doc> | K.update(<dict of circuit_dict>)
  K.update({f: CONST for f in ('a', ...) if f in K})
  if <test>: <such updates, nested ifs>                 (no else)
  try: E = <ctor>  except KeyError: E = <ctor>          <ctor> = TABLE[<doc>](**K) | simple_circuit_elements.C(**K)
  E.A = deserialize_schemdraw_elements(<doc>)           A = absanchors, or drawing state (-> g_restored_drawing_state)
  return E
  <doc>  = element_dict | <doc>['k'] | <doc>.get('k', CONST)       <dict of circuit_dict> = circuit_dict[<doc>]
  <test> = <doc> in circuit_dict[.keys()] | 'k' in circuit_dict[<doc>] | 'k' in K
  additions (robh; each is reduced to the statements above, so that the refactored and the original code generate the same term):
  <test> = ... | not <test> | a not in c          the test without the negation, with the two branches exchanged
  if <test>: <updates> else: <updates>            -> let* K' := if t then (..; Ok K1) else (..; Ok K2) in; an empty branch is Ok K
  V = <doc> | V = circuit_dict[<doc>]             read-only local (while the element is not yet built): V is a new name that hides
                                                  no module-level name / builtin; only K itself may be updated (`V.update(..)`,
                                                  `V['k'] = ..` are refused, as is a second name for K), so V keeps denoting the
                                                  value read; a local bound inside an `if` is not visible after it
  _h(a, ...)  as a statement                      _h a private module-level helper: the arguments are evaluated left to right (a
                                                  <doc>, circuit_dict, circuit_dict[<doc>], or the name K itself, at most once),
                                                  then the body of _h is translated in place with the parameters bound to these
                                                  values (parameters hide no module-level name); the parameter that received K
                                                  stands for K (same object: its updates are K's), all others are read-only;
                                                  body = the statements above (updates, ifs, locals, helper calls, for); no
                                                  recursion, nested def / lambda / global / yield; the value of the call is unused
  if <test>: return   (bare, first level of a helper body)   the REMAINING statements of the helper are the else branch
                                                  (falling off the end returns None as the bare return does)
  for x in _NAME | ('a', ..) | ['a', ..]: <body>  unrolled: <body> once per literal, in order, x replaced by the literal; x is a new
                                                  name, not assigned in the body; no break / continue / return / else
  setattr(E, 'a', V)                              E.a = V   ('a' a literal identifier, after unrolling)
undictify_schematic(d)  S = Schematic(); CD = {c['k']: c['k2'] for c in <doc>};
                        S.elements.extend([undictify_element(e, CD) for e in <doc>]); return S
=== SimpleCircuit/Elements.py ===  for every top-level class: the string returned by its `type` property (a literal), if any.
=== SimpleSimulation/schematic.py (element part) ===
element_handlers   {'t': lambda kw: element_factory(elm.C, **kw) | (... if 'k' in kw.keys() else ...)}
element_factory(element, name=CONST, reverse=CONST, **kwargs)   first statement of the try: return element(name=name,
                   reverse=reverse, **kwargs); the handler only re-raises another exception type
transform_to_schematic_element   element['type'] (MissingArgument on KeyError), element_handlers[t](element)
                   (UnknownCircuitElement on KeyError)
apply_direction_and_length(element, direction=CONST, length=CONST, unit=CONST)   if/elif chain
                   direction == 'd': element.M(length*unit); return element
                   or the loop form (robh)  for x in _NAME | ('d', ..): if direction == x: getattr(element, x)(length*unit); break
                   which IS the if/elif chain over the literals in order (first hit runs its call and leaves the loop;
                   getattr(E, 'm') with a literal identifier is E.m) and is rewritten into it before the recognition above
module level (robh): private tuples of string literals `_NAME = ('a', ..)` (each must be iterated by apply_direction_and_length)
                   and private functions `_h` (each must be inlined into fill by gen_annotation, see there); getattr / setattr /
                   print / str may not be rebound
apply_position(element, origin_element=None)   None -> element, else element.at(origin_element.ANCHOR)
get_placed_element(schematic, label=None)      None -> None, else schematic.elements[[se.name for se in
                   schematic.elements].index(label)]
create_schematic   pinned (must be the reference text up to renaming of locals): the same unit for the drawing and for fill
fill               the loop `for e in elements:` transform / apply_direction_and_length(se, e.get(K, CONST), e.get(K, CONST),
                   unit) / apply_position(se, get_placed_element(schematic, e.get(K, CONST))) / schematic += se
"""
import ast
import copy
import os
import re

from v2lib import Unsupported, parse, where

DUMP_LOAD = ('SimpleCircuit', 'dump_load.py')
ELEMENTS = ('SimpleCircuit', 'Elements.py')
SCHEMATIC = ('SimpleSimulation', 'schematic.py')

KNOWN_CLASSES = {
    'Resistor': 'CResistor', 'Conductance': 'CConductance', 'Impedance': 'CImpedance', 'Admittance': 'CAdmittance',
    'Capacitor': 'CCapacitor', 'Inductance': 'CInductance', 'VoltageSource': 'CVoltageSource',
    'CurrentSource': 'CCurrentSource', 'ComplexVoltageSource': 'CComplexVoltageSource',
    'ComplexCurrentSource': 'CComplexCurrentSource', 'ACVoltageSource': 'CACVoltageSource',
    'ACCurrentSource': 'CACCurrentSource', 'RectVoltageSource': 'CRectVoltageSource',
    'RectCurrentSource': 'CRectCurrentSource', 'Ground': 'CGround', 'Line': 'CLine', 'Element': 'CElement'}
DRAWING_STATE = ('segments', 'params', 'anchors', 'transform', 'absdrop')
IGNORED_FUNCS = {'schemdraw_object_properties', 'listify_point', 'dictify_segment', 'dictify_segment_text',
                 'dictify_segment_circle', 'dictify_transform'}
IGNORED_TABLES = {'schemdraw_deserializers'}
TRANSLATED_FUNCS = {'serialize_schemdraw_element', 'dictify_element', 'schematic_to_dict', 'dictify_all', 'combine_to_complex',
                    'undictify_element', 'undictify_schematic'}
TRANSLATED_TABLES = {'schemdraw_serializers', 'simple_circuit_element_types'}
BUILTIN_TYPES = ('str', 'int', 'float', 'bool', 'dict', 'list', 'tuple', 'complex')
RESERVED_BUILTINS = ('type', 'dict', 'complex', 'setattr', 'getattr', 'hasattr', 'KeyError')


def is_private(name):
    return name.startswith('_') and not name.startswith('__')

PINNED = {'deserialize_schemdraw_elements': '''
def deserialize_schemdraw_elements(element):
    if type(element) == list:
        return [deserialize_schemdraw_elements(e) for e in element]
    if type(element) == dict:
        try:
            return schemdraw_deserializers[element['type']](element['values'])
        except KeyError:
            return {k: deserialize_schemdraw_elements(v) for k, v in element.items()}
    return element
'''}

# expected origin of the imported names the translation relies on: name -> (module, level, original name)
EXPECTED_IMPORTS = {
    'simple_circuit_elements': (None, 1, 'Elements'),
    'dictify_circuit': ('Circuit.dump_load', 2, 'dictify_circuit'),
    'circuit_translator': ('DiagramTranslator', 1, 'circuit_translator'),
    'Schematic': ('Elements', 1, 'Schematic'),
    'dump_load': (None, 2, 'dump_load'),
    'functools': ('functools', 0, None),
    'TypedDict': ('typing', 0, 'TypedDict'),
}


# ------------------------------------------------------------------ helpers
class Strings:
    """string literals of the source -> named Coq constants gk_<id> (precomputed code-point lists)"""

    def __init__(self):
        self.names = {}

    def __call__(self, s):
        if s not in self.names:
            base = 'gk_' + (re.sub(r'[^A-Za-z0-9_]', lambda mo: '_' if mo.group(0) in '. ' else f'u{ord(mo.group(0))}', s) if s else 'empty')
            name, i = base, 1
            while name in self.names.values():
                i += 1
                name = f'{base}_{i}'
            self.names[s] = name
        return self.names[s]

    def definitions(self):
        out = []
        for s, n in self.names.items():
            if all(32 <= ord(c) < 127 for c in s):
                esc = s.replace('"', '""')
                out.append(f'Definition {n} : label := Eval compute in lbl "{esc}".')
            else:                                   # code points, not UTF-8 bytes
                out.append(f'Definition {n} : label := [' + '; '.join(str(ord(c)) for c in s) + f']%N.   (* {s!r} *)')
        return out


def normalized(node):
    """ast.dump of a function / lambda with parameters, assigned locals and comprehension variables renamed in order
    of first binding, annotations, defaults-free; used to compare against reference shapes"""
    node = copy.deepcopy(node)
    bound = []

    def bind(name):
        if name not in bound:
            bound.append(name)

    for n in ast.walk(node):
        if isinstance(n, ast.arguments):
            for a in n.posonlyargs + n.args + n.kwonlyargs + ([n.vararg] if n.vararg else []) + ([n.kwarg] if n.kwarg else []):
                bind(a.arg)
                a.annotation = None
        elif isinstance(n, ast.comprehension):
            for t in ast.walk(n.target):
                if isinstance(t, ast.Name):
                    bind(t.id)
        elif isinstance(n, ast.Assign):
            for t in n.targets:
                if isinstance(t, ast.Name):
                    bind(t.id)
        elif isinstance(n, ast.FunctionDef):
            n.returns = None
    ren = {b: f'_v{i}' for i, b in enumerate(bound)}
    for n in ast.walk(node):
        if isinstance(n, ast.Name) and n.id in ren:
            n.id = ren[n.id]
        elif isinstance(n, ast.arg) and n.arg in ren:
            n.arg = ren[n.arg]
    return ast.dump(node, annotate_fields=False, include_attributes=False)


def norm_src(src, kind='expr'):
    t = ast.parse(src.strip(), mode='eval' if kind == 'expr' else 'exec')
    return normalized(t.body if kind == 'expr' else t.body[0])


def dotted(n):
    if isinstance(n, ast.Name):
        return n.id
    if isinstance(n, ast.Attribute):
        b = dotted(n.value)
        return None if b is None else b + '.' + n.attr
    return None


def const_str(n):
    return n.value if isinstance(n, ast.Constant) and isinstance(n.value, str) else None


def body_without_docstring(f):
    b = f.body
    if b and isinstance(b[0], ast.Expr) and isinstance(b[0].value, ast.Constant) and isinstance(b[0].value.value, str):
        return b[1:]
    return b


def plain_params(f, path, n=None, allow_defaults=False):
    a = f.args
    if a.vararg or a.kwarg or a.kwonlyargs or a.posonlyargs or (a.defaults and not allow_defaults) or a.kw_defaults:
        raise Unsupported(f'{where(f, path)}: {f.name}: parameter list outside the subset')
    if f.decorator_list:
        raise Unsupported(f'{where(f, path)}: {f.name}: decorated function')
    ps = [x.arg for x in a.args]
    if n is not None and len(ps) != n:
        raise Unsupported(f'{where(f, path)}: {f.name}: {len(ps)} parameters, {n} expected')
    return ps


# ------------------------------------------------------------------ Elements.py: the `type` properties
def class_types(src):
    path = os.path.join(src, *ELEMENTS)
    tree = parse(path)
    out = {}
    for st in tree.body:
        if not isinstance(st, ast.ClassDef):
            continue
        if st.name in out:
            raise Unsupported(f'{where(st, path)}: class {st.name} defined twice')
        ty = None
        for m in st.body:
            if isinstance(m, ast.FunctionDef) and m.name == 'type':
                if not (len(m.decorator_list) == 1 and isinstance(m.decorator_list[0], ast.Name) and m.decorator_list[0].id == 'property'):
                    raise Unsupported(f'{where(m, path)}: {st.name}.type is not a plain @property')
                b = body_without_docstring(m)
                if len(b) == 1 and isinstance(b[0], ast.Expr) and isinstance(b[0].value, ast.Constant) and b[0].value.value is Ellipsis:
                    continue                      # abstract declaration
                if not (len(b) == 1 and isinstance(b[0], ast.Return) and const_str(b[0].value) is not None):
                    raise Unsupported(f'{where(m, path)}: {st.name}.type does not return a string literal')
                ty = b[0].value.value
            elif isinstance(m, (ast.Assign, ast.AnnAssign)):
                tg = m.targets[0] if isinstance(m, ast.Assign) else m.target
                if isinstance(tg, ast.Name) and tg.id == 'type':
                    raise Unsupported(f'{where(m, path)}: {st.name}: class attribute `type`')
        out[st.name] = ty
    return out


# ------------------------------------------------------------------ dump_load.py: module level
class Module:
    def __init__(self, src):
        self.path = os.path.join(src, *DUMP_LOAD)
        self.tree = parse(self.path)
        self.imports, self.typed_dicts, self.funcs, self.tables, self.partials = {}, {}, {}, {}, []
        self.helpers, self.consts = {}, {}
        bound = []
        p = self.path
        for st in self.tree.body:
            if isinstance(st, ast.Import):
                for a in st.names:
                    name = a.asname or a.name.split('.')[0]
                    self.imports[name] = (a.name if a.asname else a.name.split('.')[0], 0, None)
                    if name not in bound or not name.startswith('schemdraw'):
                        bound.append(name)
            elif isinstance(st, ast.ImportFrom):
                for a in st.names:
                    if a.name == '*':
                        raise Unsupported(f'{where(st, p)}: star import')
                    self.imports[a.asname or a.name] = (st.module, st.level, a.name)
                    bound.append(a.asname or a.name)
            elif isinstance(st, ast.ClassDef):
                self._typed_dict(st)
                bound.append(st.name)
            elif isinstance(st, ast.FunctionDef):
                if st.decorator_list:
                    raise Unsupported(f'{where(st, p)}: decorated function {st.name}')
                if is_private(st.name) and st.name not in TRANSLATED_FUNCS and st.name not in PINNED and st.name not in IGNORED_FUNCS:
                    self.helpers[st.name] = st          # inlined at its call sites, must be used
                else:
                    self.funcs[st.name] = st
                bound.append(st.name)
            elif isinstance(st, ast.Assign) and len(st.targets) == 1 and isinstance(st.targets[0], ast.Name):
                name, v = st.targets[0].id, st.value
                bound.append(name)
                if isinstance(v, ast.Dict):
                    self.tables[name] = v
                elif is_private(name) and isinstance(v, ast.Tuple) and v.elts and all(const_str(e) is not None for e in v.elts):
                    self.consts[name] = [e.value for e in v.elts]   # immutable: only `for x in NAME` may use it
                elif isinstance(v, ast.Call) and dotted(v.func) == 'TypeVar':
                    pass
                elif isinstance(v, ast.Call) and dotted(v.func) == 'functools.partial':
                    if not (len(v.args) == 1 and len(v.keywords) == 1 and v.keywords[0].arg and dotted(v.args[0])
                            and isinstance(v.keywords[0].value, ast.Name)):
                        raise Unsupported(f'{where(st, p)}: functools.partial call shape: {ast.unparse(v)}')
                    self.partials.append((name, dotted(v.args[0]), v.keywords[0].arg, v.keywords[0].value.id))
                else:
                    raise Unsupported(f'{where(st, p)}: module-level assignment {ast.unparse(st)}')
            else:
                raise Unsupported(f'{where(st, p)}: module-level statement {type(st).__name__}')
        dup = sorted({b for b in bound if bound.count(b) > 1} - {'schemdraw'})
        if dup:
            raise Unsupported(f'{p}: names bound more than once at module level: {dup}')
        self.bound = set(bound)
        for b in BUILTIN_TYPES + RESERVED_BUILTINS:
            if b in bound:
                raise Unsupported(f'{p}: builtin {b} rebound at module level')
        for name in self.funcs:
            if name not in TRANSLATED_FUNCS and name not in PINNED and name not in IGNORED_FUNCS:
                raise Unsupported(f'{where(self.funcs[name], p)}: function {name} is not one of the translated / pinned / ignored functions')
        for name in self.tables:
            if name not in TRANSLATED_TABLES and name not in IGNORED_TABLES:
                raise Unsupported(f'{where(self.tables[name], p)}: dict literal {name} is not one of the known tables')
        for name, exp in EXPECTED_IMPORTS.items():
            if self.imports.get(name) != exp:
                raise Unsupported(f'{p}: {name} is not imported from {exp} (found {self.imports.get(name)})')

    def _typed_dict(self, st):
        p = self.path
        if st.decorator_list or st.keywords:
            raise Unsupported(f'{where(st, p)}: class {st.name}: decorators / keywords')
        fields = []
        for b in st.bases:
            if isinstance(b, ast.Name) and b.id == 'TypedDict':
                continue
            if isinstance(b, ast.Name) and b.id in self.typed_dicts:
                fields += self.typed_dicts[b.id]
                continue
            raise Unsupported(f'{where(st, p)}: class {st.name}: base {ast.unparse(b)} is not a TypedDict')
        if not st.bases:
            raise Unsupported(f'{where(st, p)}: class {st.name} is not a TypedDict')
        for m in st.body:
            if isinstance(m, ast.AnnAssign) and isinstance(m.target, ast.Name) and m.value is None:
                fields.append(m.target.id)
            elif isinstance(m, ast.Pass):
                pass
            else:
                raise Unsupported(f'{where(m, p)}: class {st.name}: member other than an annotated field')
        self.typed_dicts[st.name] = fields

    def func(self, name):
        if name not in self.funcs:
            raise Unsupported(f'{self.path}: function {name} not found')
        return self.funcs[name]

    def table(self, name):
        if name not in self.tables:
            raise Unsupported(f'{self.path}: dict literal {name} not found')
        return self.tables[name]


# ------------------------------------------------------------------ the serialisers
SER_SHAPES = {
    norm_src('lambda x: x'): 'SerId',
    norm_src('lambda x: {k: serialize_schemdraw_element(v) for k, v in x.items()}'): 'SerDict',
    norm_src('lambda x: [serialize_schemdraw_element(e) for e in x]'): 'SerList',
}
SER_OBJECT = re.compile(r'^lambda (\w+): schemdraw_object_properties\(\1, (\w+)\)$')
SERIALIZE_SHAPES = {
    norm_src('def serialize_schemdraw_element(e):\n    s = schemdraw_serializers.get(type(e), lambda _: None)\n    return s(e)', 'stmt'),
    norm_src('def serialize_schemdraw_element(e):\n    return schemdraw_serializers.get(type(e), lambda _: None)(e)', 'stmt'),
}


def serializers(m, K):
    d = m.table('schemdraw_serializers')
    rows = []
    for k, v in zip(d.keys, d.values):
        ty = dotted(k) if k is not None else None
        if ty is None:
            raise Unsupported(f'{where(d, m.path)}: schemdraw_serializers: key {ast.unparse(k) if k else "**"} is not a (dotted) name')
        if not isinstance(v, ast.Lambda):
            raise Unsupported(f'{where(v, m.path)}: schemdraw_serializers[{ty}] is not a lambda')
        kind = SER_SHAPES.get(normalized(v))
        if kind is None:
            mo = SER_OBJECT.match(ast.unparse(v))
            if not mo:
                raise Unsupported(f'{where(v, m.path)}: schemdraw_serializers[{ty}]: lambda outside the subset: {ast.unparse(v)}')
            kind = f'SerObject {K(mo.group(2))}'
        rows.append((ty, kind))
    if len({t for t, _ in rows}) != len(rows):
        raise Unsupported(f'{where(d, m.path)}: schemdraw_serializers has duplicate keys')
    f = m.func('serialize_schemdraw_element')
    plain_params(f, m.path, 1)
    if normalized(f) not in SERIALIZE_SHAPES:
        raise Unsupported(f'{where(f, m.path)}: serialize_schemdraw_element is not '
                          '`s = schemdraw_serializers.get(type(e), lambda _: None); return s(e)`')
    return rows


def check_pinned(m):
    for name, ref in PINNED.items():
        f = m.func(name)
        if normalized(f) != norm_src(ref, 'stmt'):
            raise Unsupported(f'{where(f, m.path)}: {name} differs from the pinned reference text')


# ------------------------------------------------------------------ mini compiler of function bodies
class Block:
    def __init__(self, fn, env, cse=None):
        self.fn, self.env, self.lines, self.cse = fn, dict(env), [], dict(cse or {})

    def child(self):
        return Block(self.fn, self.env, self.cse)

    def let_res(self, code, base='x'):
        n = self.fn.fresh(base)
        self.lines.append(f'let* {n} := {code} in')
        return n

    def let_pure(self, code, base='x'):
        n = self.fn.fresh(base)
        self.lines.append(f'let {n} := {code} in')
        return n

    def render(self, final, indent):
        pad = ' ' * indent
        return '\n'.join(pad + l for chunk in self.lines + [final] for l in chunk.split('\n'))


class Fn:
    """one translated function: typed environment, fresh names, statements -> a chain of let / let* bindings"""

    def __init__(self, gen, f):
        self.gen, self.f, self.path, self.K = gen, f, gen.m.path, gen.K
        self.n = 0
        self.used = set()
        self.stack = []

    def fresh(self, base='x'):
        if base == 'x':
            self.n += 1
            return f'x{self.n}'
        i = 0
        while f'p_{base}{i}' in self.used:
            i += 1
        self.used.add(f'p_{base}{i}')
        return f'p_{base}{i}'

    def bad(self, node, what):
        return Unsupported(f'{where(node, self.path)}: {self.f.name}: {what}: {ast.unparse(node)}')

    # ---- constants
    def const(self, n):
        if isinstance(n, ast.Constant):
            v = n.value
            if isinstance(v, bool):
                return f'(JBool {str(v).lower()})'
            if isinstance(v, int):
                return f'(jint ({v})%Z)'
            if isinstance(v, str):
                return f'(JStr {self.K(v)})'
            if v is None:
                return 'JNull'
        raise self.bad(n, 'constant outside the subset (bool, int, str, None)')

    # ---- expressions; returns (atom, type)
    def ex(self, n, b):
        K = self.K
        if isinstance(n, ast.Name):
            if n.id in b.env:
                return b.env[n.id]
            raise self.bad(n, 'name not bound in the translated function')
        if isinstance(n, ast.Constant):
            return self.const(n), 'jv'
        if isinstance(n, ast.Subscript):
            base, bt = self.ex(n.value, b)
            if bt == 'jv':
                k = const_str(n.slice)
                if k is None:
                    raise self.bad(n, 'document subscript with a non-literal key')
                key = ('item', base, k)
                if key not in b.cse:
                    b.cse[key] = b.let_res(f'jfield {base} {K(k)}')
                return b.cse[key], 'jv'
            if bt == 'cdict':
                idx, it = self.ex(n.slice, b)
                if it != 'jv':
                    raise self.bad(n, 'circuit dictionary subscript')
                kk = self.key_of(idx, b)
                key = ('citem', base, kk)
                if key not in b.cse:
                    b.cse[key] = b.let_res(f'dict_item {base} {kk}')
                return b.cse[key], 'kwargs'
            raise self.bad(n, f'subscript of a value of type {bt}')
        if isinstance(n, ast.Call):
            return self.call(n, b)
        if isinstance(n, ast.Compare) and len(n.ops) == 1 and isinstance(n.ops[0], ast.In):
            return self.contains(n, b)
        if isinstance(n, ast.DictComp):
            return self.flag_comp(n, b)
        raise self.bad(n, 'expression outside the subset')

    def key_of(self, atom, b):
        key = ('key', atom)
        if key not in b.cse:
            b.cse[key] = b.let_res(f'as_key {atom}')
        return b.cse[key]

    def only_star_kwargs(self, c, b):
        if c.args or len(c.keywords) != 1 or c.keywords[0].arg is not None:
            raise self.bad(c, 'constructor call is not C(**kwargs)')
        a, t = self.ex(c.keywords[0].value, b)
        if t != 'kwargs':
            raise self.bad(c, '** of something that is not the keyword dictionary')
        return a

    def call(self, n, b):
        K, f = self.K, n.func
        if isinstance(f, ast.Attribute) and f.attr == 'get' and len(n.args) == 2 and not n.keywords:
            base, bt = self.ex(f.value, b)
            k = const_str(n.args[0])
            if bt != 'jv' or k is None:
                raise self.bad(n, '.get outside the subset')
            return b.let_res(f'jget_default {base} {K(k)} {self.const(n.args[1])}'), 'jv'
        if isinstance(f, ast.Name) and f.id == 'deserialize_schemdraw_elements' and len(n.args) == 1 and not n.keywords:
            a, t = self.ex(n.args[0], b)
            if t != 'jv':
                raise self.bad(n, 'deserialize_schemdraw_elements of a non-document')
            return b.let_res(f'deserialize_userparams {a}'), 'kwargs'
        if isinstance(f, ast.Subscript) and isinstance(f.value, ast.Name) and f.value.id in self.gen.fun_tables:
            kw = self.only_star_kwargs(n, b)
            idx, it = self.ex(f.slice, b)
            if it != 'jv':
                raise self.bad(n, 'table subscript')
            fn = b.let_res(f'table_item {self.gen.fun_tables[f.value.id]} {idx}')
            return b.let_res(f'{fn} {kw}'), 'symbol'
        if isinstance(f, ast.Attribute) and isinstance(f.value, ast.Name) and f.value.id == 'simple_circuit_elements':
            kw = self.only_star_kwargs(n, b)
            return b.let_res(f'new_element {self.gen.cls(f.attr, n)} {kw}'), 'symbol'
        if isinstance(f, ast.Name) and f.id == 'dictify_circuit' and len(n.args) == 1 and not n.keywords:
            c = n.args[0]
            if isinstance(c, ast.Call) and isinstance(c.func, ast.Name) and c.func.id == 'circuit_translator' and \
                    len(c.args) == 1 and not c.keywords:
                a, t = self.ex(c.args[0], b)
                if t == 'symbols':
                    return b.let_res(f'dictify_circuit_of {a}'), 'jv'
        if isinstance(f, ast.Name) and f.id == 'schematic_to_dict' and len(n.args) == 1 and not n.keywords:
            a, t = self.ex(n.args[0], b)
            if t == 'symbols':
                return f'(JList (g_schematic_to_dict {a}))', 'jv'
        raise self.bad(n, 'call outside the subset')

    def contains(self, n, b):
        K = self.K
        r = n.comparators[0]
        if isinstance(r, ast.Call) and isinstance(r.func, ast.Attribute) and r.func.attr == 'keys' and not r.args and not r.keywords:
            r = r.func.value
        cont, ct = self.ex(r, b)
        if ct == 'cdict':
            l, lt = self.ex(n.left, b)
            if lt != 'jv':
                raise self.bad(n, 'membership test')
            return f'(dhas {cont} {self.key_of(l, b)})', 'bool'
        if ct == 'kwargs':
            lk = const_str(n.left)
            if lk is None:
                raise self.bad(n, 'membership test of a non-literal in a keyword dictionary')
            return f'(dhas {cont} {K(lk)})', 'bool'
        raise self.bad(n, 'membership test outside the subset')

    def flag_comp(self, n, b):
        """{f: CONST for f in ('a', 'b') if f in K}"""
        if len(n.generators) != 1:
            raise self.bad(n, 'dict comprehension')
        g = n.generators[0]
        if not (isinstance(g.target, ast.Name) and not g.is_async and isinstance(g.iter, (ast.Tuple, ast.List))
                and all(const_str(e) is not None for e in g.iter.elts) and len(g.ifs) == 1
                and isinstance(n.key, ast.Name) and n.key.id == g.target.id and isinstance(n.value, ast.Constant)):
            raise self.bad(n, 'dict comprehension is not {f: CONST for f in (literals) if f in K}')
        t = g.ifs[0]
        if not (isinstance(t, ast.Compare) and len(t.ops) == 1 and isinstance(t.ops[0], ast.In) and isinstance(t.left, ast.Name)
                and t.left.id == g.target.id):
            raise self.bad(n, 'dict comprehension filter is not `f in K`')
        r = t.comparators[0]
        if isinstance(r, ast.Call) and isinstance(r.func, ast.Attribute) and r.func.attr == 'keys' and not r.args:
            r = r.func.value
        cont, ct = self.ex(r, b)
        if ct != 'kwargs':
            raise self.bad(n, 'dict comprehension filter is not a test on the keyword dictionary')
        flags = '; '.join(self.K(e.value) for e in g.iter.elts)
        return f'(flag_comp [{flags}] {cont} {self.const(n.value)})', 'kwargs'

    # ---- statements that update the keyword dictionary; returns True if handled
    def kw_update(self, st, b, mut):
        """mut: the name of THE keyword dictionary in the current scope; nothing else may be updated"""
        K = self.K
        if isinstance(st, ast.Expr) and isinstance(st.value, ast.Call) and isinstance(st.value.func, ast.Attribute) and \
                st.value.func.attr == 'update' and isinstance(st.value.func.value, ast.Name):
            var = st.value.func.value.id
            if var != mut or b.env.get(var, (None, None))[1] != 'kwargs' or len(st.value.args) != 1 or st.value.keywords:
                raise self.bad(st, '.update on something that is not the keyword dictionary')
            a = st.value.args[0]
            cur = b.env[var][0]
            if isinstance(a, ast.Dict):
                for k, v in zip(a.keys, a.values):
                    ks = const_str(k) if k is not None else None
                    if ks is not None:
                        keyc = K(ks)
                    elif isinstance(k, ast.Name) and b.env.get(k.id, (None, None))[1] == 'label':
                        keyc = b.env[k.id][0]
                    else:
                        raise self.bad(st, 'update with a non-literal key')
                    va, vt = self.ex(v, b)
                    if vt != 'jv':
                        raise self.bad(st, 'update with a value that is not a document value')
                    cur = b.let_pure(f'dset {cur} {keyc} {va}', var)
            else:
                va, vt = self.ex(a, b)
                if vt != 'kwargs':
                    raise self.bad(st, 'update with something that is not a dictionary')
                cur = b.let_pure(f'update {cur} {va}', var)
            b.env[var] = (cur, 'kwargs')
            return True
        if isinstance(st, ast.Assign) and len(st.targets) == 1 and isinstance(st.targets[0], ast.Subscript) and \
                isinstance(st.targets[0].value, ast.Name) and b.env.get(st.targets[0].value.id, (None, None))[1] == 'kwargs':
            var = st.targets[0].value.id
            if var != mut:
                raise self.bad(st, 'item assignment to something that is not the keyword dictionary')
            ks = const_str(st.targets[0].slice)
            if ks is None:
                raise self.bad(st, 'item assignment with a non-literal key')
            va, vt = self.ex(st.value, b)
            if vt != 'jv':
                raise self.bad(st, 'item assignment of something that is not a document value')
            b.env[var] = (b.let_pure(f'dset {b.env[var][0]} {K(ks)} {va}', var), 'kwargs')
            return True
        return False

    # ---- tests: returns (atom, polarity); `not T` / `a not in c` are the test T / `a in c` with the branches swapped
    def test(self, n, b):
        if isinstance(n, ast.UnaryOp) and isinstance(n.op, ast.Not):
            a, pos = self.test(n.operand, b)
            return a, not pos
        if isinstance(n, ast.Compare) and len(n.ops) == 1 and isinstance(n.ops[0], ast.NotIn):
            pos = ast.copy_location(ast.Compare(left=n.left, ops=[ast.In()], comparators=n.comparators), n)
            a, t = self.contains(pos, b)
            return a, False
        a, t = self.ex(n, b)
        if t != 'bool':
            raise self.bad(n, 'test outside the subset')
        return a, True

    def cond(self, node, test, then, orelse, b, ctx):
        """if <test>: <then> else: <orelse>   ->   let* K1 := if test then (...; Ok K2) else (...; Ok K3) in
        (an empty branch is `Ok K`); the branches may only update the keyword dictionary K"""
        var = ctx.kwvar
        if var is None:
            raise self.bad(node, '`if` where no keyword dictionary can be updated')
        t, pos = self.test(test, b)
        if not pos:
            then, orelse = orelse, then

        def branch(stmts, indent):
            if not stmts:
                return None
            c = b.child()
            self.run(stmts, c, Ctx(kwvar=var, kind='branch'))
            for name, (atom, ty) in c.env.items():
                if name != var and name in b.env and b.env[name] != (atom, ty):
                    raise self.bad(node, f'`if` rebinds {name}')
            return c.render(f'Ok {c.env[var][0]}', indent)
        cur = b.env[var][0]
        th, el = branch(then, 4), branch(orelse, 4)
        n = self.fresh(var)
        th = f'\n{th}\n ' if th is not None else f' Ok {cur}'
        el = f'\n{el}' if el is not None else f' Ok {cur}'
        b.lines.append(f'let* {n} :=\n  if {t} then{th} else{el} in')
        b.env[var] = (n, 'kwargs')

    # ---- statement lists of undictify_element, of the branches of its ifs and of the helpers inlined into it
    def run(self, stmts, b, ctx):
        for i, st in enumerate(stmts):
            if ctx.kind == 'helper' and isinstance(st, ast.If) and not st.orelse and len(st.body) == 1 and \
                    isinstance(st.body[0], ast.Return) and st.body[0].value is None:
                # `if T: return` at the top of a helper whose value is not used: the remaining statements are the else branch
                # (falling off the end returns None like the bare return does)
                self.cond(st, st.test, [], stmts[i + 1:], b, ctx)
                return
            self.stmt(st, b, ctx)

    def local_name(self, node, name, env):
        if name in env:
            raise self.bad(node, f'{name} rebound')
        if name in self.gen.m.bound or name in BUILTIN_TYPES + RESERVED_BUILTINS:
            raise self.bad(node, f'local name {name} hides a module-level name / builtin')

    def stmt(self, st, b, ctx):
        top = ctx.kind == 'top'
        if top and ctx.kwvar is None:
            # K = deserialize_schemdraw_elements(<doc>)
            if isinstance(st, ast.Assign) and len(st.targets) == 1 and isinstance(st.targets[0], ast.Name):
                a, t = self.ex(st.value, b)
                if t != 'kwargs':
                    raise self.bad(st, 'first assignment does not create the keyword dictionary')
                if st.targets[0].id in b.env:
                    raise self.bad(st, 'parameter rebound')
                ctx.kwvar = st.targets[0].id
                b.env[ctx.kwvar] = (a, 'kwargs')
                return
            raise self.bad(st, 'statement outside the subset')
        if isinstance(st, ast.For):
            self.unroll(st, b, ctx)
            return
        if isinstance(st, ast.Expr) and isinstance(st.value, ast.Call) and isinstance(st.value.func, ast.Name) and \
                st.value.func.id in self.gen.m.helpers:
            self.inline(st.value, b, ctx)
            return
        if ctx.elvar is None:
            if self.kw_update(st, b, ctx.kwvar):
                return
            if isinstance(st, ast.If):
                self.cond(st, st.test, st.body, st.orelse, b, ctx)
                return
            if isinstance(st, ast.Assign) and len(st.targets) == 1 and isinstance(st.targets[0], ast.Name):
                # V = <doc> | circuit_dict[<doc>]: a read-only local (never the keyword dictionary itself)
                self.local_name(st, st.targets[0].id, b.env)
                a, t = self.ex(st.value, b)
                if not (t == 'jv' or (t == 'kwargs' and isinstance(st.value, ast.Subscript))):
                    raise self.bad(st, 'local assignment of something that is not a document / circuit_dict[<doc>]')
                b.env[st.targets[0].id] = (a, t)
                return
            if top and isinstance(st, ast.Try):
                ctx.elvar = self.gen._try_ctor(self, st, b)
                return
            raise self.bad(st, 'statement outside the subset')
        elvar = ctx.elvar
        if isinstance(st, ast.Expr) and isinstance(st.value, ast.Call) and isinstance(st.value.func, ast.Name) and \
                st.value.func.id == 'setattr':
            # setattr(E, 'a', V) is E.a = V (a literal identifier; not in a class body, hence no name mangling)
            c = st.value
            if not (len(c.args) == 3 and not c.keywords and isinstance(c.args[0], ast.Name) and const_str(c.args[1]) is not None
                    and c.args[1].value.isidentifier()):
                raise self.bad(st, 'setattr outside the subset setattr(E, \'attribute\', V)')
            st = ast.copy_location(ast.Assign(targets=[ast.copy_location(
                ast.Attribute(value=c.args[0], attr=c.args[1].value, ctx=ast.Store()), c)], value=c.args[2]), st)
        if isinstance(st, ast.Assign) and len(st.targets) == 1 and isinstance(st.targets[0], ast.Attribute) \
                and isinstance(st.targets[0].value, ast.Name) and st.targets[0].value.id == elvar:
            attr = st.targets[0].attr
            v = st.value
            if not (isinstance(v, ast.Call) and isinstance(v.func, ast.Name) and v.func.id == 'deserialize_schemdraw_elements'
                    and len(v.args) == 1 and not v.keywords):
                raise self.bad(st, 'attribute is not restored through deserialize_schemdraw_elements')
            if attr in DRAWING_STATE:
                src_ = v.args[0]
                if not (isinstance(src_, ast.Subscript) and const_str(src_.slice) is not None):
                    raise self.bad(st, 'restored attribute is not read from a literal key')
                self.ex(src_.value, b)          # the enclosing read (may raise KeyError) is kept
                self.gen.restored_state.append((attr, const_str(src_.slice), ast.unparse(src_.value)))
                return
            if attr == 'absanchors':
                a, t = self.ex(v.args[0], b)
                if t != 'jv':
                    raise self.bad(st, 'absanchors restored from a non-document')
                n = b.let_res(f'set_absanchors {b.env[elvar][0]} {a}', elvar)
                b.env[elvar] = (n, 'symbol')
                return
            raise self.bad(st, f'attribute {attr} is outside the symbol model')
        raise self.bad(st, 'statement outside the subset')

    def unroll(self, st, b, ctx):
        """for x in NAME | ('a', ...): <body>   with NAME a module-level tuple of string literals: the body once per literal, in
        order, with x replaced by the literal (x is not assigned in the body, no break / continue / return / else)"""
        if st.orelse or not isinstance(st.target, ast.Name):
            raise self.bad(st, 'for loop outside the subset `for x in <tuple of string literals>:`')
        if isinstance(st.iter, ast.Name) and st.iter.id in self.gen.m.consts and st.iter.id not in b.env:
            values = self.gen.m.consts[st.iter.id]
            self.gen.used_consts.add(st.iter.id)
        elif isinstance(st.iter, (ast.Tuple, ast.List)) and st.iter.elts and all(const_str(e) is not None for e in st.iter.elts):
            values = [e.value for e in st.iter.elts]
        else:
            raise self.bad(st, 'for loop over something that is not a tuple of string literals')
        x = st.target.id
        self.local_name(st, x, b.env)
        for s in st.body:
            for n in ast.walk(s):
                if (isinstance(n, ast.Name) and n.id == x and not isinstance(n.ctx, ast.Load)) or \
                        (isinstance(n, ast.arg) and n.arg == x) or isinstance(n, (ast.Break, ast.Continue, ast.Return)):
                    raise self.bad(st, f'for loop body rebinds {x} or leaves the loop')

        class Subst(ast.NodeTransformer):
            def __init__(self, value):
                self.value = value

            def visit_Name(self, n):
                return ast.copy_location(ast.Constant(value=self.value), n) if n.id == x else n
        for value in values:
            self.run([Subst(value).visit(copy.deepcopy(s)) for s in st.body], b, ctx)

    def inline(self, call, b, ctx):
        """H(a, ...) as a statement, H a module-level private helper `def _h(p, ...)`: the arguments are evaluated in order, the
        body is translated in place with the parameters bound to them; a parameter that receives the keyword dictionary aliases it
        (its updates are the caller's), every other dictionary is read-only"""
        name = call.func.id
        h = self.gen.m.helpers[name]
        if name in b.env:
            raise self.bad(call, 'helper name hidden by a local')
        if name in self.stack:
            raise self.bad(call, 'recursive helper')
        if call.keywords or any(isinstance(a, ast.Starred) for a in call.args):
            raise self.bad(call, 'helper call with keywords / *')
        ps = plain_params(h, self.path, len(call.args))
        if len(set(ps)) != len(ps):
            raise self.bad(call, 'helper with duplicate parameters')
        env, mut = {}, None
        for p_, a in zip(ps, call.args):
            self.local_name(h, p_, {})
            if isinstance(a, ast.Name) and ctx.kwvar is not None and a.id == ctx.kwvar:
                if mut is not None:
                    raise self.bad(call, 'the keyword dictionary is passed twice')
                mut = p_
                env[p_] = b.env[a.id]
            else:
                at, ty = self.ex(a, b)
                if ty not in ('jv', 'cdict') and not (ty == 'kwargs' and isinstance(a, ast.Subscript)):
                    raise self.bad(call, 'helper argument is not a document / the keyword dictionary / circuit_dict[..]')
                env[p_] = (at, ty)
        for s in ast.walk(h):
            if isinstance(s, (ast.Global, ast.Nonlocal, ast.Yield, ast.YieldFrom, ast.Await, ast.FunctionDef, ast.Lambda)) and s is not h:
                raise self.bad(s, 'helper body outside the subset')
        saved = b.env
        b.env = env
        self.stack.append(name)
        self.gen.used_helpers.add(name)
        self.run(body_without_docstring(h), b, Ctx(kwvar=mut, kind='helper'))
        self.stack.pop()
        new = b.env[mut] if mut is not None else None
        b.env = saved
        if mut is not None:
            b.env[ctx.kwvar] = new


class Ctx:
    """where a statement is translated: kind 'top' (body of undictify_element), 'branch' (of an if) or 'helper' (top level of an
    inlined helper); kwvar = the name of THE keyword dictionary in this scope (None: not available), elvar = the element"""

    def __init__(self, kwvar=None, elvar=None, kind='top'):
        self.kwvar, self.elvar, self.kind = kwvar, elvar, kind


class Gen:
    def __init__(self, src):
        self.src = src
        self.m = Module(src)
        self.K = Strings()
        self.ctypes = class_types(src)
        self.fun_tables = {'simple_circuit_element_types': 'g_simple_circuit_element_types'}
        self.saved_state, self.restored_state = [], []
        self.used_helpers, self.used_consts = set(), set()

    def cls(self, name, node):
        if name in KNOWN_CLASSES:
            if name not in self.ctypes:
                raise Unsupported(f'{where(node, self.m.path)}: class {name} not found in SimpleCircuit/Elements.py')
            return KNOWN_CLASSES[name]
        if name not in self.ctypes:
            raise Unsupported(f'{where(node, self.m.path)}: class {name} not found in SimpleCircuit/Elements.py')
        t = self.ctypes[name]
        return f'(COther (Some {self.K(t)}))' if t is not None else '(COther None)'

    # ---- dictify_element
    def dictify_element(self):
        m, K = self.m, self.K
        f = m.func('dictify_element')
        (e,) = plain_params(f, m.path, 1)
        b = body_without_docstring(f)
        if not (len(b) == 1 and isinstance(b[0], ast.Return)):
            raise Unsupported(f'{where(f, m.path)}: dictify_element is not a single return')
        r = b[0].value
        if isinstance(r, ast.Call) and isinstance(r.func, ast.Name) and r.func.id in m.typed_dicts and not r.args:
            items = [(k.arg, k.value) for k in r.keywords]
            if any(k is None for k, _ in items):
                raise Unsupported(f'{where(r, m.path)}: dictify_element: ** in the result')
        elif isinstance(r, ast.Dict):
            items = [(const_str(k) if k is not None else None, v) for k, v in zip(r.keys, r.values)]
            if any(k is None for k, _ in items):
                raise Unsupported(f'{where(r, m.path)}: dictify_element: non-literal key')
        else:
            raise Unsupported(f'{where(r, m.path)}: dictify_element does not return a TypedDict(...) / dict literal')
        if len({k for k, _ in items}) != len(items):
            raise Unsupported(f'{where(r, m.path)}: dictify_element: duplicate keys')
        PROPS = {'type': 'sym_type', 'name': 'sym_name', 'is_reverse': 'sym_is_reverse'}
        SER = {'_userparams': 'sym_userparams', 'absanchors': 'sym_absanchors'}

        def attr_of(v):
            if isinstance(v, ast.Attribute) and isinstance(v.value, ast.Name) and v.value.id == e:
                return v.attr
            return None
        fields = []
        for k, v in items:
            a = attr_of(v)
            if a is not None:
                if a not in PROPS:
                    raise Unsupported(f'{where(v, m.path)}: dictify_element: attribute {a} is outside the symbol model')
                fields.append((K(k), f'{PROPS[a]} p_e'))
            elif isinstance(v, ast.Dict):
                sub = []
                for k2, v2 in zip(v.keys, v.values):
                    ks = const_str(k2) if k2 is not None else None
                    if ks is None:
                        raise Unsupported(f'{where(v, m.path)}: dictify_element: non-literal key')
                    if not (isinstance(v2, ast.Call) and isinstance(v2.func, ast.Name) and v2.func.id == 'serialize_schemdraw_element'
                            and len(v2.args) == 1 and not v2.keywords and attr_of(v2.args[0]) is not None):
                        raise Unsupported(f'{where(v2, m.path)}: dictify_element: value is not serialize_schemdraw_element(e.A): {ast.unparse(v2)}')
                    a2 = attr_of(v2.args[0])
                    if a2 in SER:
                        sub.append(f'({K(ks)}, g_serialize_schemdraw_element ({SER[a2]} p_e))')
                    elif a2 in DRAWING_STATE:
                        self.saved_state.append((ks, a2))
                    else:
                        raise Unsupported(f'{where(v2, m.path)}: dictify_element: attribute {a2} is outside the symbol model')
                if len({ast.unparse(x) for x in v.keys}) != len(v.keys):
                    raise Unsupported(f'{where(v, m.path)}: dictify_element: duplicate keys')
                fields.append((K(k), 'JDict [' + ';\n           '.join(sub) + ']'))
            else:
                raise Unsupported(f'{where(v, m.path)}: dictify_element: field value outside the subset: {ast.unparse(v)}')
        body = ';\n         '.join(f'({k}, {v})' for k, v in fields)
        return (f'(* dictify_element   ({where(f, "SimpleCircuit/dump_load.py")}) *)\n'
                f'Definition g_dictify_element (p_e : symbol) : jv :=\n  JDict [{body}].')

    def schematic_to_dict(self):
        m = self.m
        f = m.func('schematic_to_dict')
        plain_params(f, m.path, 1)
        if normalized(f) != norm_src('def schematic_to_dict(d):\n    return [dictify_element(e) for e in d.elements]', 'stmt'):
            raise Unsupported(f'{where(f, m.path)}: schematic_to_dict is not `return [dictify_element(e) for e in d.elements]`')
        return (f'(* schematic_to_dict   ({where(f, "SimpleCircuit/dump_load.py")}) *)\n'
                'Definition g_schematic_to_dict (p_d : list symbol) : list jv := map g_dictify_element p_d.')

    def dictify_all(self):
        m, K = self.m, self.K
        f = m.func('dictify_all')
        (s,) = plain_params(f, m.path, 1)
        fn = Fn(self, f)
        b = Block(fn, {s: ('p_schematic', 'symbols')})
        body = body_without_docstring(f)
        if not (len(body) == 1 and isinstance(body[0], ast.Return) and isinstance(body[0].value, ast.Dict)):
            raise Unsupported(f'{where(f, m.path)}: dictify_all is not the return of a dict literal')
        items = []
        for k, v in zip(body[0].value.keys, body[0].value.values):
            ks = const_str(k) if k is not None else None
            if ks is None:
                raise Unsupported(f'{where(f, m.path)}: dictify_all: non-literal key')
            a, t = fn.ex(v, b)
            if t != 'jv':
                raise fn.bad(v, 'value is not a document')
            items.append(f'({K(ks)}, {a})')
        if len(set(ast.unparse(k) for k in body[0].value.keys)) != len(items):
            raise Unsupported(f'{where(f, m.path)}: dictify_all: duplicate keys')
        code = b.render('Ok (JDict [' + '; '.join(items) + '])', 2)
        return (f'(* dictify_all   ({where(f, "SimpleCircuit/dump_load.py")}) *)\n'
                f'Definition g_dictify_all (p_schematic : list symbol) : res jv :=\n{code}.')

    # ---- combine_to_complex
    def combine_to_complex(self):
        m = self.m
        f = m.func('combine_to_complex')
        p, z, kv = plain_params(f, m.path, 3)
        body = body_without_docstring(f)
        bad = Unsupported(f'{where(f, m.path)}: combine_to_complex is not '
                          '`kv.update({z: complex(kv.pop(p[i], INT), kv.pop(p[j], INT))}); return kv`')
        if not (len(body) == 2 and isinstance(body[1], ast.Return) and isinstance(body[1].value, ast.Name) and body[1].value.id == kv):
            raise bad
        u = body[0]
        if not (isinstance(u, ast.Expr) and isinstance(u.value, ast.Call) and dotted(u.value.func) == f'{kv}.update'
                and len(u.value.args) == 1 and not u.value.keywords and isinstance(u.value.args[0], ast.Dict)
                and len(u.value.args[0].keys) == 1):
            raise bad
        d = u.value.args[0]
        k, c = d.keys[0], d.values[0]
        if not (isinstance(k, ast.Name) and k.id == z and isinstance(c, ast.Call) and dotted(c.func) == 'complex'
                and len(c.args) == 2 and not c.keywords):
            raise bad
        pops = []
        for a in c.args:
            if not (isinstance(a, ast.Call) and dotted(a.func) == f'{kv}.pop' and len(a.args) == 2 and not a.keywords
                    and isinstance(a.args[0], ast.Subscript) and isinstance(a.args[0].value, ast.Name) and a.args[0].value.id == p
                    and isinstance(a.args[0].slice, ast.Constant) and a.args[0].slice.value in (0, 1)
                    and isinstance(a.args[1], ast.Constant) and isinstance(a.args[1].value, int)
                    and not isinstance(a.args[1].value, bool)):
                raise bad
            pops.append((('fst', 'snd')[a.args[0].slice.value], a.args[1].value))
        return (f'(* combine_to_complex   ({where(f, "SimpleCircuit/dump_load.py")}) *)\n'
                'Definition g_combine_to_complex (p_real_imag : label * label) (p_z : label) (p_kv : kwargs) : res kwargs :=\n'
                f'  let \'(x1, p_kv1) := dpop_default p_kv ({pops[0][0]} p_real_imag) (jint ({pops[0][1]})%Z) in\n'
                f'  let \'(x2, p_kv2) := dpop_default p_kv1 ({pops[1][0]} p_real_imag) (jint ({pops[1][1]})%Z) in\n'
                '  let* x3 := py_complex_of x1 x2 in\n'
                '  Ok (dset p_kv2 p_z (JCplx x3)).')

    # ---- simple_circuit_element_types
    def element_types(self):
        m, K = self.m, self.K
        d = m.table('simple_circuit_element_types')
        rows = []
        for k, v in zip(d.keys, d.values):
            ks = const_str(k) if k is not None else None
            if ks is None:
                raise Unsupported(f'{where(d, m.path)}: simple_circuit_element_types: key is not a string literal')
            if isinstance(v, ast.Attribute) and isinstance(v.value, ast.Name) and v.value.id == 'simple_circuit_elements':
                rows.append((ks, f'fun p_kwargs => new_element {self.cls(v.attr, v)} p_kwargs', v.attr))
                continue
            if not (isinstance(v, ast.Lambda) and v.args.kwarg and not (v.args.args or v.args.vararg or v.args.kwonlyargs
                                                                       or v.args.posonlyargs or v.args.defaults)):
                raise Unsupported(f'{where(v, m.path)}: simple_circuit_element_types[{ks!r}] is not `lambda **kwargs: ...`')
            kw = v.args.kwarg.arg
            c = v.body
            if not (isinstance(c, ast.Call) and isinstance(c.func, ast.Attribute) and isinstance(c.func.value, ast.Name)
                    and c.func.value.id == 'simple_circuit_elements' and not c.args and len(c.keywords) == 1
                    and c.keywords[0].arg is None):
                raise Unsupported(f'{where(v, m.path)}: simple_circuit_element_types[{ks!r}]: body is not '
                                  f'simple_circuit_elements.C(**...): {ast.unparse(c)}')
            cl = self.cls(c.func.attr, c)
            a = c.keywords[0].value
            if isinstance(a, ast.Name) and a.id == kw:
                rows.append((ks, f'fun p_kwargs => new_element {cl} p_kwargs', c.func.attr))
            elif isinstance(a, ast.Call) and isinstance(a.func, ast.Name) and a.func.id == 'combine_to_complex' and len(a.args) == 3 \
                    and not a.keywords and isinstance(a.args[0], ast.Tuple) and len(a.args[0].elts) == 2 \
                    and all(const_str(x) is not None for x in a.args[0].elts) and const_str(a.args[1]) is not None \
                    and isinstance(a.args[2], ast.Name) and a.args[2].id == kw:
                re_, im_ = (K(x.value) for x in a.args[0].elts)
                rows.append((ks, f'fun p_kwargs => let* x1 := g_combine_to_complex ({re_}, {im_}) {K(a.args[1].value)} p_kwargs in '
                                 f'new_element {cl} x1', c.func.attr))
            else:
                raise Unsupported(f'{where(v, m.path)}: simple_circuit_element_types[{ks!r}]: argument outside the subset: {ast.unparse(a)}')
        if len({k for k, _, _ in rows}) != len(rows):
            raise Unsupported(f'{where(d, m.path)}: simple_circuit_element_types has duplicate keys')
        body = ';\n   '.join(f'({K(k)}, {code})' for k, code, _ in rows)
        self.loader_classes = [(k, c) for k, _, c in rows]
        return (f'(* simple_circuit_element_types   ({where(d, "SimpleCircuit/dump_load.py")}) *)\n'
                f'Definition g_simple_circuit_element_types : list (label * (kwargs -> res symbol)) :=\n  [{body}].')

    # ---- undictify_element
    def undictify_element(self):
        m, K = self.m, self.K
        f = m.func('undictify_element')
        ed, cd = plain_params(f, m.path, 2)
        fn = Fn(self, f)
        b = Block(fn, {ed: ('p_element_dict', 'jv'), cd: ('p_circuit_dict', 'cdict')})
        body = body_without_docstring(f)
        if not body or not isinstance(body[-1], ast.Return):
            raise Unsupported(f'{where(f, m.path)}: undictify_element does not end in a return')
        ctx = Ctx()
        fn.run(body[:-1], b, ctx)
        elvar = ctx.elvar
        for kind, have, used in (('helper', m.helpers, self.used_helpers), ('constant', m.consts, self.used_consts)):
            for name in have:
                if name not in used:
                    raise Unsupported(f'{m.path}: module-level {kind} {name} is not used by undictify_element')
        r = body[-1].value
        if not (isinstance(r, ast.Name) and r.id == elvar):
            raise fn.bad(body[-1], 'does not return the constructed element')
        code = b.render(f'Ok {b.env[elvar][0]}', 2)
        return (f'(* undictify_element   ({where(f, "SimpleCircuit/dump_load.py")}) *)\n'
                'Definition g_undictify_element (p_element_dict : jv) (p_circuit_dict : dict kwargs) : res symbol :=\n'
                f'{code}.')

    def _try_ctor(self, fn, st, b):
        if st.orelse or st.finalbody or len(st.handlers) != 1 or len(st.body) != 1 or len(st.handlers[0].body) != 1:
            raise fn.bad(st, 'try statement outside the subset')
        h = st.handlers[0]
        if not (isinstance(h.type, ast.Name) and h.type.id == 'KeyError' and h.name is None):
            raise fn.bad(st, 'handler is not `except KeyError:`')
        outs = []
        var = None
        for s in (st.body[0], h.body[0]):
            if not (isinstance(s, ast.Assign) and len(s.targets) == 1 and isinstance(s.targets[0], ast.Name)):
                raise fn.bad(s, 'try/except branch is not `E = <constructor call>`')
            if var is not None and s.targets[0].id != var:
                raise fn.bad(s, 'the two branches bind different names')
            var = s.targets[0].id
            c = b.child()
            a, t = fn.ex(s.value, c)
            if t != 'symbol':
                raise fn.bad(s, 'branch does not construct an element')
            # the last binding is the constructor call itself: return it instead of binding it
            last = c.lines.pop()
            mo = re.match(r'let\* (\w+) := (.*) in$', last, re.S)
            assert mo and mo.group(1) == a
            outs.append(c.render(mo.group(2), 5))
        if var in b.env:
            raise fn.bad(st, f'{var} rebound')
        n = fn.fresh(var)
        b.lines.append(f'let* {n} :=\n  catch_keyerror\n    ({outs[0].lstrip()})\n    ({outs[1].lstrip()}) in')
        b.env[var] = (n, 'symbol')
        return var

    # ---- undictify_schematic
    def undictify_schematic(self):
        m, K = self.m, self.K
        f = m.func('undictify_schematic')
        (sd,) = plain_params(f, m.path, 1)
        fn = Fn(self, f)
        b = Block(fn, {sd: ('p_schematic_dict', 'jv')})
        body = body_without_docstring(f)
        bad = Unsupported(f'{where(f, m.path)}: undictify_schematic is not `S = Schematic(); CD = {{c[k]: c[k2] for c in <doc>}}; '
                          'S.elements.extend([undictify_element(e, CD) for e in <doc>]); return S`')
        if len(body) != 4:
            raise bad
        s0, s1, s2, s3 = body
        if not (isinstance(s0, ast.Assign) and len(s0.targets) == 1 and isinstance(s0.targets[0], ast.Name)
                and isinstance(s0.value, ast.Call) and dotted(s0.value.func) == 'Schematic' and not s0.value.args and not s0.value.keywords):
            raise bad
        S = s0.targets[0].id
        cur = b.let_pure('@nil symbol', S)
        if not (isinstance(s1, ast.Assign) and len(s1.targets) == 1 and isinstance(s1.targets[0], ast.Name)
                and isinstance(s1.value, ast.DictComp) and len(s1.value.generators) == 1):
            raise bad
        CD = s1.targets[0].id
        g = s1.value.generators[0]
        if not (isinstance(g.target, ast.Name) and not g.ifs and not g.is_async):
            raise bad
        it, itt = fn.ex(g.iter, b)
        if itt != 'jv':
            raise bad
        lst = b.let_res(f'as_list {it}')
        c = Block(fn, {g.target.id: ('p_c', 'jv')})
        ka, kt = fn.ex(s1.value.key, c)
        kk = fn.key_of(ka, c)
        va, vt = fn.ex(s1.value.value, c)
        if kt != 'jv' or vt != 'jv':
            raise bad
        vd = c.let_res(f'as_dict {va}')
        inner = c.render(f'Ok ({kk}, {vd})', 6)
        pairs = b.let_res(f'mapR (fun p_c =>\n{inner}) {lst}')
        cdv = b.let_pure(f'dict_of_pairs {pairs}', CD)
        # S.elements.extend([undictify_element(e, CD) for e in <doc>])
        if not (isinstance(s2, ast.Expr) and isinstance(s2.value, ast.Call) and dotted(s2.value.func) == f'{S}.elements.extend'
                and len(s2.value.args) == 1 and not s2.value.keywords and isinstance(s2.value.args[0], ast.ListComp)):
            raise bad
        lc = s2.value.args[0]
        if len(lc.generators) != 1:
            raise bad
        g2 = lc.generators[0]
        e = lc.elt
        if not (isinstance(g2.target, ast.Name) and not g2.ifs and isinstance(e, ast.Call) and dotted(e.func) == 'undictify_element'
                and len(e.args) == 2 and not e.keywords and isinstance(e.args[0], ast.Name) and e.args[0].id == g2.target.id
                and isinstance(e.args[1], ast.Name) and e.args[1].id == CD):
            raise bad
        it2, it2t = fn.ex(g2.iter, b)
        if it2t != 'jv':
            raise bad
        lst2 = b.let_res(f'as_list {it2}')
        new = b.let_res(f'mapR (fun p_e => g_undictify_element p_e {cdv}) {lst2}')
        cur2 = b.let_pure(f'{cur} ++ {new}', S)
        if not (isinstance(s3, ast.Return) and isinstance(s3.value, ast.Name) and s3.value.id == S):
            raise bad
        code = b.render(f'Ok {cur2}', 2)
        return (f'(* undictify_schematic   ({where(f, "SimpleCircuit/dump_load.py")}) *)\n'
                f'Definition g_undictify_schematic (p_schematic_dict : jv) : res (list symbol) :=\n{code}.')


HEADER = '''(* GENERATED by tools/gen_saveload.py from SimpleCircuit/dump_load.py, SimpleCircuit/Elements.py (`type` properties) and
   SimpleSimulation/schematic.py (element part) — do not edit.
   Written in the vocabulary of Model/SaveLoadPrims.v; Theory/SaveLoadGenThm.v proves the definitions equal to the
   hand-written model Model/SaveLoad.v (statements: Properties/C15c.v). *)
From Coq Require Import List Bool NArith ZArith String.
From CC Require Import Theory.Field Theory.Complex Model.Network Model.Circuit Model.Loaders Model.SaveLoad Model.SaveLoadPrims.
Import ListNotations.
'''

SECTION_OPEN = '''Section GenSaveLoad.
Variable R : fops.
Variable pi : R.
Notation jv := (jval R).
Notation kwargs := (dict (jval R)).
Notation symbol := (Model.SaveLoad.symbol R).
Notation "'let*' x ':=' p 'in' q" := (bind p (fun x => q)) (at level 200, x pattern, p at level 100, q at level 200).
Notation jfield := (Model.SaveLoad.jfield R).
Notation as_list := (Model.SaveLoad.as_list R).
Notation as_dict := (Model.SaveLoad.as_dict R).
Notation as_key := (Model.SaveLoadPrims.as_key R).
Notation jget_default := (Model.SaveLoadPrims.jget_default R).
Notation table_item := (Model.SaveLoadPrims.table_item R).
Notation flag_comp := (Model.SaveLoadPrims.flag_comp R).
Notation dpop_default := (Model.SaveLoadPrims.dpop_default R).
Notation py_complex_of := (Model.SaveLoadPrims.py_complex_of R).
Notation jint := (Model.SaveLoadPrims.jint R).
Notation ser_by := (Model.SaveLoadPrims.ser_by R).
Notation sym_type := (Model.SaveLoadPrims.sym_type R).
Notation sym_name := (Model.SaveLoadPrims.sym_name R).
Notation sym_is_reverse := (Model.SaveLoadPrims.sym_is_reverse R).
Notation sym_userparams := (Model.SaveLoadPrims.sym_userparams R).
Notation sym_absanchors := (Model.SaveLoadPrims.sym_absanchors R).
Notation new_element := (Model.SaveLoadPrims.new_element R pi).
Notation set_absanchors := (Model.SaveLoadPrims.set_absanchors R).
Notation deserialize_userparams := (Model.SaveLoadPrims.deserialize_userparams R).
Notation dictify_circuit_of := (Model.SaveLoadPrims.dictify_circuit_of R pi).
'''


def pairs_table(name, typ, rows, comment):
    body = ';\n   '.join(rows)
    return f'(* {comment} *)\nDefinition {name} : {typ} :=\n  [{body}].'


def generate(src):
    g = Gen(src)
    m, K = g.m, g.K
    check_pinned(m)
    sers = serializers(m, K)
    parts_sec = []
    parts_sec.append('(* serialize_schemdraw_element: schemdraw_serializers.get(type(e), lambda _: None)(e) *)\n'
                     'Definition g_serialize_schemdraw_element (p_e : jv) : jv := ser_by g_schemdraw_serializers p_e.')
    parts_sec.append(g.dictify_element())
    parts_sec.append(g.schematic_to_dict())
    parts_sec.append(g.dictify_all())
    parts_sec.append(g.combine_to_complex())
    parts_sec.append(g.element_types())
    parts_sec.append(g.undictify_element())
    parts_sec.append(g.undictify_schematic())
    # closed tables
    pre = []
    ser_rows = []
    TY = {'str': 'ty_str', 'int': 'ty_int', 'float': 'ty_float', 'bool': 'ty_bool', 'dict': 'ty_dict', 'list': 'ty_list',
          'tuple': 'ty_tuple', 'complex': 'ty_complex'}
    for ty, kind in sers:
        ser_rows.append(f'({TY.get(ty) or K(ty)}, {kind})   (* {ty} *)')
    # comments must not precede `;` separators: put them before
    ser_rows = [re.sub(r'^(.*?)\s+\(\* (.*) \*\)$', r'(* \2 *) \1', r) for r in ser_rows]
    pre.append(pairs_table('g_schemdraw_serializers', 'list (label * serkind)', ser_rows,
                           f'schemdraw_serializers   ({where(m.table("schemdraw_serializers"), "SimpleCircuit/dump_load.py")})'))
    pre.append(pairs_table('g_saved_drawing_state', 'list (label * label)',
                           [f'({K(k)}, {K(a)})' for k, a in g.saved_state],
                           'dictify_element: drawing state written under values[key] from e.<attribute> (not part of the symbol model)'))
    pre.append(pairs_table('g_restored_drawing_state', 'list (label * label)',
                           [f'({K(k)}, {K(a)})' for a, k, _ in g.restored_state],
                           "undictify_element: drawing state read from element_dict['values'][key] into element.<attribute>"))
    bad_src = [s for _, _, s in g.restored_state if not re.match(r"^\w+\['values'\]$", s)]
    if bad_src:
        raise Unsupported(f'{m.path}: undictify_element restores drawing state from {bad_src[0]}, not from [\'values\']')
    pre.append(pairs_table('g_entry_points', 'list (label * label * label * label)',
                           [f'({K(a)}, {K(b)}, {K(c)}, {K(d)})' for a, b, c, d in m.partials],
                           'functools.partial bindings: (name, base function, keyword, function passed)'))
    pre.append(pairs_table('g_loader_classes', 'list (label * label)', [f'({K(k)}, {K(c)})' for k, c in g.loader_classes],
                           'simple_circuit_element_types: type string -> name of the class the entry constructs'))
    ct_rows = [f'({K(c)}, {"Some " + K(t) if t is not None else "None"})' for c, t in g.ctypes.items()]
    pre.append(pairs_table('g_class_types', 'list (label * option label)', ct_rows,
                           'SimpleCircuit/Elements.py: class -> the string its `type` property returns (None: no such property)'))
    sch_pre, sch_sec = schematic_part(g)
    text = HEADER + '\n(* ---------- string literals of the sources ---------- *)\n' + '\n'.join(K.definitions()) + '\n\n' + \
        '\n\n'.join(pre + sch_pre) + '\n\n' + SECTION_OPEN + '\n' + '\n\n'.join(parts_sec + sch_sec) + '\nEnd GenSaveLoad.\n'
    return {'SaveLoadGen.v': text}


# ------------------------------------------------------------------ SimpleSimulation/schematic.py, element part
DIRECTIONS = {'right': 'DRight', 'left': 'DLeft', 'up': 'DUp', 'down': 'DDown'}
GET_PLACED_REF = """
def get_placed_element(schematic, label=None):
    if label is None:
        return None
    return schematic.elements[[se.name for se in schematic.elements].index(label)]
"""
TRANSFORM_REF = """
def transform_to_schematic_element(element):
    try:
        element_type = element[{key!r}]
    except KeyError as e:
        raise errors.MissingArgument({key!r}, str(element)) from e
    try:
        return element_handlers[element_type](element)
    except KeyError as e:
        raise errors.UnknownCircuitElement(element_type) from e
"""
FILL_LOOP_REF = """
for e in elements:
    se = transform_to_schematic_element(e)
    se = apply_direction_and_length(se, e.get({k0!r}, {d0}), e.get({k1!r}, {d1}), unit)
    se = apply_position(se, get_placed_element(schematic, e.get({k2!r}, {d2})))
    schematic += se
"""


SCHEMATIC_FUNCS = {'element_factory', 'transform_to_schematic_element', 'apply_direction_and_length', 'apply_position',
                   'get_placed_element', 'fill', 'create_schematic'}
CREATE_SCHEMATIC_REF = """
def create_schematic(circuit_data, circuit_ax=None):
    unit = circuit_data.get('unit', 7)
    elements = circuit_data.get('elements', [])
    light_lamps = circuit_data.get('light_lamps', False)
    solution_definition = SolutionDefinition(circuit_data.get('solution', {}))
    if circuit_ax is None:
        with elm.Schematic(unit=unit) as schematic:
            fill(schematic, elements, unit, light_lamps, solution_definition)
        return schematic
    schematic = elm.Schematic(unit=circuit_data['unit'], canvas=circuit_ax)
    fill(schematic, elements, unit, light_lamps, solution_definition)
    schematic.draw(show=False)
    return schematic
"""


def schematic_module(src):
    """module-level check of schematic.py shared with gen_annotation: returns (path, tree, funcs, tables, classes, extra) with
    extra = {'helpers': private functions `_h` (inlined by gen_annotation into fill; every one must be used there),
             'consts': private tuples of string literals `_c = ('a', ...)` (iterated by apply_direction_and_length; every one must
                       be used there)}"""
    path = os.path.join(src, *SCHEMATIC)
    tree = parse(path)
    funcs, tables, clss, bound, imports = {}, {}, {}, [], {}
    helpers, consts = {}, {}
    for st in tree.body:
        if isinstance(st, ast.Import):
            for a in st.names:
                imports[a.asname or a.name.split('.')[0]] = a.name
                bound.append(a.asname or a.name.split('.')[0])
        elif isinstance(st, ast.ImportFrom):
            for a in st.names:
                if a.name == '*':
                    raise Unsupported(f'{where(st, path)}: star import')
                imports[a.asname or a.name] = f'{"." * st.level}{st.module or ""}:{a.name}'
                bound.append(a.asname or a.name)
        elif isinstance(st, ast.FunctionDef):
            if st.decorator_list:
                raise Unsupported(f'{where(st, path)}: decorated function {st.name}')
            if is_private(st.name):
                helpers[st.name] = st
            else:
                funcs[st.name] = st
            bound.append(st.name)
        elif isinstance(st, ast.ClassDef):
            clss[st.name] = st
            bound.append(st.name)
        elif isinstance(st, ast.Assign) and len(st.targets) == 1 and isinstance(st.targets[0], ast.Name) and is_private(st.targets[0].id) \
                and isinstance(st.value, ast.Tuple) and st.value.elts and all(const_str(e) is not None for e in st.value.elts):
            consts[st.targets[0].id] = [e.value for e in st.value.elts]
            bound.append(st.targets[0].id)
        elif isinstance(st, ast.Assign) and len(st.targets) == 1 and isinstance(st.targets[0], ast.Name) and isinstance(st.value, ast.Dict):
            tables[st.targets[0].id] = st.value
            bound.append(st.targets[0].id)
        else:
            raise Unsupported(f'{where(st, path)}: module-level statement outside the subset: {ast.unparse(st)[:60]}')
    dup = sorted({b for b in bound if bound.count(b) > 1})
    if dup:
        raise Unsupported(f'{path}: names bound more than once at module level: {dup}')
    for b in ('getattr', 'setattr', 'print', 'str'):
        if b in bound:
            raise Unsupported(f'{path}: builtin {b} rebound at module level')
    for kind, d, allowed in (('function', funcs, SCHEMATIC_FUNCS), ('class', clss, {'SolutionDefinition'}),
                             ('dict literal', tables, {'solutions', 'element_handlers'})):
        for name in d:
            if name not in allowed:
                raise Unsupported(f'{where(d[name], path)}: {kind} {name} is not one of {sorted(allowed)}')
    cs = need(funcs, 'create_schematic', path)
    if normalized(cs) != norm_src(CREATE_SCHEMATIC_REF, 'stmt'):
        raise Unsupported(f'{where(cs, path)}: create_schematic differs from the pinned reference text')
    exp = {'elm': 'CircuitCalculator.SimpleCircuit.Elements', 'ds': 'CircuitCalculator.SimpleCircuit.DiagramSolution',
           'dp': 'CircuitCalculator.SimpleCircuit.DiagramParser', 'signature': 'inspect:signature', 'errors': '.:errors',
           'dataclass': 'dataclasses:dataclass'}
    for k, v in exp.items():
        if imports.get(k) != v:
            raise Unsupported(f'{path}: {k} is not imported from {v} (found {imports.get(k)})')
    return path, tree, funcs, tables, clss, {'helpers': helpers, 'consts': consts}


def need(d, name, path, what='function'):
    if name not in d:
        raise Unsupported(f'{path}: {what} {name} not found')
    return d[name]


def lit(n, g, path):
    """a literal default: '' / int / bool / None -> Coq document value"""
    if isinstance(n, ast.Constant):
        v = n.value
        if isinstance(v, bool):
            return f'JBool {str(v).lower()}'
        if isinstance(v, int):
            return f'jint ({v})%Z'
        if isinstance(v, str):
            return f'JStr {g.K(v)}'
        if v is None:
            return 'JNull'
    raise Unsupported(f'{where(n, path)}: default value outside the subset (str, int, bool, None): {ast.unparse(n)}')


def unrolled_dispatch(body, consts, params, f, path):
    """for x in NAME | ('a', ...):                          if <test>[x := 'a']: <call>[x := 'a']
           if <test>: <call>; break              ->         elif <test>[x := 'b']: <call>[x := 'b'] ...
    NAME a module-level private tuple of string literals; the first iteration whose test holds runs its call and leaves the loop,
    which is the if/elif chain over the literals in order; getattr(E, 'a') with a literal identifier is E.a.
    Returns (body, names of the constants used); a body of another shape is returned unchanged."""
    if not (body and isinstance(body[0], ast.For)):
        return body, set()
    lp = body[0]
    used = set()
    if isinstance(lp.iter, ast.Name) and lp.iter.id in consts and lp.iter.id not in params:
        values = consts[lp.iter.id]
        used.add(lp.iter.id)
    elif isinstance(lp.iter, ast.Tuple) and lp.iter.elts and all(const_str(e) is not None for e in lp.iter.elts):
        values = [e.value for e in lp.iter.elts]
    else:
        raise Unsupported(f'{where(lp, path)}: {f.name}: loop over something that is not a tuple of string literals')
    ok = isinstance(lp.target, ast.Name) and lp.target.id not in params and not lp.orelse and len(lp.body) == 1 and \
        isinstance(lp.body[0], ast.If) and not lp.body[0].orelse and len(lp.body[0].body) == 2 and \
        isinstance(lp.body[0].body[0], ast.Expr) and isinstance(lp.body[0].body[1], ast.Break)
    if ok:
        x = lp.target.id
        ok = not any((isinstance(n, ast.Name) and n.id == x and not isinstance(n.ctx, ast.Load)) or (isinstance(n, ast.arg) and n.arg == x)
                     or isinstance(n, (ast.NamedExpr, ast.Lambda, ast.ListComp, ast.SetComp, ast.DictComp, ast.GeneratorExp))
                     for n in ast.walk(lp.body[0]))
        ok = ok and not any(isinstance(n, ast.Name) and n.id == x for s_ in body[1:] for n in ast.walk(s_))
    if not ok:
        raise Unsupported(f'{where(lp, path)}: {f.name}: loop is not `for x in <literals>: if <test>: <call>; break`')

    class Subst(ast.NodeTransformer):
        def __init__(self, value):
            self.value = value

        def visit_Name(self, n):
            return ast.copy_location(ast.Constant(value=self.value), n) if n.id == x else n

        def visit_Call(self, n):
            self.generic_visit(n)
            if isinstance(n.func, ast.Name) and n.func.id == 'getattr' and len(n.args) == 2 and not n.keywords and \
                    const_str(n.args[1]) is not None and n.args[1].value.isidentifier():
                return ast.copy_location(ast.Attribute(value=n.args[0], attr=n.args[1].value, ctx=ast.Load()), n)
            return n
    chain = []
    for v in reversed(values):
        it = Subst(v).visit(copy.deepcopy(lp.body[0]))
        it.body = it.body[:1]
        it.orelse = chain
        chain = [it]
    return [ast.fix_missing_locations(chain[0])] + body[1:], used


def schematic_part(g):
    K = g.K
    path, tree, funcs, tables, clss, extra = schematic_module(g.src)
    rel = 'SimpleSimulation/schematic.py'
    pre, sec = [], []
    # ---- element_handlers
    d = need(tables, 'element_handlers', path, 'dict literal')
    rows = []

    def factory_call(c, kw, ks):
        if not (isinstance(c, ast.Call) and isinstance(c.func, ast.Name) and c.func.id == 'element_factory' and len(c.args) == 1
                and isinstance(c.args[0], ast.Attribute) and isinstance(c.args[0].value, ast.Name) and c.args[0].value.id == 'elm'
                and len(c.keywords) == 1 and c.keywords[0].arg is None and isinstance(c.keywords[0].value, ast.Name)
                and c.keywords[0].value.id == kw):
            raise Unsupported(f'{where(c, path)}: element_handlers[{ks!r}]: not element_factory(elm.C, **kwargs): {ast.unparse(c)}')
        name = c.args[0].attr
        if name not in g.ctypes:
            raise Unsupported(f'{where(c, path)}: class {name} not found in SimpleCircuit/Elements.py')
        if name in KNOWN_CLASSES and name != 'Element':
            return KNOWN_CLASSES[name]
        t = g.ctypes[name]
        return f'COther (Some {K(t)})' if t is not None else 'COther None'
    for k, v in zip(d.keys, d.values):
        ks = const_str(k) if k is not None else None
        if ks is None:
            raise Unsupported(f'{where(d, path)}: element_handlers: key is not a string literal')
        if not (isinstance(v, ast.Lambda) and len(v.args.args) == 1 and not (v.args.vararg or v.args.kwarg or v.args.kwonlyargs
                                                                            or v.args.posonlyargs or v.args.defaults)):
            raise Unsupported(f'{where(v, path)}: element_handlers[{ks!r}] is not `lambda kwargs: ...`')
        kw = v.args.args[0].arg
        b = v.body
        if isinstance(b, ast.IfExp):
            t = b.test
            r = t.comparators[0] if isinstance(t, ast.Compare) and len(t.ops) == 1 and isinstance(t.ops[0], ast.In) else None
            if isinstance(r, ast.Call) and isinstance(r.func, ast.Attribute) and r.func.attr == 'keys' and not r.args and not r.keywords:
                r = r.func.value
            if not (r is not None and isinstance(r, ast.Name) and r.id == kw and const_str(t.left) is not None):
                raise Unsupported(f'{where(v, path)}: element_handlers[{ks!r}]: test is not `\'k\' in kwargs[.keys()]`: {ast.unparse(t)}')
            rows.append(f'({K(ks)}, if dhas p_kwargs {K(t.left.value)} then {factory_call(b.body, kw, ks)} else {factory_call(b.orelse, kw, ks)})')
        else:
            rows.append(f'({K(ks)}, {factory_call(b, kw, ks)})')
    if len({ast.unparse(k) for k in d.keys}) != len(d.keys):
        raise Unsupported(f'{where(d, path)}: element_handlers has duplicate keys')
    sec.append(f'(* element_handlers   ({where(d, rel)}): type -> class handed to element_factory *)\n'
               'Definition g_element_handlers (p_kwargs : kwargs) : list (label * scls) :=\n  [' + ';\n   '.join(rows) + '].')
    # ---- element_factory
    f = need(funcs, 'element_factory', path)
    a = f.args
    if not (len(a.args) == 3 and len(a.defaults) == 2 and a.kwarg and not a.vararg and not a.kwonlyargs and not a.posonlyargs):
        raise Unsupported(f'{where(f, path)}: element_factory is not (element, name=CONST, reverse=CONST, **kwargs)')
    el, p1, p2 = (x.arg for x in a.args)
    body = body_without_docstring(f)
    ok = len(body) == 1 and isinstance(body[0], ast.Try) and not body[0].orelse and not body[0].finalbody and len(body[0].body) == 1 \
        and isinstance(body[0].body[0], ast.Return)
    if ok:
        c = body[0].body[0].value
        ok = isinstance(c, ast.Call) and isinstance(c.func, ast.Name) and c.func.id == el and not c.args and \
            [(k.arg, dotted(k.value)) for k in c.keywords] == [(p1, p1), (p2, p2), (None, a.kwarg.arg)]
        for h in body[0].handlers:
            ok = ok and isinstance(h.body[-1], ast.Raise) and h.body[-1].exc is not None and \
                not any(isinstance(x, ast.Return) for s_ in h.body for x in ast.walk(s_))
    if not ok:
        raise Unsupported(f'{where(f, path)}: element_factory is not `try: return element({p1}={p1}, {p2}={p2}, **kwargs)` with '
                          'handlers that only raise')
    sec.append(f'(* element_factory   ({where(f, rel)}): the defaults of the keyword parameters handed on to the class *)\n'
               f'Definition g_element_factory_defaults : list (label * jv) :=\n'
               f'  [({K(p1)}, {lit(a.defaults[0], g, path)}); ({K(p2)}, {lit(a.defaults[1], g, path)})].')
    # ---- transform_to_schematic_element
    f = need(funcs, 'transform_to_schematic_element', path)
    plain_params(f, path, 1)
    keys = [n.slice.value for n in ast.walk(f) if isinstance(n, ast.Subscript) and const_str(n.slice) is not None]
    if len(keys) != 1 or normalized(f) != norm_src(TRANSFORM_REF.format(key=keys[0]), 'stmt'):
        raise Unsupported(f'{where(f, path)}: transform_to_schematic_element differs from the reference shape '
                          '(element[K] / element_handlers[t](element), KeyError -> MissingArgument / UnknownCircuitElement)')
    type_key = keys[0]
    # ---- apply_direction_and_length
    f = need(funcs, 'apply_direction_and_length', path)
    a = f.args
    if not (len(a.args) == 4 and len(a.defaults) == 3 and not (a.vararg or a.kwarg or a.kwonlyargs or a.posonlyargs)):
        raise Unsupported(f'{where(f, path)}: apply_direction_and_length is not (element, direction=C, length=C, unit=C)')
    el, pd, pl, pu = (x.arg for x in a.args)
    body = body_without_docstring(f)
    body, used_consts = unrolled_dispatch(body, extra['consts'], [el, pd, pl, pu], f, path)
    for name in extra['consts']:
        if name not in used_consts:
            raise Unsupported(f'{path}: module-level constant {name} is not used by apply_direction_and_length')
    if not (len(body) == 2 and isinstance(body[0], ast.If) and isinstance(body[1], ast.Return) and dotted(body[1].value) == el):
        raise Unsupported(f'{where(f, path)}: apply_direction_and_length is not an if/elif chain (or the loop form of it) followed by '
                          '`return element`')
    drows = []
    st = body[0]
    while st is not None:
        t = st.test
        if not (isinstance(t, ast.Compare) and len(t.ops) == 1 and isinstance(t.ops[0], ast.Eq) and dotted(t.left) == pd
                and const_str(t.comparators[0]) is not None and len(st.body) == 1 and isinstance(st.body[0], ast.Expr)
                and isinstance(st.body[0].value, ast.Call)):
            raise Unsupported(f'{where(st, path)}: apply_direction_and_length: branch is not `direction == \'d\': element.M(length*unit)`')
        c = st.body[0].value
        if not (isinstance(c.func, ast.Attribute) and dotted(c.func.value) == el and c.func.attr in DIRECTIONS and len(c.args) == 1
                and not c.keywords and isinstance(c.args[0], ast.BinOp) and isinstance(c.args[0].op, ast.Mult)
                and dotted(c.args[0].left) == pl and dotted(c.args[0].right) == pu):
            raise Unsupported(f'{where(c, path)}: apply_direction_and_length: call is not element.<right|left|up|down>(length*unit): {ast.unparse(c)}')
        drows.append(f'({K(t.comparators[0].value)}, {DIRECTIONS[c.func.attr]})')
        if not st.orelse:
            st = None
        elif len(st.orelse) == 1 and isinstance(st.orelse[0], ast.If):
            st = st.orelse[0]
        else:
            raise Unsupported(f'{where(st, path)}: apply_direction_and_length: else branch')
    sec.append(f'(* apply_direction_and_length   ({where(f, rel)}): direction string -> placement method, each called with length*unit *)\n'
               'Definition g_direction_table : list (label * direction) :=\n  [' + '; '.join(drows) + '].\n'
               f'Definition g_apply_defaults : list (label * jv) :=\n  [' +
               '; '.join(f'({K(x.arg)}, {lit(dv, g, path)})' for x, dv in zip(a.args[1:], a.defaults)) + '].')
    # ---- apply_position / get_placed_element
    f = need(funcs, 'apply_position', path)
    a = f.args
    ref = None
    anchors = [n.attr for n in ast.walk(f) if isinstance(n, ast.Attribute) and isinstance(n.value, ast.Name)
               and len(a.args) == 2 and n.value.id == a.args[1].arg]
    if len(anchors) == 1:
        ref = norm_src(f'def apply_position(element, origin_element=None):\n    if origin_element is None:\n        return element\n'
                       f'    return element.at(origin_element.{anchors[0]})', 'stmt')
    if ref is None or normalized(f) != ref:
        raise Unsupported(f'{where(f, path)}: apply_position is not `if origin_element is None: return element; '
                          'return element.at(origin_element.A)`')
    pre.append(f'(* apply_position   ({where(f, rel)}): the anchor of the earlier element at which the new one starts *)\n'
               f'Definition g_place_after_anchor : label := {K(anchors[0])}.')
    f = need(funcs, 'get_placed_element', path)
    if normalized(f) != norm_src(GET_PLACED_REF, 'stmt'):
        raise Unsupported(f'{where(f, path)}: get_placed_element differs from the pinned reference text (first element of that name)')
    # ---- fill: the element loop
    f = need(funcs, 'fill', path)
    body = body_without_docstring(f)
    if not (body and isinstance(body[0], ast.For)):
        raise Unsupported(f'{where(f, path)}: fill does not start with the element loop')
    loop = body[0]
    gets = [n for n in ast.walk(loop) if isinstance(n, ast.Call) and isinstance(n.func, ast.Attribute) and n.func.attr == 'get'
            and len(n.args) == 2 and const_str(n.args[0]) is not None]
    gets.sort(key=lambda n: (n.lineno, n.col_offset))
    if len(gets) != 3:
        raise Unsupported(f'{where(loop, path)}: fill: the element loop does not read exactly three keys with e.get(K, CONST)')
    ref = FILL_LOOP_REF.format(k0=gets[0].args[0].value, d0=ast.unparse(gets[0].args[1]), k1=gets[1].args[0].value,
                               d1=ast.unparse(gets[1].args[1]), k2=gets[2].args[0].value, d2=ast.unparse(gets[2].args[1]))
    # compare inside a dummy function so that the parameters of fill are free names on both sides
    pnames = [x.arg for x in f.args.args]
    if len(pnames) < 3 or pnames[:3] != ['schematic', 'elements', 'unit']:
        raise Unsupported(f'{where(f, path)}: fill: parameters are not (schematic, elements, unit, ...)')
    wrap = ast.parse('def _loop(schematic, elements, unit):\n    pass').body[0]
    wrap.body = [loop]
    if normalized(wrap) != norm_src('def _loop(schematic, elements, unit):' + ref.replace('\n', '\n    '), 'stmt'):
        raise Unsupported(f'{where(loop, path)}: fill: the element loop differs from the reference shape (transform, '
                          'apply_direction_and_length(se, e.get(..), e.get(..), unit), apply_position(se, get_placed_element(..)), +=)')
    sec.append(f'(* fill   ({where(f, rel)}): the layout keys read from an entry (direction, length, place_after) with their defaults *)\n'
               'Definition g_fill_reads : list (label * jv) :=\n  [' +
               '; '.join(f'({K(n.args[0].value)}, {lit(n.args[1], g, path)})' for n in gets) + '].')
    pre.append(f'(* the keys of an entry consumed by transform_to_schematic_element and fill *)\n'
               f'Definition g_layout_keys : list label :=\n  [' + '; '.join([K(type_key)] + [K(n.args[0].value) for n in gets]) + '].')
    return pre, sec
