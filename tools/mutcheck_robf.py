#!/usr/bin/env python3
"""Mutation check of the constructs tools/gen_loaders.py, tools/gen_wrappers.py and tools/gen_circuit.py accept since their
subsets were widened for the maintainer-style refactorings H17 (Circuit/dump_load.py), H18 (dump_load.py), H25
(Circuit/impedance.py, Circuit/state_space_model.py) and H26 (Circuit/circuit.py, Network/equivalent_sources.py), and of the
equalities over their output (Theory/LoadersGenThm.v, PortGenThm.v, WrappersGenThm.v, CircuitGenThm.v; Properties/C17c.v,
C19c.v, C06d.v, C06e.v, C10d.v, C02c.v, C09c.v).
For every entry: copy the Python source tree, apply the BASE patch (one of harmless/H*/patch.diff) and then the edit to the
COPY, run all gen_*.py translators on the copy (as py2v.py does with VERIF_REPO), write the result into a private copy of coq/
and rebuild the targets there with `make -k`.  Reported per entry: refused by the translator (message), or the lemmas that stop
compiling, or `passes`.  Expectation: every semantic edit is `caught`, the refactorings themselves (and one further
behaviour-preserving variation) `pass`.
usage: mutcheck_robf.py [--repo /repo] [--harmless DIR] [--work DIR] [--only NAME ...]"""
import argparse
import os
import re
import shutil
import subprocess
import sys

HERE = os.path.dirname(os.path.abspath(__file__))
sys.path.insert(0, HERE)
from v2lib import Unsupported  # noqa: E402
from mutcheck_gens import apply_edits, enclosing, write_if_changed, generate_all  # noqa: E402

CD = 'Circuit/dump_load.py'
DL = 'dump_load.py'
IM = 'Circuit/impedance.py'
SS = 'Circuit/state_space_model.py'
CC = 'Circuit/circuit.py'
ES = 'Network/equivalent_sources.py'
TARGETS = ['Properties/C17c.vo', 'Properties/C19c.vo', 'Properties/C06d.vo', 'Properties/C06e.vo', 'Properties/C10d.vo',
           'Properties/C02c.vo', 'Properties/C09c.vo']

# (name, expectation, base patch, [(file, old, new, occurrence index | None = exactly once)])
EDITS = [
    # ---------------- H17: exception-building helper, factory lookup helper
    ('F00 H17 as written', 'passes', 'H17', []),
    ('F01 H17 _missing_information builds UnknownCircuitComponent', 'caught', 'H17',
     [(CD, 'return IncorrectComponentInformation(f"Missing {what}', 'return UnknownCircuitComponent(f"Missing {what}', None)]),
    ('F02 H17 _component_factory raises IncorrectComponentInformation', 'caught', 'H17',
     [(CD, "        raise UnknownCircuitComponent(f\"Unknown type", "        raise IncorrectComponentInformation(f\"Unknown type", None)]),
    ('F03 H17 _component_factory also catches TypeError', 'caught', 'H17',
     [(CD, "        return circuit_component_translators[component_type]\n    except KeyError:",
       "        return circuit_component_translators[component_type]\n    except (KeyError, TypeError):", None)]),
    ('F04 H17 an argument of the exception helper has an effect (pops the type)', 'caught', 'H17',
     [(CD, "raise _missing_information('value', component_id)", "raise _missing_information('value', component.pop('type'))", None)]),
    ('F05 H17 the message of the exception helper subscripts its parameter (can raise itself)', 'caught', 'H17',
     [(CD, "of component '{component_id}'.\")\n\ndef _component_factory", "of component '{component_id['id']}'.\")\n\ndef _component_factory", None)]),
    ('F06 H17 the missing-type case is reported through the id error', 'caught', 'H17',
     [(CD, "raise _missing_information('type information', component_id)", "raise UnidentifiedComponent('no type')", None)]),
    # ---------------- H18: _has_keys, _from_polar, elif chain, module-level _dictify_value
    ('F10 H18 as written', 'passes', 'H18', []),
    ('F11 H18 _from_polar: cos / sin swapped', 'caught', 'H18',
     [(DL, 'complex(np.cos(phase_rad), np.sin(phase_rad))', 'complex(np.sin(phase_rad), np.cos(phase_rad))', None)]),
    ('F12 H18 _has_keys: the isinstance test dropped', 'caught', 'H18',
     [(DL, 'return isinstance(value, dict) and sorted(list(value.keys())) == sorted(keys)', 'return sorted(list(value.keys())) == sorted(keys)', None)]),
    ('F13 H18 the second elif written `if` again (behaviour-preserving: the key sets exclude each other)', 'passes', 'H18',
     [(DL, "        elif _has_keys(value, ['abs', 'phase_deg']):", "        if _has_keys(value, ['abs', 'phase_deg']):", None)]),
    ('F14 H18 _from_polar called with (phase, abs)', 'caught', 'H18',
     [(DL, "_from_polar(value['abs'], value['phase'])", "_from_polar(value['phase'], value['abs'])", None)]),
    ('F15 H18 _dictify_value: real / imag swapped', 'caught', 'H18',
     [(DL, "    if isinstance(value, complex):\n        return {'real': value.real, 'imag': value.imag}\n    return value",
       "    if isinstance(value, complex):\n        return {'real': value.imag, 'imag': value.real}\n    return value", None)]),
    ('F16 H18 the radian branch tests the keys of the degree branch', 'caught', 'H18',
     [(DL, "        elif _has_keys(value, ['abs', 'phase']):", "        elif _has_keys(value, ['abs', 'phase_deg']):", None)]),
    ('F17 H18 the degree branch hands the degrees on unconverted', 'caught', 'H18',
     [(DL, "_from_polar(value['abs'], np.deg2rad(value['phase_deg']))", "_from_polar(value['abs'], value['phase_deg'])", None)]),
    ('F18 H18 _dictify_value does not descend into lists', 'caught', 'H18',
     [(DL, "    if isinstance(value, list):\n        return [_dictify_value(v) for v in value]\n", "", None)]),
    ('F19 H18 negative abs accepted in the radian branch', 'caught', 'H18',
     [(DL, "            if value['abs'] < 0:\n                raise ValueError(\"abs value of '{key}' may not be negative\")\n            data[key] = _from_polar(value['abs'], value['phase'])",
       "            data[key] = _from_polar(value['abs'], value['phase'])", None)]),
    # ---------------- H25: expanded helpers with function-valued / tuple-list arguments
    ('F20 H25 as written', 'passes', 'H25', []),
    ('F21 H25 C: the voltage rows and the current rows exchanged', 'caught', 'H25',
     [(SS, "        (ssm.c_row_voltage, voltage_ids),\n        (ssm.c_row_current, current_ids)", "        (ssm.c_row_current, voltage_ids),\n        (ssm.c_row_voltage, current_ids)", None)]),
    ('F22 H25 C starts with n_inputs columns', 'caught', 'H25', [(SS, 'C = _stack_rows(ssm.n_states, [', 'C = _stack_rows(ssm.n_inputs, [', None)]),
    ('F23 H25 the lambda of open_circuit_impedance passes (node2, node1)', 'caught', 'H25',
     [(IM, 'ntw_imp.open_circuit_impedance(network, node1, node2))', 'ntw_imp.open_circuit_impedance(network, node2, node1))', None)]),
    ('F24 H25 the capacitor values are read under the key L', 'caught', 'H25',
     [(SS, "_reactive_values(circuit, 'capacitor', 'C')", "_reactive_values(circuit, 'capacitor', 'L')", None)]),
    ('F25 H25 _stack_rows puts the new row on top', 'caught', 'H25',
     [(SS, 'matrix = np.vstack([matrix, row_of(id)])', 'matrix = np.vstack([row_of(id), matrix])', None)]),
    ('F26 H25 _frequency_sweep transforms at w = 0 for every frequency', 'caught', 'H25',
     [(IM, 'network_impedance(transform_circuit(circuit, w0))', 'network_impedance(transform_circuit(circuit, 0))', None)]),
    ('F27 H25 _reactive_values keeps the components of the OTHER types', 'caught', 'H25',
     [(SS, 'if c.type == component_type]', 'if c.type != component_type]', None)]),
    ('F28 H25 D: the potential rows come last', 'caught', 'H25',
     [(SS, "        (ssm.d_row_for_potential, potential_nodes),\n        (ssm.d_row_voltage, voltage_ids),\n        (ssm.d_row_current, current_ids)",
       "        (ssm.d_row_voltage, voltage_ids),\n        (ssm.d_row_current, current_ids),\n        (ssm.d_row_for_potential, potential_nodes)", None)]),
    ('F29 H25 element_impedance sweeps with the open-circuit lambda of the wrong callee', 'caught', 'H25',
     [(IM, 'lambda network: ntw_imp.element_impedance(network, element_id))', 'lambda network: ntw_imp.open_circuit_impedance(network, element_id, element_id))', None)]),
    # ---------------- H26: private module-level helpers of circuit.py, Norton's tuple assignment
    ('F30 H26 as written', 'passes', 'H26', []),
    ('F31 H26 _ground_node: without ground component the SECOND node of the first component', 'caught', 'H26',
     [(CC, '        return components[0].nodes[0]', '        return components[0].nodes[1]', None)]),
    ('F32 H26 _component_ids lists the types', 'caught', 'H26', [(CC, 'return [component.id for component in components]', 'return [component.type for component in components]', None)]),
    ('F33 H26 _component_frequencies: floor(w/w_max)', 'caught', 'H26', [(CC, 'n_max = np.floor(w_max/w)', 'n_max = np.floor(w/w_max)', None)]),
    ('F34 H26 Norton: U, Z = thevenin.Z, thevenin.U', 'caught', 'H26', [(ES, 'U, Z = thevenin.U, thevenin.Z', 'U, Z = thevenin.Z, thevenin.U', None)]),
    ('F35 H26 Norton: I = Z/U', 'caught', 'H26', [(ES, 'self.I = U/Z', 'self.I = Z/U', None)]),
    ('F36 H26 _ground_node: several ground components tolerated (first one wins)', 'caught', 'H26',
     [(CC, "    if len(ground_nodes) > 1:\n        raise MultipleGroundNodes(f'Component list contains multiple ground nodes: {str(ground_nodes)}')\n    if len(ground_nodes) == 0:\n        return components[0]",
       "    if len(ground_nodes) == 0:\n        return components[0]", None)]),
    ('F37 H26 _component_frequencies: floor(w_max*w)', 'caught', 'H26',
     [(CC, 'n_max = np.floor(w_max/w)', 'n_max = np.floor(w_max*w)', None)]),
    ('F38 H26 the duplicate-id check runs before the ground node is chosen', 'caught', 'H26',
     [(CC, "        self.ground_node = _ground_node(self.components)\n        if len(set(_component_ids(self.components))) != len(self.components):\n            raise AmbiguousComponentID(f'Component list contains multiple components with the same ID.')",
       "        if len(set(_component_ids(self.components))) != len(self.components):\n            raise AmbiguousComponentID(f'Component list contains multiple components with the same ID.')\n        self.ground_node = _ground_node(self.components)", None)]),
]


def main():
    ap = argparse.ArgumentParser()
    ap.add_argument('--repo', default=os.environ.get('VERIF_REPO', '/repo'))
    ap.add_argument('--harmless', default=os.path.join(os.path.dirname(HERE), 'harmless'))
    ap.add_argument('--work', default='/tmp/mutcheck_robf')
    ap.add_argument('--only', nargs='*')
    a = ap.parse_args()
    coq0 = os.path.join(os.path.dirname(HERE), 'coq')
    coq = os.path.join(a.work, 'coq')
    if not os.path.isdir(coq):
        os.makedirs(a.work, exist_ok=True)
        subprocess.run(['cp', '-a', coq0, coq], check=True)          # compiled copy (mtimes kept); rebuilt incrementally
    rows = []
    for name, expect, base, edits in EDITS + [('(restore: unmodified source)', 'passes', None, [])]:
        if a.only and not any(name.startswith(o) for o in a.only) and not name.startswith('('):
            continue
        root = os.path.join(a.work, 'repo')
        shutil.rmtree(root, ignore_errors=True)
        os.makedirs(root)
        shutil.copytree(os.path.join(a.repo, 'src'), os.path.join(root, 'src'))
        if base:
            patch = os.path.join(a.harmless, base, 'patch.diff')
            r = subprocess.run(['patch', '-p1', '--no-backup-if-mismatch', '-s', '-i', patch], cwd=root, capture_output=True, text=True)
            if r.returncode:
                raise SystemExit(f'{name}: base patch {patch} does not apply: {r.stdout}{r.stderr}')
        srcm = os.path.join(root, 'src', 'CircuitCalculator')
        apply_edits(srcm, edits, name)
        try:
            files = generate_all(srcm)
        except Unsupported as e:
            msg = str(e).replace(srcm + '/', '')
            rows.append((name, expect, 'caught', 'translator refuses: ' + msg))
            print(rows[-1], flush=True)
            continue
        except Exception as e:  # noqa: BLE001  (py2v.py poisons the output on any exception: fail closed)
            rows.append((name, expect, 'caught', f'translator fails: {type(e).__name__}: {e}'))
            print(rows[-1], flush=True)
            continue
        for fn, text in files.items():
            write_if_changed(os.path.join(coq, 'Gen', fn), text)
        r = subprocess.run(['timeout', '2400', 'make', '-k', '-j4'] + TARGETS, cwd=coq, capture_output=True, text=True)
        errs = []
        for m in re.finditer(r'File "\./([^"]+)", line (\d+), characters [0-9-]+:\s*\n\s*Error', r.stdout + r.stderr):
            lemma = enclosing(os.path.join(coq, m.group(1)), int(m.group(2)))
            errs.append(f'{m.group(1)}: {lemma}')
        if r.returncode == 0 and not errs:
            rows.append((name, expect, 'passes', 'all targets compile'))
        else:
            rows.append((name, expect, 'caught', 'stops compiling: ' + '; '.join(dict.fromkeys(errs)) if errs
                         else 'make failed: ' + (r.stderr.strip().splitlines() or ['?'])[-1]))
        print(rows[-1], flush=True)
    print()
    bad = 0
    for name, expect, got, detail in rows:
        flag = '' if expect == got else '   <-- UNEXPECTED'
        bad += expect != got
        print(f'{name}\n    {got}: {detail}{flag}')
    print(f'\n{len(rows)} entries, {bad} unexpected outcomes')
    return 1 if bad else 0


if __name__ == '__main__':
    sys.exit(main())
