#!/usr/bin/env python3
"""Mutation check of tools/gen_wrappers.py and of the equalities over its output (Theory/WrappersGenThm.v, Properties/C06e.v,
Properties/C10d.v).  For every edit below: copy the Python source tree, apply the edit to the COPY, run gen_wrappers.generate on
the copy; either the translator refuses (the message is recorded), or its output replaces Gen/WrappersGen.v in a private copy of
coq/ (made once with `cp -a`, so that every other .vo stays valid) and Gen/WrappersGen.v, Theory/WrappersGenThm.v,
Properties/C06e.v, Properties/C10d.v are recompiled there with coqc; the first file / lemma that stops compiling is recorded.
Edits marked `harmless` are behaviour-preserving rewrites: they must translate and every file must still compile.
usage: mutcheck_wrappers.py [--src /repo/src] [--coq DIR of the compiled development] [--work DIR] [--only NAME ...]"""
import argparse
import os
import re
import shutil
import subprocess
import sys

HERE = os.path.dirname(os.path.abspath(__file__))
sys.path.insert(0, HERE)
from v2lib import Unsupported  # noqa: E402
import gen_wrappers  # noqa: E402

IM = 'CircuitCalculator/Circuit/impedance.py'
SS = 'CircuitCalculator/Circuit/state_space_model.py'
SP = 'CircuitCalculator/SignalProcessing/state_space_model.py'
FILES = ['Gen/WrappersGen.v', 'Theory/WrappersGenThm.v', 'Properties/C06e.v', 'Properties/C10d.v']

H14_IMPEDANCE = '''import numpy as np
from typing import Callable
from .circuit import Circuit, transform_circuit
from ..Network.NodalAnalysis import node_analysis as ntw_imp
from ..Network.network import Network

def _frequency_sweep(circuit: Circuit, w: np.ndarray, network_impedance: Callable[[Network], complex]) -> np.ndarray:
    impedances = []
    for w0 in w:
        impedances.append(network_impedance(transform_circuit(circuit, w0)))
    return np.array(impedances)

def open_circuit_impedance(circuit: Circuit, node1: str, node2: str, w: np.ndarray = np.array([0])) -> np.ndarray:
    return _frequency_sweep(circuit, w, lambda network: ntw_imp.open_circuit_impedance(network, node1, node2))

def element_impedance(circuit: Circuit, element_id: str, w: np.ndarray = np.array([0])) -> np.ndarray:
    return _frequency_sweep(circuit, w, lambda network: ntw_imp.element_impedance(network, element_id))

def open_circuit_dc_resistance(circuit: Circuit, node1: str, node2: str) -> float:
    return open_circuit_impedance(circuit, node1, node2, w=np.array([0]))[0].real

def element_dc_resistance(circuit: Circuit, element_id: str) -> float:
    return element_impedance(circuit, element_id, w=np.array([0]))[0].real
'''

SWEEP1 = "np.array([ntw_imp.open_circuit_impedance(transform_circuit(circuit, w0), node1, node2) for w0 in w])"
C_LOOPS = """    for id in potential_nodes:
        C = np.vstack([C, ssm.c_row_for_potential(id)])
    for id in voltage_ids:
        C = np.vstack([C, ssm.c_row_voltage(id)])
"""
C_LOOPS_SWAPPED = """    for id in voltage_ids:
        C = np.vstack([C, ssm.c_row_voltage(id)])
    for id in potential_nodes:
        C = np.vstack([C, ssm.c_row_for_potential(id)])
"""

# (name, expectation 'caught' | 'harmless', [(file, old, new, occurrence index | None = exactly once)] | ('replace', file, text))
EDITS = [
    # ---------------- Circuit/impedance.py
    ("I01 sweep: every frequency transformed at w = 0", 'caught',
     [(IM, "ntw_imp.open_circuit_impedance(transform_circuit(circuit, w0), node1, node2)",
       "ntw_imp.open_circuit_impedance(transform_circuit(circuit, 0), node1, node2)", None)]),
    ("I02 sweep: node1 / node2 swapped in the call", 'caught',
     [(IM, "transform_circuit(circuit, w0), node1, node2)", "transform_circuit(circuit, w0), node2, node1)", None)]),
    ("I03 dc resistance: .real -> .imag", 'caught',
     [(IM, "open_circuit_impedance(circuit, node1, node2, w=np.array([0]))[0].real",
       "open_circuit_impedance(circuit, node1, node2, w=np.array([0]))[0].imag", None)]),
    ("I04 dc resistance: [0] -> [-1] (the same entry of a one-entry sweep: equivalent, outside the subset)", 'caught',
     [(IM, "open_circuit_impedance(circuit, node1, node2, w=np.array([0]))[0].real",
       "open_circuit_impedance(circuit, node1, node2, w=np.array([0]))[-1].real", None)]),
    ("I05 dc resistance evaluated at w = 1", 'caught',
     [(IM, "open_circuit_impedance(circuit, node1, node2, w=np.array([0]))[0].real",
       "open_circuit_impedance(circuit, node1, node2, w=np.array([1]))[0].real", None)]),
    ("I06 default of w: np.array([1])", 'caught',
     [(IM, "def open_circuit_impedance(circuit: Circuit, node1: str, node2: str, w: np.ndarray = np.array([0]))",
       "def open_circuit_impedance(circuit: Circuit, node1: str, node2: str, w: np.ndarray = np.array([1]))", None)]),
    ("I07 element_impedance: calls the open-circuit function of the element's id twice", 'caught',
     [(IM, "ntw_imp.element_impedance(transform_circuit(circuit, w0), element_id)",
       "ntw_imp.open_circuit_impedance(transform_circuit(circuit, w0), element_id, element_id)", None)]),
    ("I08 element_dc_resistance takes the open-circuit sweep of (id, id)", 'caught',
     [(IM, "element_impedance(circuit, element_id, w=np.array([0]))[0].real",
       "open_circuit_impedance(circuit, element_id, element_id, w=np.array([0]))[0].real", None)]),
    ("I09 sweep: an explicit w_resolution of 0 handed to transform_circuit", 'caught',
     [(IM, "ntw_imp.open_circuit_impedance(transform_circuit(circuit, w0), node1, node2)",
       "ntw_imp.open_circuit_impedance(transform_circuit(circuit, w0, 0), node1, node2)", None)]),
    ("I10 sweep reversed: np.array(list)[::-1]", 'caught',
     [(IM, SWEEP1, SWEEP1 + "[::-1]", None)]),
    ("I11 ntw_imp bound to another module (bias_point_analysis)", 'caught',
     [(IM, "from ..Network.NodalAnalysis import node_analysis as ntw_imp", "from ..Network.NodalAnalysis import bias_point_analysis as ntw_imp", None)]),
    ("I12 transform_circuit rebound by a later def", 'caught',
     [(IM, "def element_dc_resistance", "def transform_circuit(circuit, w):\n    return None\n\ndef element_dc_resistance", None)]),
    # ---------------- Circuit/state_space_model.py
    ("S01 network transformed at w = 1", 'caught', [(SS, "transform_circuit(circuit, w=0)", "transform_circuit(circuit, w=1)", None)]),
    ("S02 type strings 'capacitor' / 'inductance' swapped", 'caught',
     [(SS, "c.type == 'capacitor'", "c.type == 'XX'", None), (SS, "c.type == 'inductance'", "c.type == 'capacitor'", None),
      (SS, "c.type == 'XX'", "c.type == 'inductance'", None)]),
    ("S03 capacitances read from value['L']", 'caught', [(SS, "float(C.value['C'])", "float(C.value['L'])", None)]),
    ("S04 voltage rows stacked before potential rows (C)", 'caught', [(SS, C_LOOPS, C_LOOPS_SWAPPED, None)]),
    ("S05 D built from c_row_for_potential", 'caught',
     [(SS, "D = np.vstack([D, ssm.d_row_for_potential(id)])", "D = np.vstack([D, ssm.c_row_for_potential(id)])", None)]),
    ("S06 StateSpaceModel(C=D)", 'caught', [(SS, "        C=C,\n", "        C=D,\n", None)]),
    ("S07 StateSpaceModel(A=ssm.B)", 'caught', [(SS, "        A=ssm.A,\n", "        A=ssm.B,\n", None)]),
    ("S08 c_values / l_values exchanged", 'caught',
     [(SS, "        c_values={C.id", "        X_values={C.id", None), (SS, "        l_values={L.id", "        c_values={L.id", None),
      (SS, "        X_values={C.id", "        l_values={C.id", None)]),
    ("S09 C starts with n_inputs columns", 'caught',
     [(SS, "C = np.ndarray(shape=(0, ssm.n_states))", "C = np.ndarray(shape=(0, ssm.n_inputs))", None)]),
    ("S10 row stacked on top: np.vstack([row, C])", 'caught',
     [(SS, "C = np.vstack([C, ssm.c_row_current(id)])", "C = np.vstack([ssm.c_row_current(id), C])", None)]),
    ("S11 capacitor ids taken from the inductances (dict keyed by L.id over the capacitors' loop variable)", 'caught',
     [(SS, "for C in [c for c in circuit.components if c.type == 'capacitor']", "for C in [c for c in circuit.components if c.type != 'inductance']", None)]),
    ("S12 current rows for the voltage ids", 'caught',
     [(SS, "    for id in current_ids:\n        C = np.vstack", "    for id in voltage_ids:\n        C = np.vstack", None)]),
    ("S13 StateSpaceModel.n_states = A.shape[1] ... of B (property changed in SignalProcessing)", 'caught',
     [(SP, "        return self.A.shape[0]", "        return self.B.shape[1]", None)]),
    ("S14 StateSpaceModel.__post_init__: a check dropped", 'caught',
     [(SP, "        if self.D.shape[0] != self.C.shape[0]:\n            raise ValueError('Number of rows of matrix D must be equal to number of rows of matrix C')\n", "", None)]),
    ("S15 StateSpaceModel.__post_init__: C checked against B", 'caught',
     [(SP, "        if self.C.shape[1] != self.A.shape[0]:", "        if self.C.shape[1] != self.B.shape[1]:", None)]),
    # ---------------- behaviour-preserving rewrites
    ("H01 locals, loop variables and comprehension variables renamed", 'harmless',
     [(IM, "for w0 in w])", "for omega in w])", 'all'), (IM, "transform_circuit(circuit, w0)", "transform_circuit(circuit, omega)", 'all'),
      (SS, "    ssm = nodal_state_space_model(", "    model = nodal_state_space_model(", None), (SS, "ssm.", "model.", 'all'),
      (SS, "{C.id : float(C.value['C']) for C in", "{cap.id : float(cap.value['C']) for cap in", None),
      (SS, "for id in potential_nodes:\n        C = np.vstack([C, ssm.c_row_for_potential(id)])".replace('ssm.', 'model.'),
       "for node in potential_nodes:\n        C = np.vstack([C, model.c_row_for_potential(node)])", None)]),
    ("H02 the comprehensions bound to locals first", 'harmless',
     [(IM, "    return " + SWEEP1, "    impedances = [ntw_imp.open_circuit_impedance(transform_circuit(circuit, w0), node1, node2) for w0 in w]\n    return np.array(impedances)", None),
      (SS, "    ssm = nodal_state_space_model(\n        network=transform_circuit(circuit, w=0),\n        c_values={C.id : float(C.value['C']) for C in [c for c in circuit.components if c.type == 'capacitor']},",
       "    network = transform_circuit(circuit, w=0)\n    capacitors = [c for c in circuit.components if c.type == 'capacitor']\n    c_values = {C.id : float(C.value['C']) for C in capacitors}\n"
       "    ssm = nodal_state_space_model(\n        network=network,\n        c_values=c_values,", None)]),
    ("H03 positional arguments / keyword arguments exchanged where Python allows it", 'harmless',
     [(IM, "transform_circuit(circuit, w0), node1, node2)", "network=transform_circuit(circuit=circuit, w=w0), node1=node1, node2=node2)", None),
      (IM, "open_circuit_impedance(circuit, node1, node2, w=np.array([0]))[0].real", "open_circuit_impedance(circuit, node1, node2, np.array([0]))[0].real", None),
      (SS, "        A=ssm.A,\n        B=ssm.B,\n        C=C,\n        D=D\n", "        ssm.A,\n        ssm.B,\n        D=D,\n        C=C\n", None)]),
    ("H14 the maintainer's refactoring of impedance.py (seeded/harmless/H14): helper _frequency_sweep with a for loop appending to a "
     "list, lambdas passed in", 'harmless', ('replace', IM, H14_IMPEDANCE)),
]


def apply_edits(root, edits):
    if isinstance(edits, tuple) and edits[0] == 'replace':
        with open(os.path.join(root, edits[1]), 'w', encoding='utf-8') as f:
            f.write(edits[2])
        return
    for rel, old, new, occ in edits:
        path = os.path.join(root, rel)
        text = open(path, encoding='utf-8').read()
        n = text.count(old)
        if occ == 'all':
            if n == 0:
                raise SystemExit(f'edit does not apply: {rel}: {old!r}')
            text = text.replace(old, new)
        elif occ is None:
            if n != 1:
                raise SystemExit(f'edit does not apply exactly once ({n}): {rel}: {old!r}')
            text = text.replace(old, new)
        else:
            parts = text.split(old)
            if occ >= len(parts) - 1:
                raise SystemExit(f'edit does not apply: occurrence {occ} of {old!r} in {rel}')
            text = old.join(parts[:occ + 1]) + new + old.join(parts[occ + 1:])
        with open(path, 'w', encoding='utf-8') as f:
            f.write(text)


def enclosing(path, line):
    """name of the Lemma / Theorem / Example / Definition whose text contains the given line"""
    name = '?'
    with open(path, encoding='utf-8') as f:
        for i, text in enumerate(f, 1):
            mo = re.match(r'\s*(Lemma|Theorem|Example|Definition|Fixpoint|Corollary)\s+([A-Za-z0-9_\']+)', text)
            if mo:
                name = mo.group(2)
            if i >= line:
                break
    return name


def compile_all(coq):
    for rel in FILES:
        p = subprocess.run(['timeout', '900', 'coqc', '-Q', '.', 'CC', rel], cwd=coq, capture_output=True, text=True)
        if p.returncode != 0:
            err = p.stderr.strip()
            mo = re.search(r'File "([^"]+)", line (\d+)', err)
            where = enclosing(os.path.join(coq, rel), int(mo.group(2))) if mo else '?'
            msg = ' '.join(err.split('\n', 1)[1].split())[:160] if '\n' in err else err[:160]
            return f'stops compiling: {rel}: {where}   [{msg}]'
    return None


def main():
    ap = argparse.ArgumentParser()
    ap.add_argument('--src', default='/repo/src')
    ap.add_argument('--coq', default=os.path.join(os.path.dirname(HERE), 'coq'))
    ap.add_argument('--work', default='/tmp/genxB_mut')
    ap.add_argument('--only', nargs='*')
    args = ap.parse_args()
    os.makedirs(args.work, exist_ok=True)
    coq = os.path.join(args.work, 'coq')
    if not os.path.isdir(coq):
        subprocess.run(['cp', '-a', args.coq, coq], check=True)
    else:                                     # refresh the files this check is about
        for rel in FILES[1:] + ['Model/WrappersPrims.v', 'Model/CircuitWrappers.v']:
            shutil.copy2(os.path.join(args.coq, rel), os.path.join(coq, rel))
    for rel in ('Model/WrappersPrims.v', 'Model/CircuitWrappers.v'):
        subprocess.run(['timeout', '600', 'coqc', '-Q', '.', 'CC', rel], cwd=coq, check=True, capture_output=True)
    rows, bad = [], 0
    # the unchanged tree first: must translate and compile
    for name, expect, edits in [('U00 unchanged source', 'harmless', [])] + EDITS:
        if args.only and not any(name.startswith(o) for o in args.only):
            continue
        root = os.path.join(args.work, 'src')
        shutil.rmtree(root, ignore_errors=True)
        shutil.copytree(args.src, root)
        apply_edits(root, edits)
        try:
            out = gen_wrappers.generate(os.path.join(root, 'CircuitCalculator'))
        except Unsupported as e:
            msg = str(e).replace(root + '/', '')
            result = f'refused by the translator: {msg}'
        except Exception as e:  # noqa: BLE001
            result = f'translator failed: {type(e).__name__}: {e}'
        else:
            with open(os.path.join(coq, 'Gen', 'WrappersGen.v'), 'w', encoding='utf-8') as f:
                f.write(out['WrappersGen.v'])
            result = compile_all(coq) or 'translates, every file compiles'
        ok = (result == 'translates, every file compiles') == (expect == 'harmless')
        bad += 0 if ok else 1
        rows.append((name, expect, result, ok))
        print(f'{name}\n    {"ok" if ok else "UNEXPECTED"} ({expect}): {result}', flush=True)
    print(f'\n{len(rows)} edits, {bad} unexpected outcomes')
    return 1 if bad else 0


if __name__ == '__main__':
    sys.exit(main())
