#!/usr/bin/env python3
"""Confirm a candidate seeded change and run the checks against it.

usage: seedcheck.py <candidate dir with patch.diff, demo.py[, notes.md]> <seed id> <property> [--checks C01,C03] [--no-tests]

1. scratch worktree of /repo HEAD under /tmp, apply patch.diff (3-way if needed), run the pinned test command and the
   PYTHONPATH=<wt>/src test run, compare failing-test sets with the baseline of the unchanged worktree (cached);
   run demo.py with and without the patch (expect exit 1 / exit 0); remove the worktree.
2. apply the patch to /repo itself, run `./check <prop> --tier quick` for each requested check, record verdict lines,
   undo the patch (git checkout -- .).
3. write /verif/seeded/<seed id>/{patch.diff,demo.py,meta.json}."""
import json
import os
import re
import shutil
import subprocess
import sys

VERIF = os.path.dirname(os.path.dirname(os.path.abspath(__file__)))
REPO = '/repo'
BASE_CACHE = '/tmp/seedcheck_baseline.json'


def sh(cmd, cwd=None, env=None, timeout=3000):
    e = dict(os.environ)
    e.update(env or {})
    p = subprocess.run(cmd, shell=True, cwd=cwd, env=e, stdout=subprocess.PIPE, stderr=subprocess.STDOUT, text=True, timeout=timeout)
    return p.returncode, p.stdout


def failing(out):
    return sorted(set(re.findall(r'^(?:FAILED|ERROR) (\S+)', out, flags=re.M)))


def run_tests(wt):
    shutil.rmtree(os.path.join(wt, '.hypothesis'), ignore_errors=True)
    _, a = sh('/venv/bin/python -m pytest -q -p no:cacheprovider --timeout=900 --continue-on-collection-errors -rfE '
              '-p no:randomly', cwd=wt)
    shutil.rmtree(os.path.join(wt, '.hypothesis'), ignore_errors=True)
    _, b = sh('/venv/bin/python -m pytest -q -p no:cacheprovider --timeout=900 --continue-on-collection-errors -rfE tests',
              cwd=wt, env={'PYTHONPATH': os.path.join(wt, 'src'), 'MPLBACKEND': 'Agg'})
    return {'pinned': failing(a), 'src': failing(b), 'pinned_tail': a.strip().split('\n')[-1], 'src_tail': b.strip().split('\n')[-1]}


FLAKY = ('test_undictify_complex_from_abs_phase_data',)      # hypothesis tests that fail at random on the unchanged tree


def stable(ids):
    return [i for i in ids if not any(f in i for f in FLAKY)]


def phase2_sandbox(meta, newdiff, checks, sid, demo, cand):
    """run the checks of a private copy of /verif (SEED_SANDBOX=<dir>, with its own build) against a scratch worktree that
    carries the change (VERIF_REPO): /repo and /verif themselves are not touched, so other runs can go on meanwhile"""
    sb = os.environ['SEED_SANDBOX']
    wt = f'/tmp/seedwt2_{sid}'
    sh(f'git worktree remove --force {wt}', cwd=REPO)
    shutil.rmtree(wt, ignore_errors=True)
    rc, out = sh(f'git worktree add --detach {wt} HEAD', cwd=REPO)
    if rc != 0:
        print(out)
        return 2
    try:
        tmp = f'/tmp/seedpatch_{sid}.diff'
        open(tmp, 'w').write(newdiff)
        rc, out = sh(f'git apply {tmp}', cwd=wt)
        if rc != 0:
            rc, out = sh(f'git apply --3way {tmp}', cwd=wt)
            if rc != 0 or '<<<<<<<' in sh('git diff', cwd=wt)[1]:
                print('cannot apply (conflicts with later fix commits): ' + out[-300:])
                return 3
            sh('git reset -q', cwd=wt)
            _, newdiff = sh('git diff', cwd=wt)
        env = {'PYTHONPATH': os.path.join(wt, 'src'), 'MPLBACKEND': 'Agg', 'PYTHONHASHSEED': '0'}
        rcd, _ = sh(f'/venv/bin/python {demo}', cwd='/tmp', env=env, timeout=900)
        meta['confirmed']['demo_exit_on_current_head_with_change'] = rcd
        for c in checks:
            rc, out = sh(f'./check {c} --tier quick', cwd=sb, timeout=3000, env={'VERIF_REPO': wt})
            lines = [l for l in out.split('\n') if l.startswith(('VIOLATION', 'KNOWN-FINDING'))]
            meta['checks_run'][c] = {'exit': rc, 'lines': [l.replace(sb, '/verif') for l in lines[:8]], 'summary': out.strip().split('\n')[-1][:300]}
            print(c, 'exit', rc, *lines[:4], sep='\n   ')
    finally:
        sh(f'git worktree remove --force {wt}', cwd=REPO)
        shutil.rmtree(wt, ignore_errors=True)
    meta['detected_by'] = [c for c, r in meta['checks_run'].items() if r['exit'] == 1 and any(l.startswith('VIOLATION') for l in r['lines'])]
    dst = os.path.join(VERIF, 'seeded', sid)
    os.makedirs(dst, exist_ok=True)
    open(os.path.join(dst, 'patch.diff'), 'w').write(newdiff)
    shutil.copy(demo, os.path.join(dst, 'demo.py'))
    notes = os.path.join(cand, 'notes.md')
    if os.path.exists(notes):
        meta['needs_to_manifest'] = open(notes).read()[:1500]
    meta['what_was_run'] = ('scratch worktree: both test commands vs baseline failing sets, demo.py with/without patch; then the quick checks of an '
                            'identical copy of /verif (own build) run against a scratch worktree carrying the change (VERIF_REPO), so that /repo '
                            'itself stayed untouched')
    json.dump(meta, open(os.path.join(dst, 'meta.json'), 'w'), indent=1)
    print(json.dumps({k: meta[k] for k in ('confirmed', 'detected_by')}, indent=1)[:1500])
    return 0


def main():
    args = sys.argv[1:]
    cand, sid, prop = args[0], args[1], args[2]
    checks = [prop]
    no_tests = '--no-tests' in args
    for k, a in enumerate(args):
        if a == '--checks':
            checks = args[k + 1].split(',')
    head = sh('git rev-parse --short HEAD', cwd=REPO)[1].strip()
    rc, st = sh('git status --porcelain', cwd=REPO)
    if st.strip() and '--confirm-only' not in args and not os.environ.get('SEED_SANDBOX'):
        print('refusing: /repo is not clean:\n' + st)
        return 2
    patch = os.path.abspath(os.path.join(cand, 'patch.diff'))
    demo = os.path.abspath(os.path.join(cand, 'demo.py'))
    meta = {'seed': sid, 'property': prop, 'repo_head': head, 'checks_run': {}, 'confirmed': {}}
    prev = os.path.join(cand, 'confirm.json')
    if no_tests and os.path.exists(prev):
        pc = json.load(open(prev))
        meta['confirmed'] = pc['confirmed']
        meta['confirmed_at_repo_head'] = pc.get('repo_head')
        return phase2(meta, pc['diff'], checks, sid, demo, cand)
    wt = f'/tmp/seedwt_{sid}'
    sh(f'git worktree remove --force {wt}', cwd=REPO)
    shutil.rmtree(wt, ignore_errors=True)
    rc, out = sh(f'git worktree add --detach {wt} HEAD', cwd=REPO)
    if rc != 0:
        print(out)
        return 2
    try:
        env = {'PYTHONPATH': os.path.join(wt, 'src'), 'MPLBACKEND': 'Agg', 'PYTHONHASHSEED': '0'}
        rc0, d0 = sh(f'/venv/bin/python {demo}', cwd=wt, env=env, timeout=900)
        if not no_tests:
            base = None
            if os.path.exists(BASE_CACHE):
                base = json.load(open(BASE_CACHE))
                if base.get('head') != head:
                    base = None
            if base is None:
                base = run_tests(wt)
                base['head'] = head
                json.dump(base, open(BASE_CACHE, 'w'))
        rc, out = sh(f'git apply {patch}', cwd=wt)
        how = 'git apply'
        if rc != 0:
            rc, out = sh(f'git apply --3way {patch}', cwd=wt)
            how = 'git apply --3way'
        if rc != 0:
            print('patch does not apply:\n' + out)
            meta['confirmed']['applies'] = False
            return 3
        meta['confirmed']['applies'] = how
        _, newdiff = sh('git diff', cwd=wt)
        rc1, d1 = sh(f'/venv/bin/python {demo}', cwd=wt, env=env, timeout=900)
        meta['confirmed']['demo_exit_unchanged'] = rc0
        meta['confirmed']['demo_exit_changed'] = rc1
        meta['confirmed']['demo_output_changed'] = d1[-600:]
        if not no_tests:
            t = run_tests(wt)
            meta['confirmed']['tests_pinned_same'] = stable(t['pinned']) == stable(base['pinned'])
            meta['confirmed']['tests_src_same'] = stable(t['src']) == stable(base['src'])
            meta['confirmed']['tests_tail'] = [t['pinned_tail'], t['src_tail']]
            if not meta['confirmed']['tests_src_same']:
                meta['confirmed']['tests_src_diff'] = sorted(set(t['src']) ^ set(base['src']))[:10]
    finally:
        sh(f'git worktree remove --force {wt}', cwd=REPO)
        shutil.rmtree(wt, ignore_errors=True)
    json.dump({'confirmed': meta['confirmed'], 'repo_head': head, 'diff': newdiff}, open(os.path.join(cand, 'confirm.json'), 'w'), indent=1)
    if '--confirm-only' in args:
        print(sid, json.dumps({k: v for k, v in meta['confirmed'].items() if k != 'demo_output_changed'}))
        return 0
    return phase2(meta, newdiff, checks, sid, demo, cand)


def phase2(meta, newdiff, checks, sid, demo, cand):
    if os.environ.get('SEED_SANDBOX'):
        return phase2_sandbox(meta, newdiff, checks, sid, demo, cand)
    # ---- the checks against the changed /repo
    tmp = f'/tmp/seedpatch_{sid}.diff'
    open(tmp, 'w').write(newdiff)
    rc, out = sh(f'git apply {tmp}', cwd=REPO)
    if rc != 0:
        rc, out = sh(f'git apply --3way {tmp}', cwd=REPO)
        if rc != 0 or '<<<<<<<' in sh('git diff', cwd=REPO)[1]:
            sh('git reset -q --hard HEAD', cwd=REPO)
            print('cannot apply to /repo (conflicts with later fix commits): ' + out[-300:])
            return 3
        sh('git reset -q', cwd=REPO)
        # the demo must still fail on the adapted tree
        env = {'PYTHONPATH': os.path.join(REPO, 'src'), 'MPLBACKEND': 'Agg', 'PYTHONHASHSEED': '0'}
        rcd, _ = sh(f'/venv/bin/python {demo}', cwd='/tmp', env=env, timeout=900)
        meta['confirmed']['demo_exit_changed_after_3way'] = rcd
        _, newdiff = sh('git diff', cwd=REPO)
    try:
        for c in checks:
            rc, out = sh(f'./check {c} --tier quick', cwd=VERIF, timeout=3000)
            lines = [l for l in out.split('\n') if l.startswith(('VIOLATION', 'KNOWN-FINDING'))]
            meta['checks_run'][c] = {'exit': rc, 'lines': lines[:8], 'summary': out.strip().split('\n')[-1][:300]}
            print(c, 'exit', rc, *lines[:4], sep='\n   ')
    finally:
        sh('git checkout -- .', cwd=REPO)
        os.remove(tmp)
    meta['detected_by'] = [c for c, r in meta['checks_run'].items() if r['exit'] == 1 and any(l.startswith('VIOLATION') for l in r['lines'])]
    dst = os.path.join(VERIF, 'seeded', sid)
    os.makedirs(dst, exist_ok=True)
    open(os.path.join(dst, 'patch.diff'), 'w').write(newdiff)
    shutil.copy(demo, os.path.join(dst, 'demo.py'))
    notes = os.path.join(cand, 'notes.md')
    if os.path.exists(notes):
        meta['needs_to_manifest'] = open(notes).read()[:1500]
    meta['what_was_run'] = ('scratch worktree: both test commands vs baseline failing sets, demo.py with/without patch; then patch '
                            'applied to /repo, ./check <prop> --tier quick, git checkout -- .')
    json.dump(meta, open(os.path.join(dst, 'meta.json'), 'w'), indent=1)
    print(json.dumps({k: meta[k] for k in ('confirmed', 'detected_by')}, indent=1)[:1500])
    return 0


if __name__ == '__main__':
    sys.exit(main())
