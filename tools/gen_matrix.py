"""Translator module: the matrix assembly of CircuitCalculator.Network.NodalAnalysis -> coq/Gen/MatrixGen.v.

Sources: Network/NodalAnalysis/node_analysis.py, Network/NodalAnalysis/state_space_model.py, the three list-valued
methods of Network (network.py: branches_connected_to, nodes_connected_to, branches_between) that gen_network.py leaves
out, and the class LabelMapping and the function `filter` of label_mapping.py (module py_label_mapping_m; see below).

A typed, compositional Python -> Gallina translation in the style of gen_network.py (whose signature table is reused for
every call into elements.py / network.py / label_mapping.py / transformers.py, so that those calls follow the source).
Everything outside the subset enumerated here raises v2lib.Unsupported with file:line and the construct (fail-closed).
The generated definitions are written against Model/Network.v, Model/NetworkPrims.v, Model/MatrixPrims.v and
Gen/NetworkGen.v; Theory/MatrixGenThm.v proves each of them equal to the hand-written model.

Accepted subset
  top level   imports (numpy as np, itertools, dataclasses, typing and the package-relative imports of the known modules),
              `class X(Exception): ...`, defs, the dataclass NodalStateSpaceModel(sp.StateSpaceModel) with pinned fields
  types       str -> label; complex / float -> K (possibly-infinite element properties -> option K); int -> nat; bool;
              Network, Branch, elements; map.NetworkMapper / map.SourceIndexMapper -> function network -> mapping (mappers of
              the `enumerate` kind: index = position); LabelMapping -> mapping; map.filter(...) -> fmapping;
              dict[str, float] -> association list; np.ndarray -> arr2 (2-D), list K (1-D), list bool (mask); tuples
  statements  return E | x = E | a, b[, c, d] = E | if C: <block ending in return> [else ...] | nested def (a closure; it is
              bound where it is first used, and no variable it reads may be assigned after that)
              | `for T in ITER:` whose body consists of  M[i, j] = E | M[i][j] = E | M[m(a, b)] = E | M[k][m(a)] = E
                | v[i] = E | x = E | if C: <such statements>  for ONE array M that is not read in the body
                -> fold_left over ITER (for_res when the body can raise); ITER: a list, m / m.keys / m.values of a mapping,
                a dict (its keys), enumerate(L), itertools.product(A, B) | product(A, repeat=2) | combinations(A, 2),
                a tuple literal of pairs; nested for loops
              | v[i] = E (outside a loop, on a local 1-D array) | `while s in L: s += '<str>'`
              | `try: x = np.linalg.solve(A, b)  except np.linalg.LinAlgError: return E`
  expressions names, int / str literals, np.inf, attribute access on the known classes, calls of translated functions /
              methods / local functions / mapper parameters (keywords and defaults as in gen_network), Network(...),
              Branch(...), NodalStateSpaceModel(...), network[id], m[k], m(k), d[k], v[i], M[i], M[i][:], M[:][a:b], M[a:b],
              M[:, L], M[np.ix_(r, c)], v[mask], mask[i], mask[:i], X.shape[0|1], X.T, X.real, A @ B, A @ v, -A, A - B,
              c * v, A / z, + - * / on numbers, + on lists and on indices, == != in `not in`, and or not, a if c else b,
              sum(...), any([...]), len, list(d.keys()).index(k), L.index(x), d.values(), np.zeros, np.hstack, np.vstack,
              np.array([...]), np.diag, np.isfinite(x), np.linalg.inv, np.count_nonzero, A.any(axis=1),
              map.filter(m, lambda ...), set((a, b)) == set((c, d)), L.sort(key=lambda ...) on a fresh list,
              list / generator / set comprehensions with one `for` (name or pair target, enumerate allowed) and one `if`
  An element admittance `.Y` (np.inf for an ideal voltage source) is accepted as a number only under an
  `if np.isfinite(<the same expression>)` filter of the same comprehension.
  m[k] / m(k) is the pure position lookup when k is a loop variable ranging over m itself or under `if k in m`;
  otherwise it can raise KeyError.  Expressions that can raise are sequenced with `bind` in evaluation order; inside
  comprehensions / lambdas they give map_res / filter_res / a raising lambda; they are refused in the non-first operands
  of and / or / if-else.
Guards (the model has neither aliasing nor mutation): an array is written into only if it was created by np.zeros in the
same function and is not read in the loop that fills it; `x = y` for an array y is refused; the variables of a loop are
unusable after it; a local read by a nested function must not be assigned once that function is in use.
Not translated (named here, refused when used): node_analysis.calculate_node_voltages0 and DimensionError (unused by the
library), NodalStateSpaceModel._one_vector (unused), the shape checks of sp.StateSpaceModel.__post_init__.

Additions made so that behaviour-preserving refactorings (harmless/H3, H4, H6) stay inside the subset.  Every one is an
enumerated shape with a fixed Gallina meaning; everything else is still refused.
  * FUNCTION VALUES (fun_value).  They occur only as ARGUMENTS: of a Callable parameter, of sorted(key=), filter, map and
    label_mapping.filter.  A function value is: `lambda x1 ... xn: E`; the name of a nested def or of a translated
    module-level function; a Callable parameter passed on; a bound method `self.m` of NodalStateSpaceModel / LabelMapping
    (evaluating `self.m` has no effect; the value is the translated method applied to self).  Its parameter and result
    types must be exactly the expected ones (no defaults, no *args).
  * annotation `Callable[[T1, ..., Tn], R]` (typing.Callable) on a PARAMETER (as in gen_network.py, but here the function
    may raise): the type T1 -> ... -> Tn -> res R; a pure function value passed for it is wrapped as fun x => Ok (f x);
    `f(a1, ..., an)` on such a parameter is application, sequenced with bind like any call that can raise.  An
    `np.ndarray` result stands for a 2-D array (a function value with another result is refused by the type check).
  * private helpers (`def _name` at module level, methods `_name`): translated like any other definition, and
    `#[global] Hint Unfold _name : py_private.` is emitted after them (as gen_network.py does) so that the proofs about
    their callers can look through them without knowing their names.
  * `sorted(L, key=F)`, L a list, F a PURE function value item -> str  ->  `sort_by_key F L`: the same stable sort as the
    accepted `L.sort(key=...)`, on a copy.
  * `list(X)` / `tuple(X)` with X = `filter(F, L)` | `map(F, L)` | a generator expression: consumed at once, in order
    -> `filter F L` / `map F L` (filter_res / map_res, sequenced, when F can raise); builtins filter / map / sorted /
    iter must not be shadowed (builtin_named; label_mapping.py defines its own `filter`).  `list(d)` of a dict: its keys.
  * the set display `{a, b} == {c, d}`: the same `set2_eqb` as `set((a, b)) == set((c, d))`.
  * a comprehension whose `if` AND element can both raise -> `comp_res c f L` (item by item: c(x1), f(x1), c(x2), ...).
  * dict comprehension `{k: v for ...}` (str keys) -> `dict_of_items [(k, v) ...]`: items stored in order, a repeated key
    keeps its first position and gets the last value.
  * `d = {}` followed by statements that fill it with `d[k] = E` inside `for` loops (the loop shapes above, with the dict as
    the ONE carried object) -> `@nil`, `dict_set d k E` (E, then k, evaluated; an existing key keeps its position).  The
    value type is that of the first E stored (dry run).  Guards as for arrays: only a dict created by `{}` in the same
    function, not read in the loop; once the dict has been read as a value (it may have been stored, e.g.
    LabelMapping(d)), no further write is accepted.
  * `raise X` / `raise X()`: X a builtin KeyError / ValueError, or the module's `class DistinctValues(Exception): ...`
    (-> Err EOther: Model/Network.v has no constructor of its own) -> `Err e`; `-> None` functions: falling off the end is
    `Ok tt` / `tt`.
  * len(set(L)) for a list of ints -> natset_len (natset_of_list L).
  * class LabelMapping and label_mapping.filter are TRANSLATED (they used to be compared with a pinned text), over the dict
    of the object (`self.mapping` IS the object: type fmapping = list (label * nat)): __post_init__, __getitem__,
    __call__ (`*labels: str` -> the list of the labels; result tuple[int, ...] -> list nat), keys, values, N, __iter__
    (`return iter(X)`: the items of X in order; accepted only there), the generated __init__ (LabelMapping__new: store
    the field, run __post_init__), and filter (inside label_mapping.py `m[k]`, `m.keys`, LabelMapping(d) are calls of
    these translated members).  The OTHER modules keep seeing a mapper-built LabelMapping as its key list (type mapping,
    primitives mapping_keys / mapping_values / mapping_N / mapping_item / mapping_index / mapping_filter[_res] /
    fmapping_*); Theory/MatrixGenThm.v (section LabelMappingClass, label_mapping_filter_eq, ...) proves that each
    translated member applied to `lm_dict m` (the dict {k: v for v, k in enumerate(m)}) IS that primitive, for keys
    without duplicates.  Only the SHAPE of the class is fixed (Gen.label_mapping_class): a plain @dataclass, the one
    field `mapping: dict[str, int]`, exactly the seven members above with their decorators — one more special method
    (__contains__, __len__, __eq__, __setitem__, ...) would change the meaning of `in`, len, ==, ... behind the back of
    the primitives."""
import ast
import os

from v2lib import Unsupported, parse, where, coq_string_codes as S
import gen_network as gn
from gen_network import (K, OPTK, LABEL, KIND, BOOL, NAT, ELEM, BRANCH, NET, UNIT, MAPPING, SET, TList, TOpt, TPair,
                         TDict, TInt, VEC, par, app, Sig)

MAT, MAPPER, FMAPPING, NSSM, NDARR = 'mat', 'mapper', 'fmapping', 'nssm', 'ndarr'
LMOBJ = 'lmobj'          # a LabelMapping object seen from inside label_mapping.py: its dict (label -> index), Coq type fmapping
NATSET = 'natset'        # set(<list of ints>), only observed through len
BVEC = TList(BOOL)
UNKNOWN = 'unknown'      # value type of a local `x = {}` before its first `x[k] = E`
INFER = 'infer'          # a return annotation that does not fix the type (np.ndarray, complex, int, tuple[...])


def TTuple(ts):
    ts = tuple(ts)
    return TPair(ts[0], ts[1]) if len(ts) == 2 else ('tuple',) + ts


def TFun(args, ret, monadic):
    return ('fun', tuple(args), ret, monadic)


def is_list(t):
    return isinstance(t, tuple) and t[0] == 'list'


def is_int(t):
    return isinstance(t, tuple) and t[0] == 'int'


def TVTuple(t):
    """tuple[T, ...]: a tuple of any length (*args, tuple(...)); a Coq list, but NOT a Python list: it can be built, returned,
    iterated, measured (len) and converted with list(...), nothing else (tuple + list raises TypeError in Python)"""
    return ('vtuple', t)


def is_vtuple(t):
    return isinstance(t, tuple) and t[0] == 'vtuple'


def is_seq(t):
    return (is_list(t) or is_vtuple(t)) and t[1] is not None


def is_fun(t):
    return isinstance(t, tuple) and t[0] == 'fun'


def is_dict(t):
    return isinstance(t, tuple) and t[0] == 'dict'


def coq_ty(t):
    simple = {MAT: 'arr2 K', MAPPER: 'network K -> mapping', FMAPPING: 'fmapping', NSSM: 'nssm K', NDARR: 'ndarr K',
              LMOBJ: 'fmapping', NATSET: 'list nat'}
    if isinstance(t, str) and t in simple:
        return simple[t]
    if isinstance(t, tuple):
        if t[0] in ('list', 'vtuple'):
            if t[1] is None:
                raise Unsupported('a list whose element type is never determined')
            return f'list ({coq_ty(t[1])})'
        if t[0] == 'opt':
            return f'option ({coq_ty(t[1])})'
        if t[0] == 'pair':
            return f'({coq_ty(t[1])} * {coq_ty(t[2])})'
        if t[0] == 'tuple':
            return '(' + ' * '.join(coq_ty(x) for x in t[1:]) + ')'
        if t[0] == 'dict':
            return f'list (label * {coq_ty(t[1])})'
        if t[0] == 'fun':
            r = coq_ty(t[2])
            return ' -> '.join([par(coq_ty(a)) for a in t[1]] + [f'res ({r})' if t[3] else par(r)])
    return gn.coq_ty(t)


# ------------------------------------------------------------------ source modules
PKG = {'network': ('Network', 'network'), 'elements': ('Network', 'elements'), 'transformers': ('Network', 'transformers'),
       'label_mapping': ('Network', 'NodalAnalysis', 'label_mapping'), 'node_analysis': ('Network', 'NodalAnalysis', 'node_analysis'),
       'state_space_model': ('Network', 'NodalAnalysis', 'state_space_model'), 'sp': ('SignalProcessing', 'state_space_model')}
BYPKG = {v: k for k, v in PKG.items()}
GN_COQMOD = {'elements': 'py_elements', 'network': 'py_network', 'label_mapping': 'py_label_mapping',
             'transformers': 'py_transformers'}
COQMOD = {'network': 'py_network_m', 'node_analysis': 'py_node_analysis', 'state_space_model': 'py_state_space'}
FOREIGN_OK = {'typing', 'dataclasses', 'abc'}
SKIP_FUNCS = {'node_analysis': {'calculate_node_voltages0'}, 'state_space_model': set()}
SKIP_METHODS = {'NodalStateSpaceModel': {'_one_vector'}}
NET_METHODS = ('branches_connected_to', 'nodes_connected_to', 'branches_between')
# np.ndarray parameters: which of the array types
PARAM_ARRAY = {('_row_for_potential', 'matrix'): MAT}
# `raise X`: the builtin exceptions, and the module-level `class X(Exception): ...` named here (Model/Network.v has no
# constructor of its own for DistinctValues: EOther)
EXC = {'KeyError': 'EKeyError', 'ValueError': 'EValue'}
EXC_LOCAL = {('label_mapping', 'DistinctValues'): 'EOther'}

ANN = {'str': LABEL, 'complex': K, 'float': K, 'bool': BOOL, 'int': NAT, 'Network': NET, 'Branch': BRANCH,
       'list[str]': TList(LABEL), 'list[Branch]': TList(BRANCH), 'set[str]': SET, 'map.NetworkMapper': MAPPER,
       'map.SourceIndexMapper': MAPPER, 'map.LabelMapping': MAPPING, 'dict[str, float]': TDict(K),
       'NodalStateSpaceModel': NSSM, 'None': UNIT}
# inside label_mapping.py a LabelMapping is the object itself (its dict)
ANN_LABEL_MAPPING = {'LabelMapping': LMOBJ, 'tuple[int, ...]': TVTuple(NAT), 'list[int]': TList(NAT)}
RET_INFER = {'complex', 'int', 'np.ndarray', 'tuple[np.ndarray, np.ndarray]',
             'tuple[np.ndarray, np.ndarray, np.ndarray, np.ndarray]'}

# label_mapping.py: the class LabelMapping and the function filter are TRANSLATED (module py_label_mapping_m) over the dict of
# the object, and Theory/MatrixGenThm.v proves each translated member equal to the primitive mapping_* / fmapping_* that the
# other modules use for it.  What is fixed here is only the SHAPE of the class: a plain @dataclass with the one field
# `mapping: dict[str, int]` and exactly these members (an added __contains__ / __len__ / __eq__ / __setitem__ ... would
# change the meaning of `k in m`, len(m), ... behind the back of the primitives).
LM_FIELD = ('mapping', 'dict[str, int]')
LM_METHODS = {'__post_init__': (), '__getitem__': (), '__call__': (), '__iter__': (),
              'keys': ('property',), 'values': ('property',), 'N': ('property',)}
PINNED_SSM_FIELDS = [('A', 'np.ndarray'), ('B', 'np.ndarray'), ('C', 'np.ndarray'), ('D', 'np.ndarray')]
NSSM_FIELDS = [('network', 'Network', NET), ('c_values', 'dict[str, float]', TDict(K)), ('l_values', 'dict[str, float]', TDict(K)),
               ('node_index_mapping', 'map.LabelMapping', MAPPING), ('voltage_source_index_mapping', 'map.LabelMapping', MAPPING),
               ('current_source_index_mapping', 'map.LabelMapping', MAPPING)]
NSSM_ALL = [('A', MAT), ('B', MAT), ('C', MAT), ('D', MAT)] + [(f, t) for f, _, t in NSSM_FIELDS]


def U(node, path, msg):
    return Unsupported(f'{where(node, path)}: {msg}')


def ident_ok(name):
    return name.isascii() and name.isidentifier() and "'" not in name


class Src:
    """one source file: imports resolved against the package layout, functions, classes"""

    def __init__(self, key, root):
        self.key = key
        self.path = os.path.normpath(os.path.join(root, *PKG[key]) + '.py')
        self.tree = parse(self.path)
        self.imports, self.funcs, self.classes = {}, {}, {}
        pkg = PKG[key][:-1]
        for st in self.tree.body:
            if isinstance(st, ast.Import):
                for a in st.names:
                    top = a.name.split('.')[0]
                    if a.name == 'numpy':
                        what = ('np',)
                    elif a.name == 'itertools':
                        what = ('itertools',)
                    elif top in FOREIGN_OK or top == 'scipy':
                        what = ('foreign', a.name)
                    else:
                        raise U(st, self.path, f'import {a.name}')
                    self.bind(a.asname or top, what, st)
            elif isinstance(st, ast.ImportFrom):
                if any(a.name == '*' for a in st.names):
                    raise U(st, self.path, 'star import')
                if st.level == 0:
                    if st.module.split('.')[0] not in FOREIGN_OK:
                        raise U(st, self.path, f'from {st.module} import ...')
                    for a in st.names:
                        self.bind(a.asname or a.name, ('foreign', f'{st.module}.{a.name}'), st)
                    continue
                if st.level - 1 > len(pkg):
                    raise U(st, self.path, 'relative import beyond the package')
                base = pkg[:len(pkg) - (st.level - 1)]
                for a in st.names:
                    if st.module:
                        m = BYPKG.get(tuple(base) + tuple(st.module.split('.')))
                        m2 = BYPKG.get(tuple(base) + tuple(st.module.split('.')) + (a.name,))
                        what = ('name', m, a.name) if m else (('mod', m2) if m2 else ('foreign', f'{st.module}.{a.name}'))
                    else:
                        m = BYPKG.get(tuple(base) + (a.name,))
                        what = ('mod', m) if m else ('foreign', a.name)
                    self.bind(a.asname or a.name, what, st)
            elif isinstance(st, ast.ClassDef):
                self.bind(st.name, ('class', key, st.name), st)
                self.classes[st.name] = st
            elif isinstance(st, ast.FunctionDef):
                self.bind(st.name, ('func', key, st.name), st)
                self.funcs[st.name] = st
            elif key in ('node_analysis', 'state_space_model'):
                raise U(st, self.path, f'top-level statement {type(st).__name__}')
            elif isinstance(st, (ast.Assign, ast.AnnAssign)):
                for t in (st.targets if isinstance(st, ast.Assign) else [st.target]):
                    if isinstance(t, ast.Name):
                        self.bind(t.id, ('assign', st.lineno), st)

    def bind(self, name, what, node):
        if self.imports.get(name, what) != what:
            raise U(node, self.path, f'module-level name {name} bound twice')
        self.imports[name] = what


# ------------------------------------------------------------------ translation environment
class Env:
    def __init__(self, gen, mod, state):
        self.gen, self.mod, self.state = gen, mod, state
        self.vars = {}          # Python local -> (Coq term, type)
        self.localfuns = {}     # materialised nested def -> Sig
        self.deferred = {}      # nested def not yet bound -> FunctionDef
        self.frozen = {}        # local read by a materialised closure -> name of that closure
        self.pending = []       # raising sub-expressions [(tmp, term)] of the current statement, in evaluation order
        self.nolift = 0
        self.keyof = {}         # loop variable -> Coq term of the mapping whose keys it ranges over
        self.finite = set()     # ast dumps of expressions under an np.isfinite filter
        self.facts = set()      # (dump k, dump m) for enclosing `if k in m`
        self.fresh_lists = set()
        self.fresh_arrays = set()   # locals bound to np.zeros(...) in this function: the only arrays that may be written into

    @property
    def path(self):
        return self.mod.path

    def child(self):
        e = Env(self.gen, self.mod, self.state)
        e.vars, e.localfuns, e.deferred, e.frozen = dict(self.vars), dict(self.localfuns), dict(self.deferred), dict(self.frozen)
        e.nolift, e.keyof, e.finite, e.facts = self.nolift, dict(self.keyof), set(self.finite), set(self.facts)
        e.fresh_lists = set(self.fresh_lists)
        e.fresh_arrays = set(self.fresh_arrays)
        return e

    def scope(self):
        """sub-environment of a comprehension / lambda / loop body: raising sub-expressions are collected locally"""
        e = self.child()
        e.pending, e.nolift = [], 0
        return e

    def fresh(self):
        self.state['tmp'] += 1
        return f't{self.state["tmp"]}'

    def bind_var(self, name, ty, node=None):
        if not ident_ok(name):
            raise U(node, self.path, f'identifier {name!r}')
        if name in self.frozen:
            raise U(node, self.path, f'assignment to {name}, which the local function {self.frozen[name]} (already in use) reads')
        self.vars[name] = (name + "'", ty)
        self.keyof.pop(name, None)
        self.localfuns.pop(name, None)
        self.deferred.pop(name, None)
        return name + "'"

    def lift(self, term, ty, node):
        if self.nolift:
            raise U(node, self.path, f'expression that can raise in a guarded operand: {ast.unparse(node)}')
        self.state['lifted'] += 1
        t = self.fresh()
        self.pending.append((t, term))
        return t, ty

    def take(self):
        p, self.pending = self.pending, []
        return p


def wrap(pending, body):
    for t, term in reversed(pending):
        body = f'bind ({term}) (fun {t} =>\n  {body})'
    return body


def new_state(name, ret, mode, infer=False):
    return {'tmp': 0, 'lifted': 0, 'mode': mode, 'name': name, 'ret': ret, 'rets': [], 'infer': infer, 'declared': None}


def num_lit(n, node, env):
    if n == 0:
        return 'f0 K'
    if n == 1:
        return 'f1 K'
    if n == -1:
        return 'fopp K (f1 K)'
    raise U(node, env.path, f'integer literal {n} used as a number (only 0, 1, -1)')


def coerce(term, ty, want, node, env):
    if want is None or ty == want:
        return term
    if is_int(ty):
        n = ty[1]
        if want == K:
            return num_lit(n, node, env)
        if want == OPTK:
            return app('Some', num_lit(n, node, env))
        if want == NAT and n >= 0:
            return str(n)
        raise U(node, env.path, f'integer literal {n} where {want} is expected')
    if ty == K and want == OPTK:
        return app('Some', term)
    if ty == OPTK and want == K:
        if isinstance(node, ast.Attribute) and node.attr == 'Y' and ast.dump(node) not in env.finite:
            raise U(node, env.path, f'{ast.unparse(node)} (np.inf for an ideal voltage source) used as a number outside an '
                                    f'`if np.isfinite({ast.unparse(node)})` filter')
        return app('opt0', term)
    if ty == VEC and want == NDARR:
        return app('A1', term)
    if ty == MAT and want == NDARR:
        return app('A2', term)
    if ty == TList(None) and (is_list(want) or (isinstance(want, tuple) and want[0] == 'dict')):
        return f'@nil ({coq_ty(want[1]) if is_list(want) else "label * " + coq_ty(want[1])})'
    raise U(node, env.path, f'type mismatch: {ast.unparse(node)} has type {ty}, expected {want}')


def join(a, b, node, env):
    if a == b:
        return a
    if is_int(a) and is_int(b):
        return K
    for x, y in ((a, b), (b, a)):
        if is_int(x) and y in (K, OPTK, NAT):
            return y
    if {a, b} == {K, OPTK}:
        return OPTK
    if {a, b} <= {VEC, MAT, NDARR}:
        return NDARR
    raise U(node, env.path, f'branches of different types {a} / {b}')


def callable_type(a, path, mod):
    """Callable[[T1, ..., Tn], R] (typing.Callable) on a parameter: a function value that may raise, T1 -> ... -> Tn -> res R.
    An np.ndarray result is a 2-D array (a function value with another result type is refused where it is passed)."""
    if not (isinstance(a, ast.Subscript) and isinstance(a.value, ast.Name) and a.value.id == 'Callable'):
        return None
    if mod is None or mod.imports.get('Callable') != ('foreign', 'typing.Callable'):
        raise U(a, path, 'Callable is not typing.Callable')
    sl = a.slice
    if not (isinstance(sl, ast.Tuple) and len(sl.elts) == 2 and isinstance(sl.elts[0], ast.List) and sl.elts[0].elts):
        raise U(a, path, f'annotation {ast.unparse(a)} (Callable[[T1, ..., Tn], R] expected)')
    args = [ann_type(x, x, path, mod=mod) for x in sl.elts[0].elts]
    r = sl.elts[1]
    ret = MAT if ast.unparse(r) == 'np.ndarray' else ann_type(r, r, path, mod=mod)
    if any(is_fun(t) for t in args + [ret]) or ret == UNIT:
        raise U(a, path, f'annotation {ast.unparse(a)} (higher-order / None-valued Callable)')
    return TFun(args, ret, True)


def ann_type(a, node, path, ret=False, owner=None, mod=None, param=False):
    if a is None:
        raise U(node, path, 'missing annotation')
    s = ast.unparse(a)
    if ret and s in RET_INFER:
        return INFER
    if s == 'np.ndarray' and owner in PARAM_ARRAY:
        return PARAM_ARRAY[owner]
    if param:
        t = callable_type(a, path, mod)
        if t is not None:
            return t
    if mod is not None and mod.key == 'label_mapping' and s in ANN_LABEL_MAPPING:
        return ANN_LABEL_MAPPING[s]
    if s not in ANN or (ANN[s] == UNIT and not ret):
        raise U(a, path, f'annotation {s}')
    return ANN[s]


def guarded(env, f):
    env.nolift += 1
    try:
        return f()
    finally:
        env.nolift -= 1


def tr(e, env, want=None):
    if is_fun(want):
        t, mon = fun_value(e, env, list(want[1]), want[2], monadic=want[3])
        return t, want
    t, ty = tr_expr(e, env, want)
    return coerce(t, ty, want, e, env), (want if want is not None else ty)


def imported(e, env):
    """what a bare Name refers to at module level (None for a local / an unknown name)"""
    if isinstance(e, ast.Name) and e.id not in env.vars and e.id not in env.localfuns and e.id not in env.deferred:
        return env.mod.imports.get(e.id)
    return None


def is_np(e, env, *attrs):
    """np.a.b... """
    for a in reversed(attrs):
        if not (isinstance(e, ast.Attribute) and e.attr == a):
            return False
        e = e.value
    return imported(e, env) == ('np',)


def tr_expr(e, env, want=None):
    path = env.path
    if isinstance(e, ast.Constant):
        v = e.value
        if type(v) is bool:
            return ('true' if v else 'false'), BOOL
        if type(v) is int:
            return str(v), TInt(v)
        if type(v) is str:
            c = f' (* {v!r} *)' if v.replace('_', '').replace(' ', '').isalnum() and v.isascii() else ''
            return f'{S(v)}{c}', LABEL
        raise U(e, path, f'constant {v!r}')
    if isinstance(e, ast.Name):
        if e.id in env.vars:
            if is_dict(env.vars[e.id][1]):
                env.fresh_arrays.discard(e.id)      # a dict read as a value may be stored (LabelMapping(d)): no write after that
            return env.vars[e.id]
        return tr_global_value(e, env, want)
    if isinstance(e, ast.Attribute):
        return tr_attribute(e, env, want)
    if isinstance(e, ast.Call):
        return tr_call(e, env, want)
    if isinstance(e, ast.Subscript):
        return tr_subscript(e, env)
    if isinstance(e, ast.Compare):
        return tr_compare(e, env)
    if isinstance(e, ast.BoolOp):
        op = '&&' if isinstance(e.op, ast.And) else '||'
        first, _ = tr(e.values[0], env, BOOL)
        rest = [guarded(env, lambda v=v: tr(v, env, BOOL)[0]) for v in e.values[1:]]
        t = par(first)
        for r in rest:
            t = f'{t} {op} {par(r)}'
        return t, BOOL
    if isinstance(e, ast.UnaryOp):
        if isinstance(e.op, ast.Not):
            return app('negb', tr(e.operand, env, BOOL)[0]), BOOL
        if isinstance(e.op, (ast.USub, ast.UAdd)):
            neg = isinstance(e.op, ast.USub)
            if isinstance(e.operand, ast.Constant) and type(e.operand.value) is int:
                v = -e.operand.value if neg else e.operand.value
                return str(v), TInt(v)
            t, ty = tr_expr(e.operand, env)
            if ty == MAT:
                return (app('np_neg', t) if neg else t), MAT
            t = coerce(t, ty, K, e.operand, env)
            return (app('fopp K', t) if neg else t), K
        raise U(e, path, f'unary operator {type(e.op).__name__}')
    if isinstance(e, ast.BinOp):
        return tr_binop(e, env)
    if isinstance(e, ast.IfExp):
        c, _ = tr(e.test, env, BOOL)
        a, at = guarded(env, lambda: tr_expr(e.body, env, want))
        b, bt = guarded(env, lambda: tr_expr(e.orelse, env, want))
        ty = want if want is not None else join(at, bt, e, env)
        return f'if {c} then {coerce(a, at, ty, e.body, env)} else {coerce(b, bt, ty, e.orelse, env)}', ty
    if isinstance(e, ast.Tuple):
        if len(e.elts) < 2:
            raise U(e, path, 'tuple with fewer than two components')
        ts = [tr_expr(x, env) for x in e.elts]
        return '(' + ', '.join(t for t, _ in ts) + ')', TTuple(ty for _, ty in ts)
    if isinstance(e, ast.List):
        if e.elts:
            ts = [tr_expr(x, env) for x in e.elts]
            ty = ts[0][1]
            for (_, t2), x in zip(ts, e.elts):
                if t2 != ty:
                    raise U(x, path, 'list literal with elements of different types')
            return '[' + '; '.join(t for t, _ in ts) + ']', TList(ty)
        return '[]', TList(None)
    if isinstance(e, ast.Dict) and not e.keys:
        return '[]', TList(None)
    if isinstance(e, ast.DictComp):
        # {k: v for ...}: the (k, v), key before value, item by item, stored one after the other (dict_of_items: a repeated
        # key keeps its first position and gets the last value)
        pair = ast.copy_location(ast.Tuple(elts=[e.key, e.value], ctx=ast.Load()), e)
        t, ety = tr_comp(ast.copy_location(ast.ListComp(elt=pair, generators=e.generators), e), env)
        if not (isinstance(ety, tuple) and ety[0] == 'pair' and ety[1] == LABEL) or is_int(ety[2]):
            raise U(e, path, f'dict comprehension with items of type {ety}')
        return app('dict_of_items', t), TDict(ety[2])
    if isinstance(e, (ast.ListComp, ast.SetComp)):
        t, ety = tr_comp(e, env)
        if isinstance(e, ast.SetComp):
            if ety != LABEL:
                raise U(e, path, 'set comprehension whose elements are not strings')
            return app('set_of_list', t), SET
        return t, TList(ety)
    raise U(e, path, f'expression {type(e).__name__}: {ast.unparse(e)}')


def tr_binop(e, env):
    path = env.path
    l, lt = tr_expr(e.left, env)
    r, rt = tr_expr(e.right, env)
    op = type(e.op)
    if op is ast.MatMult:
        if lt == MAT and rt == MAT:
            return app('np_matmul', l, r), MAT
        if lt == MAT and rt == VEC:
            return app('np_matvec', l, r), VEC
        raise U(e, path, f'@ between {lt} and {rt}')
    if op is ast.Add and is_list(lt):
        return f'{par(l)} ++ {par(coerce(r, rt, lt, e.right, env))}', lt
    if op is ast.Add and NAT in (lt, rt) and all(t == NAT or is_int(t) for t in (lt, rt)):
        return app('Nat.add', coerce(l, lt, NAT, e.left, env), coerce(r, rt, NAT, e.right, env)), NAT
    if op is ast.Sub and lt == MAT and rt == MAT:
        return app('np_sub', l, r), MAT
    if op is ast.Mult and rt == VEC and lt in (K, OPTK):
        return app('np_scal_vec', coerce(l, lt, K, e.left, env), r), VEC
    if op is ast.Div and lt in (MAT, VEC) and rt in (K, OPTK):
        return app('np_div_opt' if lt == MAT else 'vec_div_opt', l, coerce(r, rt, OPTK, e.right, env)), lt
    ops = {ast.Add: 'fadd', ast.Sub: 'fsub', ast.Mult: 'fmul', ast.Div: 'fdiv'}
    if op not in ops:
        raise U(e, path, f'binary operator {op.__name__}')
    if is_int(lt) and is_int(rt):
        raise U(e, path, 'integer arithmetic on literals')
    if not all(t in (K, OPTK) or is_int(t) for t in (lt, rt)):
        raise U(e, path, f'{op.__name__} between {lt} and {rt}')
    return app(f'{ops[op]} K', coerce(l, lt, K, e.left, env), coerce(r, rt, K, e.right, env)), K


# ------------------------------------------------------------------ iteration sources, patterns, comprehensions
def tr_iter(e, env):
    """an iterable -> (Coq list term, element type, key info); key info: the mapping term a label ranges over, or a
    pair of key infos"""
    path = env.path
    if isinstance(e, ast.Call) and isinstance(e.func, ast.Name) and imported(e.func, env) is None \
            and e.func.id == 'enumerate' and e.func.id not in env.vars and len(e.args) == 1 and not e.keywords:
        t, ty, k = tr_iter(e.args[0], env)
        return app('enumerate', t), TPair(NAT, ty), (None, k)
    if isinstance(e, ast.Call) and isinstance(e.func, ast.Attribute) and imported(e.func.value, env) == ('itertools',):
        if e.func.attr == 'product':
            kw = {k.arg: k.value for k in e.keywords}
            if len(e.args) == 1 and list(kw) == ['repeat'] and isinstance(kw['repeat'], ast.Constant) and kw['repeat'].value == 2:
                a, b = e.args[0], e.args[0]
            elif len(e.args) == 2 and not kw:
                a, b = e.args
            else:
                raise U(e, path, 'itertools.product other than product(A, B) / product(A, repeat=2)')
            ta, tya, ka = tr_iter(a, env)
            tb, tyb, kb = tr_iter(b, env)
            return app('list_prod', ta, tb), TPair(tya, tyb), (ka, kb)
        if e.func.attr == 'combinations' and len(e.args) == 2 and not e.keywords and isinstance(e.args[1], ast.Constant) \
                and e.args[1].value == 2:
            ta, tya, ka = tr_iter(e.args[0], env)
            return app('combinations2', ta), TPair(tya, tya), (ka, ka)
        raise U(e, path, f'itertools.{e.func.attr}')
    if isinstance(e, ast.Tuple):                       # for a, b in ((x, 1), (y, -1)):
        rows = []
        for x in e.elts:
            if not (isinstance(x, ast.Tuple) and len(x.elts) == 2):
                raise U(e, path, 'iteration over a tuple literal whose items are not pairs')
            a, at = tr_expr(x.elts[0], env)
            b, bt = tr_expr(x.elts[1], env)
            rows.append((a, at, coerce(b, bt, K, x.elts[1], env) if is_int(bt) else b, K if is_int(bt) else bt))
        if not rows or any((r[1], r[3]) != (rows[0][1], rows[0][3]) for r in rows):
            raise U(e, path, 'iteration over a tuple literal with items of different types')
        return '[' + '; '.join(f'({a}, {b})' for a, _, b, _ in rows) + ']', TPair(rows[0][1], rows[0][3]), None
    t, ty = tr_expr(e, env)
    if ty == MAPPING:
        return app('mapping_keys', t), LABEL, t
    if isinstance(ty, tuple) and ty[0] == 'dict':
        return app('dict_keys', t), LABEL, None
    if is_seq(ty):
        k = None
        if isinstance(e, ast.Attribute) and e.attr == 'keys':
            m, mty = tr_expr(e.value, env)
            k = m if mty == MAPPING else None
        return t, ty[1], k
    raise U(e, path, f'iteration over a value of type {ty}')


def bind_pattern(tg, ty, kinfo, env, top=True):
    if isinstance(tg, ast.Name):
        v = env.bind_var(tg.id, ty, tg)
        if isinstance(kinfo, str):
            env.keyof[tg.id] = kinfo
        return v
    if isinstance(tg, ast.Tuple) and len(tg.elts) == 2 and isinstance(ty, tuple) and ty[0] == 'pair':
        ks = kinfo if isinstance(kinfo, tuple) else (None, None)
        a = bind_pattern(tg.elts[0], ty[1], ks[0], env, False)
        b = bind_pattern(tg.elts[1], ty[2], ks[1], env, False)
        return ("'" if top else '') + f'({a}, {b})'
    raise U(tg, env.path, f'loop target {ast.unparse(tg)} for items of type {ty}')


def single_generator(e, env):
    if len(e.generators) != 1:
        raise U(e, env.path, 'comprehension with several `for`')
    g = e.generators[0]
    if g.is_async or len(g.ifs) > 1:
        raise U(e, env.path, 'comprehension with several `if` / async')
    return g


def tr_comp(e, env, elt_want=None):
    """[E for T in L if C]: map / filter, or map_res / filter_res (lifted) when E / C can raise"""
    g = single_generator(e, env)
    src, ety, kinfo = tr_iter(g.iter, env)
    sub = env.scope()
    pat = bind_pattern(g.target, ety, kinfo, sub)
    cp = []
    if g.ifs:
        c0 = g.ifs[0]
        if isinstance(c0, ast.Call) and is_np(c0.func, sub, 'isfinite') and len(c0.args) == 1 and not c0.keywords:
            sub.finite.add(ast.dump(c0.args[0]))
        c, _ = tr(c0, sub, BOOL)
        cp = sub.take()
    identity = isinstance(e.elt, ast.Name) and isinstance(g.target, ast.Name) and e.elt.id == g.target.id
    body, bty = tr(e.elt, sub, elt_want)
    bp = sub.take()
    if cp and bp:
        # filter and element are evaluated item by item (c(x1), f(x1), c(x2), ...): comp_res keeps that order
        t = app('comp_res', f'(fun {pat} => {wrap(cp, app("Ok", c))})', f'(fun {pat} => {wrap(bp, app("Ok", body))})', src)
        return env.lift(t, TList(bty), e)[0], bty
    if g.ifs:
        if cp:
            src, _ = env.lift(app('filter_res', f'(fun {pat} => {wrap(cp, app("Ok", c))})', src), TList(ety), e)
        else:
            src = app('filter', f'(fun {pat} => {c})', src)
    if bp:
        return env.lift(app('map_res', f'(fun {pat} => {wrap(bp, app("Ok", body))})', src), TList(bty), e)[0], bty
    return (src if identity else app('map', f'(fun {pat} => {body})', src)), bty


def tr_lambda(e, argtypes, env, want=None):
    """lambda x: E with the parameter types given by the context -> (Coq fun, result type, can raise)"""
    a = e.args
    if a.vararg or a.kwarg or a.kwonlyargs or a.posonlyargs or a.defaults or len(a.args) != len(argtypes):
        raise U(e, env.path, f'lambda {ast.unparse(e)}')
    sub = env.scope()
    bs = ' '.join(sub.bind_var(x.arg, t, e) for x, t in zip(a.args, argtypes))
    body, bty = tr(e.body, sub, want)
    p = sub.take()
    if p:
        return f'(fun {bs} => {wrap(p, app("Ok", body))})', bty, True
    return f'(fun {bs} => {body})', bty, False


def fun_value(e, env, argtypes, ret, monadic=None):
    """a function value (only ever an ARGUMENT: of a Callable parameter, of sorted(key=), filter, map, label_mapping.filter)
    of the type argtypes -> ret: a lambda, a Callable parameter, a nested def, a translated module-level function, a
    translated method of self (`self.m`, a bound method).  -> (Coq term, it can raise).
    monadic=True: the term has type argtypes -> res ret whatever the function (a pure one is wrapped in Ok);
    monadic=False: a function that can raise is refused; monadic=None: as it comes."""
    path = env.path
    n = len(argtypes)

    def done(term, mon, what):
        if mon and monadic is False:
            raise U(e, path, f'{what} can raise where a pure function is expected: {ast.unparse(e)}')
        if monadic and not mon:
            xs = ' '.join(f'x{i}' for i in range(n))
            return f'(fun {xs} => Ok ({term} {xs}))', True
        return term, mon

    def check(sig, params, what):
        if [t for _, t in params] != list(argtypes) or sig.ret != ret or getattr(sig, 'vararg', None):
            raise U(e, path, f'{what} {ast.unparse(e)} has the type {[t for _, t in params]} -> {sig.ret}, '
                             f'expected {list(argtypes)} -> {ret}')

    if isinstance(e, ast.Lambda):
        a = e.args
        if a.vararg or a.kwarg or a.kwonlyargs or a.posonlyargs or a.defaults or len(a.args) != n:
            raise U(e, path, f'lambda {ast.unparse(e)}')
        sub = env.scope()
        bs = ' '.join(sub.bind_var(x.arg, t, e) for x, t in zip(a.args, argtypes))
        body, _ = tr(e.body, sub, ret)
        p = sub.take()
        if p and monadic is False:
            raise U(e, path, f'lambda that can raise where a pure function is expected: {ast.unparse(e)}')
        if p or monadic:
            return f'(fun {bs} => {wrap(p, app("Ok", body))})', True
        return f'(fun {bs} => {body})', False
    if isinstance(e, ast.Name):
        if e.id in env.vars:
            t, ty = env.vars[e.id]
            if not is_fun(ty) or list(ty[1]) != list(argtypes) or ty[2] != ret:
                raise U(e, path, f'{e.id} of type {ty} used as a function {list(argtypes)} -> {ret}')
            return done(t, ty[3], 'function parameter')
        if e.id in env.localfuns:
            sig = env.localfuns[e.id]
            check(sig, sig.params, 'local function')
            return done(sig.coqname, sig.monadic, 'local function')
        if e.id in env.deferred:
            raise U(e, path, f'internal: local function {e.id} not bound before use')
        r = env.mod.imports.get(e.id)
        if r and r[0] in ('name', 'func'):
            sig = env.gen.global_sig(r[1], r[2], e, path)
            check(sig, sig.params, 'function')
            return done(f'({sig.coqname} K)', sig.monadic, 'function')
        raise U(e, path, f'name {e.id} used as a function value')
    if isinstance(e, ast.Attribute):
        if isinstance(e.value, ast.Name) and e.value.id not in env.vars:
            r = imported(e.value, env)
            if r and r[0] == 'mod' and r[1]:
                sig = env.gen.global_sig(r[1], e.attr, e, path)
                check(sig, sig.params, 'function')
                return done(f'({sig.coqname} K)', sig.monadic, 'function')
            raise U(e, path, f'{ast.unparse(e)} used as a function value')
        o, oty = tr_expr(e.value, env)
        if oty in (NSSM, LMOBJ):                # a bound method: evaluating `self.m` has no effect
            kind, sig = env.gen.nssm_member(e.attr, e, path) if oty == NSSM else env.gen.lm_member(e.attr, e, path)
            if kind != 'method':
                raise U(e, path, f'property {e.attr} used as a function value')
            check(sig, sig.params[1:], 'method')
            return done(f'({sig.coqname} K {par(o)})', sig.monadic, 'method')
        raise U(e, path, f'attribute {e.attr} of a value of type {oty} used as a function value')
    raise U(e, path, f'expression used as a function value: {ast.unparse(e)}')


def builtin_named(f, env, *names):
    """f is the bare name of one of the builtins `names`, not shadowed by a local, a nested def or a module-level name
    (label_mapping.py defines its own `filter`)"""
    return (isinstance(f, ast.Name) and f.id in names and f.id not in env.vars and f.id not in env.localfuns
            and f.id not in env.deferred and f.id not in env.mod.imports)


# ------------------------------------------------------------------ attributes, globals, calls
def tr_global_value(e, env, want):
    """a module-level function used as a value: only as a mapper (network -> mapping)"""
    sig = None
    if isinstance(e, ast.Name):
        r = env.mod.imports.get(e.id)
        if r and r[0] in ('name', 'func'):
            sig = env.gen.global_sig(r[1], r[2], e, env.path)
    elif isinstance(e, ast.Attribute) and isinstance(e.value, ast.Name):
        r = imported(e.value, env)
        if r and r[0] == 'mod':
            sig = env.gen.global_sig(r[1], e.attr, e, env.path)
    if sig is None:
        raise U(e, env.path, f'name {ast.unparse(e)} used as a value')
    if sig.monadic or len(sig.params) != 1 or sig.params[0][1] != NET or sig.ret != MAPPING:
        raise U(e, env.path, f'function {ast.unparse(e)} used as a value, but it is not a mapper (Network -> LabelMapping)')
    return f'{sig.coqname} K', MAPPER


def tr_attribute(e, env, want=None):
    path = env.path
    if isinstance(e.value, ast.Name) and e.value.id not in env.vars:
        if is_np(e, env, 'inf'):
            return 'None', OPTK
        return tr_global_value(e, env, want)
    o, oty = tr_expr(e.value, env)
    a = e.attr
    if oty == ELEM:
        sig = env.gen.gn_sig('py_elements', f'get_{a}', e, path)
        return app(f'{sig.coqname} K', o), sig.ret
    if oty == BRANCH:
        rec = gn.RECORDS['Branch']
        if a in rec['proj']:
            return app(rec['proj'][a], o), rec['ty'][a]
        sig = env.gen.gn_sig('py_network', f'Branch_{a}', e, path)
        return app(f'{sig.coqname} K', o), sig.ret
    if oty == NET:
        rec = gn.RECORDS['Network']
        if a in rec['proj']:
            return app(rec['proj'][a], o), rec['ty'][a]
        sig = env.gen.gn_sig('py_network', f'Network_{a}', e, path)
        if len(sig.params) != 1:
            raise U(e, path, f'method Network.{a} used as a value')
        t = app(f'{sig.coqname} K', o)
        return env.lift(t, sig.ret, e) if sig.monadic else (t, sig.ret)
    if oty == MAPPING:
        if a == 'keys':
            return app('mapping_keys', o), TList(LABEL)
        if a == 'values':
            return app('mapping_values', o), TList(NAT)
        if a == 'N':
            return app('mapping_N', o), NAT
        raise U(e, path, f'LabelMapping.{a}')
    if oty == FMAPPING:
        if a == 'keys':
            return app('fmapping_keys', o), TList(LABEL)
        raise U(e, path, f'filtered LabelMapping.{a}')
    if oty == LMOBJ:                            # inside label_mapping.py: the members are the translated ones
        if a == LM_FIELD[0]:
            env.gen.label_mapping_class()
            return o, TDict(NAT)
        kind, sig = env.gen.lm_member(a, e, path)
        if kind != 'property':
            raise U(e, path, f'method {a} used as a value')
        t = app(f'{sig.coqname} K', o)
        return env.lift(t, sig.ret, e) if sig.monadic else (t, sig.ret)
    if oty == MAT:
        if a == 'T':
            return app('np_T', o), MAT
        if a == 'real':
            return app('np_real', o), MAT
        raise U(e, path, f'ndarray.{a}')
    if oty == NSSM:
        for f, t in NSSM_ALL:
            if a == f:
                env.gen.check_nssm()
                return app(f'm_{f}', o), t
        kind, sig = env.gen.nssm_member(a, e, path)
        if kind != 'property':
            raise U(e, path, f'method {a} used as a value')
        t = app(f'{sig.coqname} K', o)
        return env.lift(t, sig.ret, e) if sig.monadic else (t, sig.ret)
    raise U(e, path, f'attribute {a} of a value of type {oty}')


def match_args(call, names, env):
    if any(isinstance(a, ast.Starred) for a in call.args) or any(k.arg is None for k in call.keywords):
        raise U(call, env.path, '* / ** arguments')
    if len(call.args) > len(names):
        raise U(call, env.path, 'too many positional arguments')
    out = list(zip(names, call.args))
    for k in call.keywords:
        if k.arg not in names or k.arg in [p for p, _ in out]:
            raise U(call, env.path, f'keyword argument {k.arg}')
        out.append((k.arg, k.value))
    return out


def apply_sig(sig, call, env, first=None, local=False):
    if getattr(sig, 'vararg', None):
        raise U(call, env.path, f'call of {sig.coqname}, which takes *{sig.vararg}')
    pnames = [p for p, _ in sig.params]
    ptypes = dict(sig.params)
    given = {}
    if first is not None:
        given[pnames[0]] = first
    for p, a in match_args(call, pnames[(1 if first is not None else 0):], env):
        given[p] = tr(a, env, ptypes[p])[0]
    args = []
    for p in pnames:
        if p in given:
            args.append(given[p])
        elif p in sig.defaults:
            args.append(f'{sig.defaults[p]} K')
        else:
            raise U(call, env.path, f'missing argument {p}')
    t = app(sig.coqname if local else f'{sig.coqname} K', *args)
    if sig.monadic:
        return env.lift(t, sig.ret, call)
    return t, sig.ret


def tr_call(e, env, want=None):
    path, gen = env.path, env.gen
    f = e.func
    if isinstance(f, ast.Name):
        n = f.id
        if n in env.vars:
            t, ty = env.vars[n]
            if ty == MAPPER and len(e.args) == 1 and not e.keywords:
                return app(t, tr(e.args[0], env, NET)[0]), MAPPING
            if is_fun(ty) and len(e.args) == len(ty[1]) and not e.keywords and not any(isinstance(a, ast.Starred) for a in e.args):
                args = [tr(a, env, at)[0] for a, at in zip(e.args, ty[1])]       # a Callable parameter: application
                return env.lift(app(t, *args), ty[2], e) if ty[3] else (app(t, *args), ty[2])
            raise U(e, path, f'call of the local value {n} of type {ty}')
        if n in env.localfuns:
            return apply_sig(env.localfuns[n], e, env, local=True)
        if n in env.deferred:
            raise U(e, path, f'internal: local function {n} not bound before use')
        r = env.mod.imports.get(n)
        if r is None:
            return tr_builtin(n, e, env, want)
        return tr_global_call(r, e, env, want)
    if not isinstance(f, ast.Attribute):
        raise U(e, path, f'call of {ast.unparse(f)}')
    r = imported(f.value, env)
    if r == ('np',):
        return tr_np(f.attr, e, env, want)
    if is_np(f, env, 'linalg', 'inv') and len(e.args) == 1 and not e.keywords:
        return env.lift(app('np_linalg_inv', tr(e.args[0], env, MAT)[0]), MAT, e)
    if r is not None:
        if r[0] == 'mod' and r[1]:
            return tr_global_call(('name', r[1], f.attr), e, env, want)
        raise U(e, path, f'call of {ast.unparse(f)}')
    # method call on a value
    o, oty = tr_expr(f.value, env)
    m = f.attr
    if oty == NET:
        if m in NET_METHODS:
            return apply_sig(gen.net_method(m, e, path), e, env, first=o)
        return apply_sig(gen.gn_sig('py_network', f'Network_{m}', e, path), e, env, first=o)
    if oty == MAPPER and len(e.args) == 1 and not e.keywords:
        return app(o, tr(e.args[0], env, NET)[0]), MAPPING
    if isinstance(oty, tuple) and oty[0] == 'dict' and not e.args and not e.keywords:
        if m == 'values':
            return app('dict_values', o), TList(oty[1])
        if m == 'keys':
            return app('dict_keys', o), TList(LABEL)
    if oty == TList(LABEL) and m == 'index' and len(e.args) == 1 and not e.keywords:
        return env.lift(app('list_index', o, tr(e.args[0], env, LABEL)[0]), NAT, e)
    if oty == MAT and m == 'any' and not e.args and len(e.keywords) == 1 and e.keywords[0].arg == 'axis' \
            and isinstance(e.keywords[0].value, ast.Constant) and e.keywords[0].value.value == 1:
        return app('np_any_axis1', o), BVEC
    if oty == NSSM:
        kind, sig = gen.nssm_member(m, e, path)
        if kind == 'method':
            return apply_sig(sig, e, env, first=o)
    raise U(e, path, f'method call .{m}() on a value of type {oty}')


def tr_global_call(r, e, env, want):
    path, gen = env.path, env.gen
    if r[0] not in ('name', 'func', 'class'):
        raise U(e, path, f'call of {ast.unparse(e.func)} ({r[0]})')
    key, name = r[1], r[2]
    if key in ('network',) and name in ('Network', 'Branch'):
        rec = gn.RECORDS[name]
        vals = {p: tr(a, env, rec['ty'][p])[0] for p, a in match_args(e, rec['order'], env)}
        if name == 'Network':
            sig = gen.gn_sig('py_network', 'Network__new', e, path)
            if [p for p, _ in sig.params] != rec['order']:
                raise U(e, path, 'Network(...): unexpected constructor signature')
            args = []
            for p in rec['order']:
                if p in vals:
                    args.append(vals[p])
                elif p == 'node_zero_label':
                    args.append('py_network.Network__default_node_zero_label K')
                else:
                    raise U(e, path, f'Network(...): field {p} not given')
            return env.lift(app(f'{sig.coqname} K', *args), NET, e)
        if set(vals) != set(rec['order']):
            raise U(e, path, 'Branch(...): every field must be given')
        return app(rec['ctor'], *[vals[p] for p in rec['order']]), BRANCH
    if key == 'label_mapping' and name == 'filter' and env.mod.key != 'label_mapping':
        gen.label_mapping_class()
        if len(e.args) != 2 or e.keywords:
            raise U(e, path, 'map.filter(m, f) expected')
        m, _ = tr(e.args[0], env, MAPPING)
        lam, mon = fun_value(e.args[1], env, [LABEL], BOOL)
        if mon:
            return env.lift(app('mapping_filter_res', m, lam), FMAPPING, e)
        return app('mapping_filter', m, lam), FMAPPING
    if key == 'label_mapping' and name == 'LabelMapping' and env.mod.key == 'label_mapping':
        return apply_sig(gen.lm_new(e, path), e, env)               # LabelMapping(d): the dataclass __init__ + __post_init__
    if key == 'state_space_model' and name == 'NodalStateSpaceModel':
        gen.check_nssm()
        vals = {p: tr(a, env, dict(NSSM_ALL)[p])[0] for p, a in match_args(e, [f for f, _ in NSSM_ALL], env)}
        if len(e.args) or set(vals) != {f for f, _ in NSSM_ALL}:
            raise U(e, path, 'NodalStateSpaceModel(...): every field must be given by keyword')
        return app('Build_nssm', *[vals[f] for f, _ in NSSM_ALL]), NSSM
    return apply_sig(gen.global_sig(key, name, e, path), e, env)


def tr_lazy(e, env):
    """the argument of list(...) / tuple(...) that is consumed at once: filter(F, L) | map(F, L) | a generator expression
    -> (Coq list term, element type), or None"""
    if isinstance(e, ast.GeneratorExp):
        return tr_comp(e, env)
    if isinstance(e, ast.Call) and builtin_named(e.func, env, 'filter', 'map') and len(e.args) == 2 and not e.keywords \
            and not any(isinstance(a, ast.Starred) for a in e.args):
        # Python evaluates F, then L, and calls F on the items in order while list(...) / tuple(...) consumes the iterator
        fnode, lnode = e.args
        l, lty = tr_expr(lnode, env)
        if not is_seq(lty):
            raise U(e, env.path, f'{e.func.id}(f, L) over a value of type {lty}')
        if e.func.id == 'filter':
            f, mon = fun_value(fnode, env, [lty[1]], BOOL)
            if mon:
                return env.lift(app('filter_res', f, l), TList(lty[1]), e)[0], lty[1]
            return app('filter', f, l), lty[1]
        for rty in MAP_RESULTS:                  # the result type of the mapped function: that of the function itself
            try:
                f, mon = fun_value(fnode, env, [lty[1]], rty)
            except Unsupported:
                continue
            if mon:
                return env.lift(app('map_res', f, l), TList(rty), e)[0], rty
            return app('map', f, l), rty
        raise U(e, env.path, f'map(f, L): f is not a function value from {lty[1]} to one of {MAP_RESULTS}')
    return None


MAP_RESULTS = (NAT, LABEL, K, BOOL)


def tr_builtin(n, e, env, want):
    path = env.path
    a = e.args
    if any(isinstance(x, ast.Starred) for x in a) or any(k.arg is None for k in e.keywords):
        raise U(e, path, f'{n}(...) with * / ** arguments')
    if n == 'sorted' and len(a) == 1 and len(e.keywords) == 1 and e.keywords[0].arg == 'key':
        # sorted(L, key=f) = a copy of L after L.sort(key=f): the same stable sort
        t, ty = tr_expr(a[0], env)
        if not is_seq(ty):
            raise U(e, path, f'sorted(..., key=...) of a value of type {ty}')
        f, _ = fun_value(e.keywords[0].value, env, [ty[1]], LABEL, monadic=False)
        return app('sort_by_key', f, t), TList(ty[1])
    if e.keywords:
        raise U(e, path, f'{n}(...) with keyword arguments')
    if n == 'len' and len(a) == 1:
        t, ty = tr_expr(a[0], env)
        if ty == SET:
            return app('set_len', t), NAT
        if ty == NATSET:
            return app('natset_len', t), NAT
        if is_list(ty) or is_vtuple(ty) or is_dict(ty):
            return app('length', t), NAT
        raise U(e, path, f'len of a value of type {ty}')
    if n == 'sum' and len(a) == 1 and isinstance(a[0], (ast.GeneratorExp, ast.ListComp)):
        t, _ = tr_comp(a[0], env, K)
        return app('py_sum', t), K
    if n == 'any' and len(a) == 1 and isinstance(a[0], (ast.GeneratorExp, ast.ListComp)):
        t, _ = tr_comp(a[0], env, BOOL)
        return app('existsb', '(fun c => c)', t), BOOL
    if n in ('list', 'tuple') and len(a) == 1:
        mk = TList if n == 'list' else TVTuple    # tuple(...): the items, as a tuple (see TVTuple)
        lazy = tr_lazy(a[0], env)
        if lazy is not None:
            return lazy[0], mk(lazy[1])
        t, ty = tr_expr(a[0], env)
        if is_list(ty) or is_vtuple(ty):
            return t, mk(ty[1])
        if is_dict(ty):
            return app('dict_keys', t), mk(LABEL)         # list(d): the keys, as list(d.keys())
        raise U(e, path, f'{n}(...) of a value of type {ty}')
    if n == 'iter' and len(a) == 1:
        # `return iter(X)` in __iter__: the items in iteration order (every `for` / `in` obtains a new iterator)
        if env.state['name'] != '__iter__':
            raise U(e, path, 'iter(...) outside __iter__ (an iterator object can be consumed only once)')
        t, ty = tr_expr(a[0], env)
        if is_seq(ty):
            return t, TList(ty[1])
        if is_dict(ty):
            return app('dict_keys', t), TList(LABEL)
        raise U(e, path, f'iter(...) of a value of type {ty}')
    if n == 'set' and len(a) == 1:
        t, ty = tr_expr(a[0], env)
        if ty == TList(NAT):
            return app('natset_of_list', t), NATSET
        return app('set_of_list', coerce(t, ty, TList(LABEL), a[0], env)), SET
    raise U(e, path, f'call of {n}')


def stack_args(e, env):
    if len(e.args) != 1 or e.keywords or not isinstance(e.args[0], ast.Tuple) or len(e.args[0].elts) < 2:
        raise U(e, env.path, f'{ast.unparse(e.func)} expects one tuple of at least two arrays')
    return [tr_expr(x, env) for x in e.args[0].elts]


def tr_np(fn, e, env, want):
    path = env.path
    a = e.args
    if fn == 'zeros':
        kw = {k.arg for k in e.keywords}
        if len(a) != 1 or not kw <= {'dtype'}:
            raise U(e, path, 'np.zeros(shape[, dtype=...]) expected')
        for k in e.keywords:
            if not (isinstance(k.value, ast.Name) and k.value.id in ('int', 'float', 'complex') and imported(k.value, env) is None
                    and k.value.id not in env.vars):
                raise U(e, path, f'np.zeros dtype {ast.unparse(k.value)}')
        s = a[0]
        if isinstance(s, ast.Tuple) and len(s.elts) == 2:
            return app('np_zeros2', tr(s.elts[0], env, NAT)[0], tr(s.elts[1], env, NAT)[0]), MAT
        if isinstance(s, ast.Tuple):
            raise U(e, path, 'np.zeros with a shape that is not 1-D or 2-D')
        return app('np_zeros1', tr(s, env, NAT)[0]), VEC
    if fn in ('hstack', 'vstack'):
        xs = stack_args(e, env)
        tys = {ty for _, ty in xs}
        if tys == {MAT}:
            t = xs[0][0]
            for x, _ in xs[1:]:
                t = app('np_hstack2' if fn == 'hstack' else 'np_vstack2', t, x)
            return t, MAT
        if tys == {VEC} and fn == 'hstack':
            return ' ++ '.join(par(x) for x, _ in xs), VEC
        raise U(e, path, f'np.{fn} of values of types {sorted(map(str, tys))}')
    if fn == 'array' and len(a) == 1 and not e.keywords:
        if isinstance(a[0], ast.ListComp):
            return tr_comp(a[0], env, K)[0], VEC      # np.array([...]) of numbers: a 1-D array
        return tr(a[0], env, VEC)[0], VEC
    if fn == 'diag' and len(a) == 1 and not e.keywords:
        t, ty = tr_expr(a[0], env)
        if ty == VEC:
            return app('np_diag_of_list', t), MAT
        if ty == MAT:
            return app('np_diag_of_arr', t), VEC
        raise U(e, path, f'np.diag of a value of type {ty}')
    if fn == 'isfinite' and len(a) == 1 and not e.keywords:
        return app('num', tr(a[0], env, OPTK)[0]), BOOL
    if fn == 'count_nonzero' and len(a) == 1 and not e.keywords:
        return app('count_true', tr(a[0], env, BVEC)[0]), NAT
    raise U(e, path, f'np.{fn}')


def pure_key(m_node, k_node, m_term, env):
    """m[k] cannot raise: k ranges over the keys of m, or we are under `if k in m`"""
    if isinstance(k_node, ast.Name) and env.keyof.get(k_node.id) == m_term:
        return True
    return (ast.dump(k_node), ast.dump(m_node)) in env.facts


def mapping_lookup(m_node, k_node, env, node):
    m, _ = tr(m_node, env, MAPPING)
    k, _ = tr(k_node, env, LABEL)
    if pure_key(m_node, k_node, m, env):
        return app('mapping_index', m, k), NAT
    return env.lift(app('mapping_item', m, k), NAT, node)


def tr_index(s, env):
    """an array index: an int, m[k], or the 1-tuple m(k)"""
    if isinstance(s, ast.Call) and not s.keywords and len(s.args) == 1 and not isinstance(s.func, ast.Attribute):
        ft = tr_expr(s.func, env)[1] if isinstance(s.func, ast.Name) and s.func.id in env.vars else None
        if ft == MAPPING:
            return mapping_lookup(s.func, s.args[0], env, s)[0]
    return tr(s, env, NAT)[0]


def tr_subscript(e, env):
    path = env.path
    s = e.slice
    # X.shape[i]
    if isinstance(e.value, ast.Attribute) and e.value.attr == 'shape' and isinstance(s, ast.Constant) and s.value in (0, 1):
        o, oty = tr_expr(e.value.value, env)
        if oty == MAT:
            return app(f'np_shape{s.value}', o), NAT
        if oty == VEC and s.value == 0:
            return app('length', o), NAT
        raise U(e, path, f'.shape[{s.value}] of a value of type {oty}')
    o, oty = tr_expr(e.value, env)
    full = isinstance(s, ast.Slice) and s.lower is None and s.upper is None and s.step is None
    if oty == NET:
        sig = env.gen.gn_sig('py_network', 'Network___getitem__', e, path)
        return env.lift(app(f'{sig.coqname} K', o, tr(s, env, LABEL)[0]), sig.ret, e)
    if oty == MAPPING:
        return mapping_lookup(e.value, s, env, e)
    if oty == FMAPPING:
        return env.lift(app('fmapping_item', o, tr(s, env, LABEL)[0]), NAT, e)
    if oty == LMOBJ:                            # m[k] inside label_mapping.py: the translated __getitem__
        kind, sig = env.gen.lm_member('__getitem__', e, path)
        if [t for _, t in sig.params[1:]] != [LABEL]:
            raise U(e, path, 'LabelMapping.__getitem__ does not take one label')
        t = app(f'{sig.coqname} K', o, tr(s, env, LABEL)[0])
        return env.lift(t, sig.ret, e) if sig.monadic else (t, sig.ret)
    if isinstance(oty, tuple) and oty[0] == 'dict':
        return env.lift(app('dict_item', o, tr(s, env, LABEL)[0]), oty[1], e)
    if oty == MAT:
        if full:
            return o, MAT
        if isinstance(s, ast.Slice) and s.step is None and s.lower is not None and s.upper is not None:
            return app('arr_row_slice', o, tr(s.lower, env, NAT)[0], tr(s.upper, env, NAT)[0]), MAT
        if isinstance(s, ast.Tuple) and len(s.elts) == 2 and isinstance(s.elts[0], ast.Slice) and s.elts[0].lower is None \
                and s.elts[0].upper is None and s.elts[0].step is None:
            return app('arr_cols', o, tr(s.elts[1], env, TList(NAT))[0]), MAT
        if isinstance(s, ast.Call) and is_np(s.func, env, 'ix_') and len(s.args) == 2 and not s.keywords:
            return app('np_ix', o, tr(s.args[0], env, BVEC)[0], tr(s.args[1], env, BVEC)[0]), MAT
        if isinstance(s, (ast.Slice, ast.Tuple)):
            raise U(e, path, f'array subscript {ast.unparse(e)}')
        return app('arr_row', o, tr_index(s, env)), VEC
    if oty == VEC:
        if full:
            return o, VEC
        if isinstance(s, ast.Slice):
            raise U(e, path, f'slice {ast.unparse(e)}')
        st, sty = tr_expr(s, env)
        if sty == BVEC:
            return app('vec_mask', o, st), VEC
        return app('vec_item', o, coerce(st, sty, NAT, s, env)), K
    if oty == BVEC:
        if isinstance(s, ast.Slice):
            if s.step is None and s.lower is None and s.upper is not None:
                return app('firstn', tr(s.upper, env, NAT)[0], o), BVEC
            raise U(e, path, f'slice {ast.unparse(e)}')
        return app('bvec_item', o, tr(s, env, NAT)[0]), BOOL
    raise U(e, path, f'subscript of a value of type {oty}')


def set_pair(x, env):
    """set((a, b)) or the display {a, b}: the same two-element set"""
    if isinstance(x, ast.Set) and len(x.elts) == 2 and not any(isinstance(y, ast.Starred) for y in x.elts):
        return [tr(y, env, LABEL)[0] for y in x.elts]
    if isinstance(x, ast.Call) and isinstance(x.func, ast.Name) and x.func.id == 'set' and imported(x.func, env) is None \
            and x.func.id not in env.vars and len(x.args) == 1 and not x.keywords and isinstance(x.args[0], ast.Tuple) \
            and len(x.args[0].elts) == 2:
        return [tr(y, env, LABEL)[0] for y in x.args[0].elts]
    return None


def tr_compare(e, env):
    path = env.path
    if len(e.ops) != 1:
        raise U(e, path, 'chained comparison')
    op, l, r = e.ops[0], e.left, e.comparators[0]
    neg = (lambda t: app('negb', t)) if isinstance(op, (ast.NotEq, ast.NotIn)) else (lambda t: t)
    if isinstance(op, (ast.Eq, ast.NotEq)):
        pl = set_pair(l, env)
        if pl is not None:
            pr = set_pair(r, env)
            if pr is None:
                raise U(e, path, 'set((a, b)) / {a, b} compared with something else than set((c, d)) / {c, d}')
            return neg(app('set2_eqb', *(pl + pr))), BOOL
        a, at = tr_expr(l, env)
        b, bt = tr_expr(r, env)
        ty = join(at, bt, e, env)
        eqs = {LABEL: 'label_eqb', NAT: 'Nat.eqb'}
        if ty not in eqs:
            raise U(e, path, f'== on values of type {ty}')
        return neg(app(eqs[ty], coerce(a, at, ty, l, env), coerce(b, bt, ty, r, env))), BOOL
    if isinstance(op, (ast.In, ast.NotIn)):
        a, at = tr_expr(l, env)
        b, bt = tr_expr(r, env)
        if at == LABEL and bt == TList(LABEL):
            return neg(app('lmem', a, b)), BOOL
        if at == LABEL and bt == MAPPING:
            return neg(app('lmem', a, app('mapping_keys', b))), BOOL
        if at == LABEL and isinstance(bt, tuple) and bt[0] == 'dict':
            return neg(app('dict_mem', a, b)), BOOL
        raise U(e, path, f'`in` between {at} and {bt}')
    raise U(e, path, f'comparison {type(op).__name__}')


# ------------------------------------------------------------------ statements
class NeedMonadic(Exception):
    pass


def terminates(stmts):
    if not stmts:
        return False
    s = stmts[-1]
    if isinstance(s, (ast.Return, ast.Raise)):
        return True
    if isinstance(s, ast.If):
        return terminates(s.body) and terminates(s.orelse)
    return False


def finish(env, term, ty, node):
    st = env.state
    if st['infer']:
        st['rets'].append(ty)
        env.take()
        return 'INFER'
    term = coerce(term, ty, st['ret'], node, env)
    pend = env.take()
    if st['mode'] == 'monadic':
        if pend and pend[-1][0] == term:
            return wrap(pend[:-1], pend[-1][1])
        return wrap(pend, app('Ok', term))
    if pend:
        raise U(node, env.path, 'internal: raising expression in a function classified as pure')
    return term


def names_in(node):
    return {n.id for n in ast.walk(node) if isinstance(n, ast.Name)}


def materialise(name, env):
    """bind the nested def `name` here: it sees the current values of the locals it reads, which are frozen from now on"""
    fdef = env.deferred.pop(name)
    pre = ''
    for n in sorted(names_in(fdef) & set(env.deferred)):
        pre += materialise(n, env)
    lam, sig = tr_nested_def(fdef, env)
    params = {a.arg for a in fdef.args.args}
    for v in (names_in(fdef) & set(env.vars)) - params:
        env.frozen[v] = name
    env.localfuns[name] = sig
    env.vars.pop(name, None)
    return pre + f"let {sig.coqname} := {lam} in\n  "


def if_facts(test, env):
    """`if k in m:` -> m[k] cannot raise in the body"""
    if isinstance(test, ast.Compare) and len(test.ops) == 1 and isinstance(test.ops[0], ast.In):
        return {(ast.dump(test.left), ast.dump(test.comparators[0]))}
    return set()


def tr_stmts(stmts, env):
    path = env.path
    if not stmts:
        if env.state['declared'] == UNIT:       # `-> None`: falling off the end returns None
            return finish(env, 'tt', UNIT, None)
        raise Unsupported(f'{path}: {env.state["name"]}: control can reach the end of the function without `return`')
    st, rest = stmts[0], stmts[1:]
    if isinstance(st, ast.Expr) and isinstance(st.value, ast.Constant) and isinstance(st.value.value, str):
        return tr_stmts(rest, env)
    if isinstance(st, ast.FunctionDef):
        if not ident_ok(st.name) or st.name in env.vars:
            raise U(st, path, f'nested function {st.name!r} (name already used)')
        env.localfuns.pop(st.name, None)
        env.deferred[st.name] = st
        return tr_stmts(rest, env)
    pre = ''
    for n in sorted(names_in(st) & set(env.deferred), key=lambda n: env.deferred[n].lineno):
        if n in env.deferred:
            pre += materialise(n, env)
    return pre + tr_stmt(st, rest, env)


def tr_stmt(st, rest, env):
    path = env.path
    if isinstance(st, (ast.Return, ast.Raise)) and rest:
        raise U(rest[0], path, 'statement after return / raise')
    if isinstance(st, ast.Raise):
        x = st.exc
        if isinstance(x, ast.Call) and not x.args and not x.keywords:
            x = x.func                                   # raise X() is raise X
        if st.cause is not None or not isinstance(x, ast.Name) or x.id in env.vars:
            raise U(st, path, f'raise statement {ast.unparse(st)}')
        r = env.mod.imports.get(x.id)
        if r is None and x.id in EXC and x.id not in env.localfuns and x.id not in env.deferred:
            exc = EXC[x.id]
        elif r is not None and r[0] == 'class' and (r[1], r[2]) in EXC_LOCAL and gn.is_stub_body(env.mod.classes[r[2]].body) \
                and [ast.unparse(b) for b in env.mod.classes[r[2]].bases] == ['Exception'] \
                and not env.mod.classes[r[2]].decorator_list and not env.mod.classes[r[2]].keywords:
            exc = EXC_LOCAL[(r[1], r[2])]
        else:
            raise U(st, path, f'raise of {x.id}: not an exception the model has a constructor for')
        env.state['lifted'] += 1
        if env.nolift or env.take():
            raise U(st, path, 'internal: raise in a guarded position')
        return f'Err {exc}'
    if isinstance(st, ast.Return):
        if st.value is None:
            raise U(st, path, 'bare return')
        want = env.state['ret'] if not env.state['infer'] else None
        t, ty = tr_expr(st.value, env, want)
        return finish(env, t, ty, st.value)
    if isinstance(st, ast.If):
        c, _ = tr(st.test, env, BOOL)
        pend = env.take()
        if not terminates(st.body):
            raise U(st, path, '`if` whose body does not end in return (outside a loop)')
        be = env.child()
        be.facts |= if_facts(st.test, env)
        a = tr_stmts(st.body, be)
        if st.orelse:
            if terminates(st.orelse):
                if rest:
                    raise U(rest[0], path, 'statement after an if / else that always returns')
                b = tr_stmts(st.orelse, env.child())
            else:
                b = tr_stmts(st.orelse + rest, env)
        else:
            b = tr_stmts(rest, env)
        return wrap(pend, f'if {c} then {a}\n  else {b}')
    if isinstance(st, ast.Assign):
        if len(st.targets) != 1:
            raise U(st, path, 'chained assignment')
        tg = st.targets[0]
        if isinstance(tg, ast.Subscript):
            cv = carried_of([st], env)
            new = tr_array_set(tg, st.value, env, cv)
            pend = env.take()
            v = env.bind_var(cv, env.vars[cv][1], tg)
            env.fresh_arrays.add(cv)
            return wrap(pend, f'let {v} := {new} in\n  {tr_stmts(rest, env)}')
        if isinstance(st.value, ast.Dict) and not st.value.keys and isinstance(tg, ast.Name):
            return tr_empty_dict(tg, rest, env)
        t, ty = tr_expr(st.value, env)
        pend = env.take()
        note_assignment(tg, st.value, ty, env)
        return wrap(pend, f'let {bind_target(tg, ty, env)} := {t} in\n  {tr_stmts(rest, env)}')
    if isinstance(st, ast.For):
        cv = carried_of(st.body, env)
        term, mon = tr_for_term(st, env, cv)
        pend = env.take()
        forget(env, leaked_names([st.target] + st.body), cv)
        v = env.bind_var(cv, env.vars[cv][1], st)
        env.fresh_arrays.add(cv)
        if mon:
            env.state['lifted'] += 1
            if env.nolift:
                raise U(st, path, 'loop that can raise in a guarded position')
            return wrap(pend, f'bind ({term}) (fun {v} =>\n  {tr_stmts(rest, env)})')
        return wrap(pend, f'let {v} := {term} in\n  {tr_stmts(rest, env)}')
    if isinstance(st, ast.While):
        return tr_while(st, rest, env)
    if isinstance(st, ast.Try):
        return tr_try(st, rest, env)
    if isinstance(st, ast.Expr):
        return tr_sort(st, rest, env)
    raise U(st, path, f'statement {type(st).__name__}')


class DictValueType(Exception):
    """dry run of tr_empty_dict: the type of the first value stored into the dict"""

    def __init__(self, ty):
        self.ty = ty


def tr_empty_dict(tg, rest, env):
    """d = {} : a fresh dict local, filled by `d[k] = E` (dict_set) in a following loop.  Its value type is that of the first
    E stored, found by a dry run of the rest of the block."""
    st = env.state
    saved = (st['tmp'], st['lifted'], list(st['rets']))
    dry = env.child()
    dry.bind_var(tg.id, TDict(UNKNOWN), tg)
    dry.fresh_arrays.add(tg.id)
    try:
        tr_stmts(rest, dry)
        raise U(tg, env.path, f'cannot type the variable {tg.id}: nothing is stored into this dict')
    except DictValueType as d:
        vty = d.ty
    st['tmp'], st['lifted'], st['rets'] = saved[0], saved[1], saved[2]
    if is_int(vty) or vty in (UNKNOWN, TList(None)):
        raise U(tg, env.path, f'cannot type the values of the dict {tg.id}')
    v = env.bind_var(tg.id, TDict(vty), tg)
    env.fresh_arrays.add(tg.id)
    env.fresh_lists.discard(tg.id)
    return f'let {v} := @nil (label * {coq_ty(vty)}) in\n  {tr_stmts(rest, env)}'


def note_assignment(tg, value, ty, env):
    """bookkeeping for `x = E`: fresh lists / arrays; a second name for an existing array is refused (the model has no aliasing)"""
    if isinstance(value, ast.Name) and ty in (MAT, VEC, BVEC):
        raise U(tg, env.path, f'{ast.unparse(tg)} = {value.id}: a second name for the same array')
    if isinstance(tg, ast.Name):
        if isinstance(value, ast.ListComp):
            env.fresh_lists.add(tg.id)
        else:
            env.fresh_lists.discard(tg.id)
        if isinstance(value, ast.Call) and is_np(value.func, env, 'zeros'):
            env.fresh_arrays.add(tg.id)
        else:
            env.fresh_arrays.discard(tg.id)


def leaked_names(stmts):
    """names a loop leaves bound after it (targets and assignments of its body)"""
    out = set()
    for s in stmts:
        for n in ast.walk(s):
            if isinstance(n, ast.Name) and isinstance(n.ctx, ast.Store):
                out.add(n.id)
    return out


def forget(env, names, keep):
    """after a loop: its variables would hold the values of the last iteration; any later use is refused"""
    for n in names - {keep}:
        env.vars.pop(n, None)
        env.keyof.pop(n, None)


def bind_target(tg, ty, env):
    if isinstance(tg, ast.Name):
        if is_int(ty) or ty == TList(None):
            raise U(tg, env.path, f'cannot type the variable {tg.id}')
        return env.bind_var(tg.id, ty, tg)
    if isinstance(tg, ast.Tuple) and all(isinstance(x, ast.Name) for x in tg.elts) and isinstance(ty, tuple) \
            and ty[0] in ('pair', 'tuple') and len(ty) - 1 == len(tg.elts) and len({x.id for x in tg.elts}) == len(tg.elts):
        return "'(" + ', '.join(env.bind_var(x.id, t, tg) for x, t in zip(tg.elts, ty[1:])) + ')'
    raise U(tg, env.path, f'assignment target {ast.unparse(tg)} for a value of type {ty}')


def tr_sort(st, rest, env):
    """L.sort(key=lambda x: <str>) on a list built by a comprehension in this function"""
    c = st.value
    if isinstance(c, ast.Call) and isinstance(c.func, ast.Attribute) and c.func.attr == 'sort' and isinstance(c.func.value, ast.Name) \
            and c.func.value.id in env.vars and not c.args and len(c.keywords) == 1 and c.keywords[0].arg == 'key' \
            and isinstance(c.keywords[0].value, ast.Lambda) and is_list(env.vars[c.func.value.id][1]):
        x = c.func.value.id
        if x not in env.fresh_lists:
            raise U(st, env.path, f'{x}.sort(...) on a list that may be shared with an input')
        old, ty = env.vars[x]
        lam, kty, mon = tr_lambda(c.keywords[0].value, [ty[1]], env, LABEL)
        if mon:
            raise U(st, env.path, 'sort key that can raise')
        new = env.bind_var(x, ty, c)
        env.fresh_lists.add(x)
        return f'let {new} := {app("sort_by_key", lam, old)} in\n  {tr_stmts(rest, env)}'
    raise U(st, env.path, f'expression statement {ast.unparse(st)}')


def tr_while(st, rest, env):
    """while s in L: s += '<str>'"""
    t = st.test
    ok = (not st.orelse and isinstance(t, ast.Compare) and len(t.ops) == 1 and isinstance(t.ops[0], ast.In)
          and isinstance(t.left, ast.Name) and t.left.id in env.vars and env.vars[t.left.id][1] == LABEL and len(st.body) == 1
          and isinstance(st.body[0], ast.AugAssign) and isinstance(st.body[0].op, ast.Add)
          and isinstance(st.body[0].target, ast.Name) and st.body[0].target.id == t.left.id
          and isinstance(st.body[0].value, ast.Constant) and type(st.body[0].value.value) is str
          and t.left.id not in names_in(t.comparators[0]))
    if not ok:
        raise U(st, env.path, "while loop other than `while s in L: s += '<str>'`")
    l, _ = tr(t.comparators[0], env, TList(LABEL))
    pend = env.take()
    old = env.vars[t.left.id][0]
    suf, _ = tr_expr(st.body[0].value, env)
    new = env.bind_var(t.left.id, LABEL, st)
    return wrap(pend, f'let {new} := {app("while_in_append", old, suf, l)} in\n  {tr_stmts(rest, env)}')


def tr_try(st, rest, env):
    """try: x = np.linalg.solve(A, b)   except np.linalg.LinAlgError: return E"""
    ok = (len(st.body) == 1 and isinstance(st.body[0], ast.Assign) and len(st.body[0].targets) == 1
          and isinstance(st.body[0].targets[0], ast.Name) and isinstance(st.body[0].value, ast.Call)
          and is_np(st.body[0].value.func, env, 'linalg', 'solve') and len(st.body[0].value.args) == 2
          and not st.body[0].value.keywords and len(st.handlers) == 1 and not st.orelse and not st.finalbody)
    if ok:
        h = st.handlers[0]
        ok = h.type is not None and is_np(h.type, env, 'linalg', 'LinAlgError') and h.name is None and len(h.body) == 1 \
            and isinstance(h.body[0], ast.Return)
    if not ok:
        raise U(st, env.path, 'try statement other than `try: x = np.linalg.solve(A, b)  except np.linalg.LinAlgError: return E`')
    call = st.body[0].value
    A, _ = tr(call.args[0], env, MAT)
    b, _ = tr(call.args[1], env, VEC)
    pend = env.take()
    he = tr_stmts(h.body, env.child())
    x = env.bind_var(st.body[0].targets[0].id, VEC, st)
    return wrap(pend, f'match {app("np_linalg_solve", A, b)} with\n  | Some {x} => {tr_stmts(rest, env)}\n  | None => {he}\n  end')


# ------------------------------------------------------------------ loops
def sub_targets(stmts):
    """base names of the subscript-assignment targets of a loop body, and the number of such assignments"""
    out = []
    for s in stmts:
        if isinstance(s, ast.Assign) and len(s.targets) == 1 and isinstance(s.targets[0], ast.Subscript):
            b = s.targets[0].value
            if isinstance(b, ast.Subscript):
                b = b.value
            if not isinstance(b, ast.Name):
                raise Unsupported(f'line {s.lineno}: assignment target {ast.unparse(s.targets[0])}')
            out.append(b.id)
        elif isinstance(s, ast.If):
            out += sub_targets(s.body) + sub_targets(s.orelse)
        elif isinstance(s, ast.For):
            out += sub_targets(s.body)
    return out


def carried_of(stmts, env):
    ts = sub_targets(stmts)
    if len(set(ts)) != 1:
        raise U(stmts[0], env.path, f'loop body assigning into {sorted(set(ts))} (exactly one array expected)')
    cv = ts[0]
    if cv not in env.vars or not (env.vars[cv][1] in (MAT, VEC) or is_dict(env.vars[cv][1])):
        raise U(stmts[0], env.path, f'{cv} is not a local array / dict')
    if cv not in env.fresh_arrays:
        raise U(stmts[0], env.path, f'{cv} is written into but was not created by np.zeros / {{}} in this function, or was used '
                                    f'as a value since (it may be shared)')
    reads = sum(1 for s in stmts for n in ast.walk(s) if isinstance(n, ast.Name) and n.id == cv)
    if reads != len(ts):
        raise U(stmts[0], env.path, f'the array {cv} is read while it is being filled')
    return cv


def tr_array_set(tg, value, env, cv):
    """M[i, j] = E | M[i][j] = E | M[m(a, b)] = E | v[i] = E   -> the new array (right-hand side evaluated first)"""
    old, cty = env.vars[cv]
    if is_dict(cty):                          # d[k] = E on a fresh dict: E, then k, are evaluated; the key keeps its position
        if isinstance(tg.value, ast.Subscript):
            raise U(tg, env.path, f'assignment target {ast.unparse(tg)}')
        if cty[1] == UNKNOWN:
            raise DictValueType(tr_expr(value, env)[1])
        v, _ = tr(value, env, cty[1])
        return app('dict_set', old, tr(tg.slice, env, LABEL)[0], v)
    v, _ = tr(value, env, K)
    s = tg.slice
    if isinstance(tg.value, ast.Subscript):
        if cty != MAT:
            raise U(tg, env.path, f'{ast.unparse(tg)}: {cv} is not 2-D')
        i = tr_index(tg.value.slice, env)
        j = tr_index(s, env)
        return app('arr_set', old, i, j, v)
    if cty == VEC:
        return app('vec_set', old, tr_index(s, env), v)
    if isinstance(s, ast.Tuple) and len(s.elts) == 2:
        i = tr_index(s.elts[0], env)
        j = tr_index(s.elts[1], env)
        return app('arr_set', old, i, j, v)
    if isinstance(s, ast.Call) and isinstance(s.func, ast.Name) and s.func.id in env.vars and env.vars[s.func.id][1] == MAPPING \
            and len(s.args) == 2 and not s.keywords:
        i = mapping_lookup(s.func, s.args[0], env, s)[0]
        j = mapping_lookup(s.func, s.args[1], env, s)[0]
        return app('arr_set', old, i, j, v)
    raise U(tg, env.path, f'assignment target {ast.unparse(tg)}')


def loop_body(stmts, env, cv, monadic):
    cur = env.vars[cv][0]
    if not stmts:
        return app('Ok', cur) if monadic else cur
    st, rest = stmts[0], stmts[1:]
    path = env.path

    def seq(pend, new, binder):
        """bind `binder` to the value `new` (a res when monadic_new), then the rest"""
        if pend and not monadic:
            raise NeedMonadic()
        return wrap(pend, f'let {binder} := {new} in\n    {loop_body(rest, env, cv, monadic)}')

    if isinstance(st, ast.Assign) and len(st.targets) == 1:
        tg = st.targets[0]
        if isinstance(tg, ast.Subscript):
            new = tr_array_set(tg, st.value, env, cv)
            pend = env.take()
            b = env.bind_var(cv, env.vars[cv][1], tg)
            env.fresh_arrays.add(cv)
            return seq(pend, new, b)
        t, ty = tr_expr(st.value, env)
        pend = env.take()
        note_assignment(tg, st.value, ty, env)
        return seq(pend, t, bind_target(tg, ty, env))
    if isinstance(st, ast.If) and not st.orelse:
        c, _ = tr(st.test, env, BOOL)
        pend = env.take()
        if pend and not monadic:
            raise NeedMonadic()
        be = env.child()
        be.facts |= if_facts(st.test, env)
        inner = loop_body(st.body, be, cv, monadic)
        v = env.bind_var(cv, env.vars[cv][1], st)
        env.fresh_arrays.add(cv)
        r = loop_body(rest, env, cv, monadic)
        if monadic:
            return wrap(pend, f'bind (if {c} then {inner} else Ok {cur}) (fun {v} =>\n    {r})')
        return f'let {v} := if {c} then {inner} else {cur} in\n    {r}'
    if isinstance(st, ast.For):
        term, mon = tr_for_term(st, env, cv)
        pend = env.take()
        if (pend or mon) and not monadic:
            raise NeedMonadic()
        forget(env, leaked_names([st.target] + st.body), cv)
        v = env.bind_var(cv, env.vars[cv][1], st)
        env.fresh_arrays.add(cv)
        r = loop_body(rest, env, cv, monadic)
        if mon:
            return wrap(pend, f'bind ({term}) (fun {v} =>\n    {r})')
        return wrap(pend, f'let {v} := {term} in\n    {r}')
    raise U(st, path, f'statement {type(st).__name__} in a loop body: {ast.unparse(st).splitlines()[0]}')


def tr_for_term(st, env, cv):
    """for T in ITER: <body filling the array cv>  ->  (the filled array, can raise)"""
    if st.orelse:
        raise U(st, env.path, 'for ... else')
    src, ety, kinfo = tr_iter(st.iter, env)
    old, cty = env.vars[cv]
    for monadic in (False, True):
        sub = env.scope()
        mv = sub.bind_var(cv, cty, st)
        sub.fresh_arrays.add(cv)
        pat = bind_pattern(st.target, ety, kinfo, sub)
        tmp0 = env.state['tmp']
        try:
            body = loop_body(st.body, sub, cv, monadic)
        except NeedMonadic:
            env.state['tmp'] = tmp0
            continue
        if monadic:
            return app('for_res', src, f'(fun {mv} {pat} =>\n    {body})', old), True
        return app('fold_left', f'(fun {mv} {pat} =>\n    {body})', src, old), False
    raise U(st, env.path, 'internal: loop translation')


# ------------------------------------------------------------------ functions
def fun_params(fdef, path, self_ty=None, mod=None, vararg_ok=False):
    """-> [(name, type)].  `*labels: str` (only where vararg_ok: the methods of LabelMapping) is a last parameter holding the
    list of the extra positional arguments"""
    a = fdef.args
    if a.kwarg or a.kwonlyargs or a.posonlyargs or (a.vararg and not vararg_ok):
        raise U(fdef, path, f'{fdef.name}: star / keyword-only / positional-only parameters')
    params = []
    for i, x in enumerate(a.args):
        if i == 0 and self_ty is not None:
            if x.arg != 'self':
                raise U(fdef, path, f'{fdef.name}: first parameter of a method is not self')
            params.append((x.arg, self_ty))
        else:
            params.append((x.arg, ann_type(x.annotation, x, path, owner=(fdef.name, x.arg), mod=mod, param=True)))
    if a.vararg:
        if a.defaults:
            raise U(fdef, path, f'{fdef.name}: default values together with *{a.vararg.arg}')
        params.append((a.vararg.arg, TVTuple(ann_type(a.vararg.annotation, a.vararg, path, mod=mod))))
    if len({p for p, _ in params}) != len(params):
        raise U(fdef, path, f'{fdef.name}: parameter named twice')
    return params


def infer_ret(rets, declared, fdef, env):
    if declared != INFER:
        return declared
    if not rets:
        raise U(fdef, env.path, f'{fdef.name}: no return')
    ty = rets[0]
    for r in rets[1:]:
        ty = join(ty, r, fdef, env)
    if is_int(ty):
        ty = K              # an int-valued local function whose results are stored into a float array
    return ty


def translate_body(fdef, mk_env, declared):
    """two passes: (1) infer the result type and whether anything can raise, (2) generate"""
    st = new_state(fdef.name, None, 'monadic', infer=True)
    st['declared'] = declared
    env = mk_env(st)
    tr_stmts(fdef.body, env)
    ret = infer_ret(env.state['rets'], declared, fdef, env)
    mode = 'monadic' if env.state['lifted'] else 'pure'
    st = new_state(fdef.name, ret, mode)
    st['declared'] = declared
    env = mk_env(st)
    body = tr_stmts(fdef.body, env)
    return body, ret, mode == 'monadic'


def tr_nested_def(fdef, env):
    if fdef.decorator_list or fdef.args.defaults:
        raise U(fdef, env.path, 'decorated nested function / nested function with default values')
    params = fun_params(fdef, env.path, mod=env.mod)
    declared = ann_type(fdef.returns, fdef, env.path, ret=True, mod=env.mod)
    binders = []

    def mk_env(state):
        state['tmp'] = env.state['tmp']
        sub = Env(env.gen, env.mod, state)
        sub.vars, sub.localfuns, sub.deferred = dict(env.vars), dict(env.localfuns), {}
        sub.keyof, sub.facts = dict(env.keyof), set(env.facts)     # (assignments in the nested function create its own locals)
        binders[:] = [f'({sub.bind_var(p, t, fdef)} : {coq_ty(t)})' for p, t in params]
        return sub

    body, ret, monadic = translate_body(fdef, mk_env, declared)
    name = fdef.name + "'"
    return f'(fun {" ".join(binders)} => {body})', Sig(name, params, ret, monadic)


# ------------------------------------------------------------------ the generator
class Gen:
    def __init__(self, src):
        self.src = src
        self.g = gn.Gen(src)            # the base layer: signatures of everything gen_network.py translates
        self.g.run()
        self.mods = {k: Src(k, src) for k in ('network', 'label_mapping', 'node_analysis', 'state_space_model', 'sp')}
        self.coqmods = ['py_label_mapping_m', 'py_network_m', 'py_node_analysis', 'py_state_space']
        self.out = {c: [] for c in self.coqmods}
        self.sigs, self.busy, self.checked = {}, [], set()

    def emit(self, coqmod, text):
        self.out[coqmod].append(text)

    # ---------------- signatures of the base layer
    def gn_sig(self, coqmod, name, node, path):
        s = self.g.sigs.get((coqmod, name))
        if s is None:
            raise U(node, path, f'{coqmod}.{name} is not among the definitions gen_network.py translates')
        return s

    def global_sig(self, key, name, node, path):
        if key in GN_COQMOD:
            cm = GN_COQMOD[key]
            if (cm, name) in self.g.sigs:
                return self.g.sigs[(cm, name)]
            m = self.g.mods[key]
            if name in m.aliases:                       # default_node_mapper = alphabetic_node_mapper
                r = self.g.resolve(m, name)
                if r and r[0] == 'func':
                    t = self.g.sigs.get((GN_COQMOD[r[1]], r[2]))
                    if t is not None:
                        return Sig(f'{cm}.{name}', t.params, t.ret, t.monadic, t.defaults)
            raise U(node, path, f'{key}.{name} is not among the definitions gen_network.py translates')
        if key in ('node_analysis', 'state_space_model'):
            mod = self.mods[key]
            if name not in mod.funcs:
                raise U(node, path, f'{key}.{name}: not a function')
            if name in SKIP_FUNCS[key]:
                raise U(node, path, f'call of {key}.{name}, which is outside the translated subset')
            return self.translate_def(mod, mod.funcs[name], COQMOD[key], name)
        raise U(node, path, f'reference to {key}.{name}')

    # ---------------- functions and methods
    def translate_def(self, mod, fdef, coqmod, shortname, self_ty=None, allowed_decorators=(), vararg_ok=False):
        k = (coqmod, shortname)
        if k in self.sigs:
            return self.sigs[k]
        if k in self.busy:
            raise U(fdef, mod.path, f'recursion through {shortname}')
        self.busy.append(k)
        try:
            for d in fdef.decorator_list:
                if not (isinstance(d, ast.Name) and d.id in allowed_decorators):
                    raise U(fdef, mod.path, f'decorator {ast.unparse(d)}')
            params = fun_params(fdef, mod.path, self_ty, mod=mod, vararg_ok=vararg_ok)
            defaults = {}
            ds = fdef.args.defaults
            for (p, ty), d in zip(params[len(params) - len(ds):], ds):
                dn = f'{shortname}__default_{p}'
                t, _ = tr(d, Env(self, mod, new_state(fdef.name, None, 'pure')), ty)
                self.emit(coqmod, f'Definition {dn} (K : fops) : {coq_ty(ty)} := {t}.')
                defaults[p] = f'{coqmod}.{dn}'
            if fdef.returns is None and fdef.name == '__iter__' and self_ty is not None:
                declared = INFER                # `def __iter__(self):` carries no annotation in the source
            else:
                declared = ann_type(fdef.returns, fdef, mod.path, ret=True, mod=mod)
            binders = []

            def mk_env(state):
                env = Env(self, mod, state)
                binders[:] = [f'({env.bind_var(p, t, fdef)} : {coq_ty(t)})' for p, t in params]
                return env

            body, ret, monadic = translate_body(fdef, mk_env, declared)
            cty = f'res ({coq_ty(ret)})' if monadic else coq_ty(ret)
            self.emit(coqmod, f'(* {os.path.basename(mod.path)}:{fdef.lineno} {fdef.name} *)\n'
                              f'Definition {shortname} (K : fops) {" ".join(binders)} : {cty} :=\n  {body}.')
            if gn.is_private(fdef.name):         # a private helper: the proofs about its callers look through it
                self.emit(coqmod, f'#[global] Hint Unfold {shortname} : py_private.')
            sig = Sig(f'{coqmod}.{shortname}', params, ret, monadic, defaults)
            sig.vararg = fdef.args.vararg.arg if fdef.args.vararg else None
            self.sigs[k] = sig
            return sig
        finally:
            self.busy.pop()

    def class_methods(self, mod, cname):
        ms = {}
        for s in mod.classes[cname].body:
            if isinstance(s, ast.FunctionDef):
                if s.name in ms:
                    raise U(s, mod.path, f'{cname}.{s.name} defined twice')
                ms[s.name] = s
        return ms

    def net_method(self, name, node, path):
        mod = self.mods['network']
        if 'Network' not in mod.classes:
            raise U(node, path, 'class Network not found')
        self.g.check_record('network', 'Network')
        ms = self.class_methods(mod, 'Network')
        if name not in ms:
            raise U(node, path, f'Network has no method {name}')
        return self.translate_def(mod, ms[name], 'py_network_m', f'Network_{name}', self_ty=NET)

    # ---------------- label_mapping.py: class LabelMapping and filter, translated over the dict of the object
    def label_mapping_class(self):
        """the shape of the class the primitives mapping_* stand for (see LM_FIELD / LM_METHODS); -> its methods"""
        mod = self.mods['label_mapping']
        if 'lm' in self.checked:
            return self.class_methods(mod, 'LabelMapping')
        c = mod.classes.get('LabelMapping')
        if c is None:
            raise Unsupported(f'{mod.path}: class LabelMapping not found')
        if [ast.unparse(d) for d in c.decorator_list] != ['dataclass'] or c.bases or c.keywords \
                or mod.imports.get('dataclass') != ('foreign', 'dataclasses.dataclass'):
            raise U(c, mod.path, 'LabelMapping is not a plain @dataclass without base classes')
        fields = []
        for x in c.body:
            if isinstance(x, ast.AnnAssign) and isinstance(x.target, ast.Name) and x.value is None:
                fields.append((x.target.id, ast.unparse(x.annotation)))
            elif not (isinstance(x, ast.FunctionDef) or (isinstance(x, ast.Expr) and isinstance(x.value, ast.Constant))):
                raise U(x, mod.path, f'statement {type(x).__name__} in class LabelMapping')
        if fields != [LM_FIELD]:
            raise U(c, mod.path, f'fields {fields} of LabelMapping: the one field {LM_FIELD} is expected')
        ms = self.class_methods(mod, 'LabelMapping')
        if set(ms) != set(LM_METHODS):
            raise U(c, mod.path, f'members {sorted(ms)} of LabelMapping: exactly {sorted(LM_METHODS)} are expected (another special '
                                 f'method would change the meaning of `in`, len, ==, ... behind the primitives mapping_*)')
        for n, f in ms.items():
            if tuple(ast.unparse(d) for d in f.decorator_list) != LM_METHODS[n]:
                raise U(f, mod.path, f'decorators of LabelMapping.{n}')
        if mod.imports.get('LabelMapping') != ('class', 'label_mapping', 'LabelMapping'):
            raise U(c, mod.path, 'the name LabelMapping is rebound')
        self.checked.add('lm')
        return ms

    def lm_member(self, name, node, path):
        ms = self.label_mapping_class()
        mod = self.mods['label_mapping']
        if name not in ms:
            raise U(node, path, f'LabelMapping has no member {name}')
        sig = self.translate_def(mod, ms[name], 'py_label_mapping_m', f'LabelMapping_{name}', self_ty=LMOBJ,
                                 allowed_decorators=('property',), vararg_ok=True)
        return ('property' if LM_METHODS[name] else 'method'), sig

    def lm_new(self, node, path):
        """LabelMapping(d): the __init__ a dataclass generates stores the field and calls __post_init__()"""
        k = ('py_label_mapping_m', 'LabelMapping__new')
        if k not in self.sigs:
            _, post = self.lm_member('__post_init__', node, path)
            if post.ret != UNIT or len(post.params) != 1:
                raise U(node, path, 'LabelMapping.__post_init__ is not (self) -> None')
            body = f"bind ({post.coqname} K mapping') (fun _ => Ok mapping')" if post.monadic else "Ok mapping'"
            self.emit('py_label_mapping_m', "(* the generated __init__: self.mapping = mapping; self.__post_init__() *)\n"
                                            f"Definition LabelMapping__new (K : fops) (mapping' : list (label * nat)) : res (fmapping) :=\n  {body}.")
            self.sigs[k] = Sig('py_label_mapping_m.LabelMapping__new', [('mapping', TDict(NAT))], LMOBJ, True)
        return self.sigs[k]

    def lm_filter(self):
        mod = self.mods['label_mapping']
        if 'filter' not in mod.funcs or mod.imports.get('filter') != ('func', 'label_mapping', 'filter'):
            raise Unsupported(f'{mod.path}: function filter not found')
        if mod.imports.get('Callable') != ('foreign', 'typing.Callable'):
            raise Unsupported(f'{mod.path}: Callable is not typing.Callable')
        sig = self.translate_def(mod, mod.funcs['filter'], 'py_label_mapping_m', 'label_mapping_filter')
        if [t for _, t in sig.params] != [LMOBJ, TFun([LABEL], BOOL, True)] or sig.ret != LMOBJ or sig.defaults:
            raise U(mod.funcs['filter'], mod.path, 'filter is not (LabelMapping, Callable[[str], bool]) -> LabelMapping')
        return sig

    def check_nssm(self):
        if 'nssm' in self.checked:
            return
        self.checked.add('nssm')
        mod, sp = self.mods['state_space_model'], self.mods['sp']
        c = mod.classes.get('NodalStateSpaceModel')
        b = sp.classes.get('StateSpaceModel')
        if c is None or b is None:
            raise Unsupported(f'{mod.path}: classes NodalStateSpaceModel / StateSpaceModel not found')
        for cl, m in ((c, mod), (b, sp)):
            ok = len(cl.decorator_list) == 1 and ast.unparse(cl.decorator_list[0]) == 'dataclass(frozen=True)' \
                and m.imports.get('dataclass') == ('foreign', 'dataclasses.dataclass')
            if not ok:
                raise U(cl, m.path, f'{cl.name} is not a @dataclass(frozen=True)')
        if [ast.unparse(x) for x in c.bases] != ['sp.StateSpaceModel'] or mod.imports.get('sp') != ('mod', 'sp') or b.bases:
            raise U(c, mod.path, 'NodalStateSpaceModel does not derive from sp.StateSpaceModel alone')
        bf = [(x.target.id, ast.unparse(x.annotation)) for x in b.body if isinstance(x, ast.AnnAssign) and x.value is None]
        cf = [(x.target.id, ast.unparse(x.annotation)) for x in c.body if isinstance(x, ast.AnnAssign) and x.value is None]
        if bf != PINNED_SSM_FIELDS or cf != [(f, a) for f, a, _ in NSSM_FIELDS]:
            raise U(c, mod.path, f'fields {bf + cf}: the record nssm of Model/MatrixPrims.v expects '
                                 f'{PINNED_SSM_FIELDS + [(f, a) for f, a, _ in NSSM_FIELDS]}')
        for cl, m in ((c, mod), (b, sp)):
            for x in cl.body:
                if not (isinstance(x, (ast.FunctionDef, ast.AnnAssign)) or (isinstance(x, ast.Expr) and isinstance(x.value, ast.Constant))):
                    raise U(x, m.path, f'statement {type(x).__name__} in class {cl.name}')
                if isinstance(x, ast.AnnAssign) and x.value is not None:
                    raise U(x, m.path, f'{cl.name}.{x.target.id} has a default value')
        for f in self.class_methods(mod, 'NodalStateSpaceModel').values():
            if f.name.startswith('__'):
                raise U(f, mod.path, f'special method NodalStateSpaceModel.{f.name}')

    def nssm_member(self, name, node, path):
        self.check_nssm()
        mod = self.mods['state_space_model']
        ms = self.class_methods(mod, 'NodalStateSpaceModel')
        if name not in ms:
            raise U(node, path, f'NodalStateSpaceModel has no member {name} (the properties n_states / n_inputs / n_outputs of the '
                                f'base class are not translated)')
        if name in SKIP_METHODS['NodalStateSpaceModel']:
            raise U(node, path, f'use of NodalStateSpaceModel.{name}, which is outside the translated subset')
        f = ms[name]
        prop = any(isinstance(d, ast.Name) and d.id == 'property' for d in f.decorator_list)
        sig = self.translate_def(mod, f, 'py_state_space', f'NodalStateSpaceModel_{name}', self_ty=NSSM,
                                 allowed_decorators=('property',))
        return ('property' if prop else 'method'), sig

    # ---------------- driver
    def run(self):
        lm = self.mods['label_mapping']
        for m in self.label_mapping_class():
            self.lm_member(m, lm.classes['LabelMapping'], lm.path)
        self.lm_new(lm.classes['LabelMapping'], lm.path)
        self.lm_filter()
        net = self.mods['network']
        for m in NET_METHODS:
            self.net_method(m, net.tree, net.path)
        for key in ('node_analysis', 'state_space_model'):
            mod = self.mods[key]
            for cname, c in mod.classes.items():
                if key == 'state_space_model' and cname == 'NodalStateSpaceModel':
                    self.check_nssm()
                    for m in self.class_methods(mod, cname):
                        if m not in SKIP_METHODS[cname]:
                            self.nssm_member(m, c, mod.path)
                elif len(c.bases) == 1 and ast.unparse(c.bases[0]) == 'Exception' and gn.is_stub_body(c.body) and not c.decorator_list:
                    continue
                else:
                    raise U(c, mod.path, f'class {cname}')
            for name, f in mod.funcs.items():
                if name not in SKIP_FUNCS[key]:
                    self.global_sig(key, name, f, mod.path)

    def text(self):
        L = ['(* GENERATED by tools/gen_matrix.py from /repo/src/CircuitCalculator/Network — do not edit.',
             '   NodalAnalysis/node_analysis.py, NodalAnalysis/state_space_model.py, the list-valued methods of Network',
             '   (network.py) and class LabelMapping / filter of NodalAnalysis/label_mapping.py (over the dict of the',
             '   object): a compositional image of the Python source over the data types of Model/Network.v, the',
             '   definitions of Gen/NetworkGen.v and the primitives of Model/NetworkPrims.v, Model/MatrixPrims.v.',
             "   Python local x is x'; t1, t2, ... are the values of sub-expressions that can raise, bound in evaluation order;",
             '   `for` loops filling an array are fold_left / for_res over the iterated list.',
             '   Every definition is proved equal to the hand-written model in Theory/MatrixGenThm.v. *)',
             'From Coq Require Import List Bool NArith Arith.',
             'From CC Require Import Theory.Field Model.Network Model.Transformers Model.NetworkPrims Model.StateSpace Model.Port',
             '  Model.MatrixPrims Gen.NetworkGen.',
             'Import ListNotations.', '']
        for c in self.coqmods:
            L.append(f'Module {c}.')
            L.extend(self.out[c])
            L.append(f'End {c}.')
            L.append('')
        return '\n'.join(L) + '\n'


def generate(src):
    try:
        g = Gen(src)
        g.run()
        return {'MatrixGen.v': g.text()}
    except (Unsupported, OSError, SyntaxError):
        raise
    except Exception as e:      # a shape the translator did not anticipate: refuse, never guess
        raise Unsupported(f'gen_matrix: internal {type(e).__name__}: {e}') from e


if __name__ == '__main__':
    import sys
    print(generate(sys.argv[1] if len(sys.argv) > 1 else '/repo/src/CircuitCalculator')['MatrixGen.v'])
