"""Translator module: SimpleCircuit/DiagramSolution.py, the text functions of SimpleCircuit/Display.py it calls, the getters of
ComplexSolution (Circuit/solution.py) and the annotation part of SimpleSimulation/schematic.py -> coq/Gen/AnnotationGen.v, in the vocabulary of coq/Model/AnnotationPrims.v and
coq/Model/Annotation.v.  Theory/AnnotationGenThm.v proves the generated definitions equal to the hand model
Model/Annotation.v (Properties/C14c.v).
Fail-closed: every construct outside the subset below raises Unsupported naming file:line and the construct.

=== SimpleCircuit/DiagramSolution.py ===
Module level: imports (ComplexSolution, DCSolution from ..Circuit.solution; elm = .Elements; dsp = .Display;
  SchematicDiagramParser, circuit_translator from .DiagramTranslator; dataclass; Protocol), classes, functions; nothing else;
  no name bound twice.
class DiagramSolution(Protocol)      four methods with bodies `...`:  get_voltage/current/power(self, name, reverse),
                                     get_potential(self, name)
adapter class  [@dataclass] class C:  fields `solution: DCSolution|ComplexSolution` and `f: bool|int = CONST`; exactly the four
  protocol methods (private helpers apart, see below), each    [sign = -1 if reverse else 1]   return <text>
  <text>  = '' | dsp.print_real|print_complex|print_sinosoidal|print_active_power(<args by position or keyword>)
            (parameter names, order and defaults are read from SimpleCircuit/Display.py and must be those of the model)
  <arg>   = [<int>*]self.solution.get_voltage|get_current|get_power|get_potential(name) | self.f | self.solution.w | 'lit'
  <int>   = sign | INT if reverse else INT          (a conditional expression on a bool parameter -> `if reverse then .. else ..`)
expression helpers (inlined BEFORE the shapes above are recognised; the generated definitions are those of the code written
  without the helper, a `sign` local being replaced by its conditional expression):
  module level   def _f(p: ann, ...): return <expr>           (name starts with one underscore; not a factory)
  adapter class  def _m(self, p, ...): return <expr>          (name starts with one underscore)
  no defaults / * / ** / decorators; <expr> contains no lambda / comprehension / walrus, no other names than the parameters (and,
  for a method, self and dsp), no call of another helper, and every parameter EXACTLY ONCE.  A call `_f(a, k=b)` / `self._m(a, k=b)`
  inside one of the four getters (arguments by position or keyword, every parameter exactly once, no * / **) is replaced by
  <expr> with the parameters replaced by the argument expressions (inner calls first).  Each argument is then still evaluated
  exactly once; the shapes recognised afterwards admit, around it, only literals, field reads and the one dsp.print_* call, so
  the order of the evaluations that can raise or have an effect is unchanged.  A helper that no getter calls is refused.
class SchematicDiagramSolution (dataclass: diagram_parser, solution), methods draw_voltage/current/power/potential
  (self, name, opt: bool|str = CONST, ...):
      element = self.diagram_parser.get_element(name)
      t = self.solution.get_X(name=name[, reverse=<bool>])
      return elm.VoltageLabel|CurrentLabel|PowerLabel(element, kw=<v>, ...) | elm.LabelNode(kw=<v>, ..., at=element.absdrop[0])
  <bool>  = parameter | not <bool> | <bool> if <bool> else <bool> | element.is_reverse
  <v>     = t | <bool> | a str parameter | dsp.blue|red|green
factory  def f(schematic: elm.Schematic, p: float|int|bool = CONST, ...) -> ...:
      x = SchematicDiagramParser(schematic)
      s = C(solution=<solver>, f=p, ...)              (may also be written inline in the return)
      return SchematicDiagramSolution(diagram_parser=x|SchematicDiagramParser(schematic), solution=s|C(...))
  <solver> = DCSolution(circuit=circuit_translator(schematic))
           | ComplexSolution(circuit=circuit_translator(schematic)[, w=p][, peak_values=True|False])
             (defaults of w / peak_values are read from the dataclass ComplexSolution in Circuit/solution.py)
=== SimpleCircuit/Display.py ===  the four text functions the adapters call, -> g_print_real / g_print_complex /
  g_print_sinosoidal / g_print_active_power (parameter names and order must be the model's):
  statements   NAME = <e> | NAME += <e> | if <bool>: return <e> | if <bool>: NAME += <e> ... | return <e>
               | L = [<text>, ...] | L.append(<text>) | if <bool>: <updates of one variable> [else: <updates of the same variable>]
               (an update is NAME += <e> or L.append(<text>); `if/else` -> let v' := if b then .. else .. in)
  <e> text     'lit' | str(<e>) | f'{a}{b}' | a if <bool> else b | ScientificFloat(...) | str(ScientificComplex(...))
               (argument binding and defaults of the two dataclasses are read from Utils.py; exp_prefixes a dict literal)
               | ''.join(L) -> List.concat L | L[K] -> List.nth K L []  (K a literal index smaller than the number of texts L holds on
               every path, which the translator tracks: no IndexError is possible)
  list of texts L: a Coq `list label`, bound by a list literal only (never a second name for the same list, never passed on
               or returned: Python lists are mutable, the only operations are append / L[K] / ''.join(L));
               L.append(t) -> L ++ [t]
  <e> number   parameter | value.real (of a float) | abs(x) | phase(z) | degrees(x) | x/2/pi | NAME += pi/2 if <bool> else 0
               (abs / phase of a complex, degrees, +pi/2 and /2/pi are the oracles of Model/Annotation.v)
  <bool>       parameter | not <bool> | x > 0 | x > FLOAT | x == 0
=== Circuit/solution.py, class ComplexSolution ===
  get_voltage|get_current|get_potential(self, id):  if self.peak_values: return self._solution.get_X(id)
                                                    return self._solution.get_X(id)/np.sqrt(2)        (either branch order)
      or  return self._h(self._solution.get_X(id))  with _h a private method (one leading underscore) of ComplexSolution made of
      `if <test>: return <e>` / `return <e>` statements only, its parameter exactly once in every returned expression and not
      in a test: the body of _h with the parameter replaced by the argument must then be the shape above
  get_power(self, id):  if self.peak_values: return 1/2*self.get_voltage(id)*np.conj(self.get_current(id))
                        return self.get_voltage(id)*np.conj(self.get_current(id))
      optionally preceded by assignments `NAME = <expr>` (each NAME bound once, not defined from another NAME, used exactly once
      and in the order of the assignments in EVERY returned expression, nowhere else): the shape above must result from replacing
      the NAMEs by their expressions (every path then evaluates the same calls in the same order)
=== SimpleSimulation/schematic.py (annotation part) ===
  solutions = {'t': ds.<factory>, ...}
  SolutionDefinition.diagram_solution_creator: the pinned text with slots (type key, default type string, fallback factory)
  SolutionDefinition.voltages|currents|potentials|powers:  return self.data.get('k', [])
  fill, after the element loop and `if light_lamps:` : try: solution = solution_definition.diagram_solution_creator(schematic)
      (except ValueError -> IllegalElementValue), then loops
      for v in solution_definition.<list>: try: schematic += solution.draw_X(**v)  except dp.UnknownElement as e: print(...)
  (robh) or, for any of these loops,   schematic = _h(schematic, solution_definition.<list>, lambda v: solution.draw_X(**v), 'text')
      with a private module-level helper   def _h(p0, p1, ..): for d in pj: <body>; ...; return p0
      The call is replaced by the body of _h before the recognition above (p0 renamed to the caller's name, which must be both the
      target and the first argument; a string literal / dotted name substituted for the single read of its parameter, the dotted
      name only as the iterable of the `for` that starts the helper; a call f(d) of a lambda parameter replaced by the body of the
      lambda with d for its parameter); see inline_loop_helper for the exact conditions.  A private helper that fill does not call
      in this way is refused.
"""
import ast
import copy
import os
import re

from v2lib import Unsupported, parse, where
from gen_saveload import Strings, normalized, norm_src, dotted, const_str, body_without_docstring, schematic_module, need

DIAGRAM = ('SimpleCircuit', 'DiagramSolution.py')
DISPLAY = ('SimpleCircuit', 'Display.py')
SOLUTION = ('Circuit', 'solution.py')
REL = 'SimpleCircuit/DiagramSolution.py'

QUANT = {'get_voltage': 'QVoltage', 'get_current': 'QCurrent', 'get_power': 'QPower', 'get_potential': 'QPotential'}
METHODS = ['get_voltage', 'get_current', 'get_power', 'get_potential']
# Display.py function -> (model function, parameters in the model's order, type of each parameter)
PRINTS = {
    'print_real': ('g_print_real', ['value', 'unit', 'precision'], {'value': 'Q', 'unit': 'label', 'precision': 'Z'}),
    'print_active_power': ('g_print_active_power', ['value', 'precision'], {'value': 'Q', 'precision': 'Z'}),
    'print_complex': ('g_print_complex', ['value', 'unit', 'precision', 'polar', 'deg'],
                      {'value': 'C', 'unit': 'label', 'precision': 'Z', 'polar': 'bool', 'deg': 'bool'}),
    'print_sinosoidal': ('g_print_sinosoidal', ['value', 'unit', 'precision', 'w', 'sin', 'deg', 'hertz'],
                         {'value': 'C', 'unit': 'label', 'precision': 'Z', 'w': 'Q', 'sin': 'bool', 'deg': 'bool', 'hertz': 'bool'}),
}
ANN_TYPES = {'bool': 'bool', 'int': 'Z', 'float': 'Q', 'str': 'label'}
COQ_TYPES = {'bool': 'bool', 'Z': 'Z', 'Q': 'Q', 'label': 'label', 'dc': 'dc_solution', 'cx': 'cx_solution', 'sm': 'solution_methods'}
LABEL_CLASSES = {'VoltageLabel': ('LVoltageLabel', 'vlabel'), 'CurrentLabel': ('LCurrentLabel', 'ilabel'),
                 'PowerLabel': ('LPowerLabel', 'plabel'), 'LabelNode': ('LLabelNode', 'name')}
COLORS = {'blue': 'Blue', 'red': 'Red', 'green': 'Green'}
DRAWS = {'draw_voltage': 'get_voltage', 'draw_current': 'get_current', 'draw_power': 'get_power', 'draw_potential': 'get_potential'}
SOL_FN = {'real_solution': 'SF_real', 'complex_solution': 'SF_complex', 'single_frequency_complex_solution': 'SF_single_frequency_complex',
          'empty_solution': 'SF_empty'}

CREATOR_REF = """
def diagram_solution_creator(self):
    solution_type = self.data.get({k!r}, {d!r})
    solution_fcn = solutions.get(solution_type, ds.{fb})
    feasible_solution_params = signature(solution_fcn).parameters.keys()
    solution_parameters = {{k: v for k, v in self.data.items() if k in feasible_solution_params}}
    return lambda schematic: solution_fcn(schematic=schematic, **solution_parameters)
"""
FILL_TAIL_REF = """
def fill(schematic, elements, unit, light_lamps, solution_definition):
    if light_lamps:
        ll.light_lamps(schematic)
    try:
        solution = solution_definition.diagram_solution_creator(schematic)
    except ValueError as e:
        schematic = elm.Schematic(unit=unit)
        raise errors.IllegalElementValue(str(e)) from e
"""


def is_private(name):
    return name.startswith('_') and not name.startswith('__')


class _Subst(ast.NodeTransformer):
    """replaces the loads of the given names by (copies of) expressions"""

    def __init__(self, mapping):
        self.mapping, self.count = mapping, {k: 0 for k in mapping}

    def visit_Name(self, n):
        if isinstance(n.ctx, ast.Load) and n.id in self.mapping:
            self.count[n.id] += 1
            return copy.deepcopy(self.mapping[n.id])
        return n


def bind_call(call, params, path, ctx):
    """arguments of a call (positional / keyword, no * or **) against the parameter names: every parameter exactly once"""
    given = {}
    if len(call.args) > len(params) or any(isinstance(a, ast.Starred) for a in call.args):
        raise Unsupported(f'{where(call, path)}: {ctx}: arguments of the helper call {ast.unparse(call)[:60]}')
    for name, a in zip(params, call.args):
        given[name] = a
    for k in call.keywords:
        if k.arg is None or k.arg not in params or k.arg in given:
            raise Unsupported(f'{where(call, path)}: {ctx}: keyword {k.arg} of the helper call {ast.unparse(call)[:60]}')
        given[k.arg] = k.value
    if set(given) != set(params):
        raise Unsupported(f'{where(call, path)}: {ctx}: the helper call does not give every parameter: {ast.unparse(call)[:60]}')
    return given


def expression_helper(f, path, method, allowed_free=()):
    """a private helper `def _h([self, ]p1: ann, ...): return <expr>`: -> ([p1, ...], expr).  No defaults, no decorators; every
    parameter occurs exactly once in <expr> (so replacing it by the argument expression keeps the number and the order of the
    evaluations as long as nothing else in <expr> can raise or has an effect: the recognisers applied AFTER the replacement only
    admit field reads, literals and one dsp.print_* call around it); no other free names than `allowed_free`."""
    a = f.args
    names = [x.arg for x in a.args]
    if a.vararg or a.kwarg or a.kwonlyargs or a.posonlyargs or a.defaults or f.decorator_list or len(set(names)) != len(names) \
            or (method and names[:1] != ['self']):
        raise Unsupported(f'{where(f, path)}: helper {f.name}: parameters are not plain positional parameters without defaults')
    params = names[1:] if method else names
    body = body_without_docstring(f)
    if not (len(body) == 1 and isinstance(body[0], ast.Return) and body[0].value is not None):
        raise Unsupported(f'{where(f, path)}: helper {f.name}: the body is not a single `return <expression>`')
    e = body[0].value
    for n in ast.walk(e):
        if isinstance(n, (ast.Lambda, ast.ListComp, ast.SetComp, ast.DictComp, ast.GeneratorExp, ast.NamedExpr, ast.Await, ast.Yield,
                          ast.YieldFrom, ast.Starred)):
            raise Unsupported(f'{where(n, path)}: helper {f.name}: {type(n).__name__} inside a helper')
        if isinstance(n, ast.Name) and not (isinstance(n.ctx, ast.Load) and (n.id in params or n.id in allowed_free)):
            raise Unsupported(f'{where(n, path)}: helper {f.name}: the name {n.id} is neither a parameter nor one of {sorted(allowed_free)}')
    for q in params:
        if sum(1 for n in ast.walk(e) if isinstance(n, ast.Name) and n.id == q) != 1:
            raise Unsupported(f'{where(f, path)}: helper {f.name}: the parameter {q} does not occur exactly once in the returned expression')
    return params, e


class _Inline(ast.NodeTransformer):
    """replaces the calls of module-level helpers `_f(...)` and of private methods `self._m(...)` by their returned expression
    (arguments first: inner calls are replaced before outer ones)"""

    def __init__(self, mod_helpers, cls_helpers, path, ctx, uses):
        self.mh, self.ch, self.path, self.ctx, self.uses = mod_helpers, cls_helpers, path, ctx, uses

    def visit_Call(self, node):
        self.generic_visit(node)
        f = node.func
        if isinstance(f, ast.Name) and f.id in self.mh:
            key, (params, e) = ('module', f.id), self.mh[f.id]
        elif isinstance(f, ast.Attribute) and isinstance(f.value, ast.Name) and f.value.id == 'self' and f.attr in self.ch:
            key, (params, e) = ('method', f.attr), self.ch[f.attr]
        else:
            return node
        given = bind_call(node, params, self.path, self.ctx)
        self.uses[key] = self.uses.get(key, 0) + 1
        new = _Subst(given).visit(copy.deepcopy(e))
        return ast.copy_location(new, node)


def inline_loop_helper(st, helpers, outer_names, path, used):
    """X = _h(X, a1, ..., an)   with the module-level private helper
           def _h(p0, p1, ..., pn):  for v in pj: <body> ; ... ; return p0
    -> the statements of _h before its final `return p0`, with p0 renamed to X and every other parameter replaced by its argument.
    Conditions that make this the same computation: positional arguments only; the target and the first argument are the same
    name X (so the rebinding of p0 inside the helper is the rebinding of X; `return p0` / `X = ...` give X its own value);
    every other parameter is read exactly once and never assigned; an argument is
      a string literal              (evaluating it has no effect, wherever and however often),
      lambda q: <expr>              (creating it has no effect; the parameter must only be CALLED, with one positional argument that
                                     is a name: the call is replaced by <expr>[q := that name]; <expr> has no lambda /
                                     comprehension / walrus and does not mention a local of the helper),
      a dotted name  a.b            (may run a property: allowed only as the iterable of the `for` that is the FIRST statement of
                                     the helper, where it is evaluated once and before everything else, like at the call);
    the helper has no other return, no yield / global / nonlocal / nested def, and its locals differ from the names of the caller.
    Statements of another form are returned unchanged."""
    if not (isinstance(st, ast.Assign) and isinstance(st.value, ast.Call) and isinstance(st.value.func, ast.Name)
            and st.value.func.id in helpers):
        for n in ast.walk(st):
            if isinstance(n, ast.Name) and n.id in helpers:
                raise Unsupported(f'{where(st, path)}: fill: the helper {n.id} is used outside `X = {n.id}(X, ...)`')
        return [st]
    call, h = st.value, helpers[st.value.func.id]
    hn = h.name
    bad = lambda what, node=st: Unsupported(f'{where(node, path)}: fill / {hn}: {what}')   # noqa: E731
    a = h.args
    ps = [x.arg for x in a.args]
    if a.vararg or a.kwarg or a.kwonlyargs or a.posonlyargs or a.defaults or h.decorator_list or len(set(ps)) != len(ps) or not ps:
        raise bad('parameters of the helper are not plain positional parameters without defaults', h)
    if call.keywords or len(call.args) != len(ps) or any(isinstance(x, ast.Starred) for x in call.args):
        raise bad('the helper is not called with one positional argument per parameter')
    if not (len(st.targets) == 1 and isinstance(st.targets[0], ast.Name) and isinstance(call.args[0], ast.Name)
            and call.args[0].id == st.targets[0].id):
        raise bad('the call is not `X = helper(X, ...)`')
    X = st.targets[0].id
    hb = body_without_docstring(h)
    if not (len(hb) >= 2 and isinstance(hb[-1], ast.Return) and isinstance(hb[-1].value, ast.Name) and hb[-1].value.id == ps[0]):
        raise bad('the helper does not end in `return <first parameter>`', h)
    stmts = hb[:-1]
    for s_ in stmts:
        for n in ast.walk(s_):
            if isinstance(n, (ast.Return, ast.Yield, ast.YieldFrom, ast.Await, ast.Global, ast.Nonlocal, ast.FunctionDef, ast.ClassDef,
                              ast.Lambda, ast.NamedExpr, ast.ListComp, ast.SetComp, ast.DictComp, ast.GeneratorExp, ast.Import,
                              ast.ImportFrom, ast.Delete)):
                raise bad(f'{type(n).__name__} inside the helper', n)
    stored = {n.id for s_ in stmts for n in ast.walk(s_) if isinstance(n, ast.Name) and not isinstance(n.ctx, ast.Load)}
    stored |= {hd.name for s_ in stmts for n in ast.walk(s_) if isinstance(n, ast.Try) for hd in n.handlers if hd.name}
    locals_ = stored - {ps[0]}
    if locals_ & (set(outer_names) | set(ps) | set(helpers)) or X in locals_:
        raise bad(f'a local of the helper ({sorted(locals_)}) is a parameter or a name of the caller', h)
    mapping, lambdas = {ps[0]: ast.Name(id=X, ctx=ast.Load())}, {}
    for q, arg in zip(ps[1:], call.args[1:]):
        uses = [n for s_ in stmts for n in ast.walk(s_) if isinstance(n, ast.Name) and n.id == q]
        if len(uses) != 1 or not isinstance(uses[0].ctx, ast.Load):
            raise bad(f'the parameter {q} is not read exactly once', h)
        if const_str(arg) is not None:
            mapping[q] = arg
        elif isinstance(arg, ast.Lambda):
            la = arg.args
            if len(la.args) != 1 or la.vararg or la.kwarg or la.kwonlyargs or la.posonlyargs or la.defaults:
                raise bad('lambda argument is not `lambda q: <expr>`', arg)
            for n in ast.walk(arg.body):
                if isinstance(n, (ast.Lambda, ast.NamedExpr, ast.ListComp, ast.SetComp, ast.DictComp, ast.GeneratorExp, ast.Await,
                                  ast.Yield, ast.YieldFrom)):
                    raise bad(f'{type(n).__name__} inside a lambda argument', n)
                if isinstance(n, ast.Name) and (n.id in locals_ or n.id in ps or not isinstance(n.ctx, ast.Load)):
                    raise bad(f'the lambda argument mentions {n.id}, a name of the helper', n)
            lambdas[q] = arg
        elif dotted(arg) is not None and isinstance(arg, ast.Attribute):
            if not (isinstance(stmts[0], ast.For) and stmts[0].iter is uses[0]):
                raise bad(f'{ast.unparse(arg)} is given for {q}, which is not the iterable of a `for` that starts the helper')
            if any(isinstance(n, ast.Name) and (n.id in locals_ or n.id in ps) for n in ast.walk(arg)):
                raise bad(f'the argument {ast.unparse(arg)} mentions a name of the helper')
            mapping[q] = arg
        else:
            raise bad(f'argument outside the subset (string literal, lambda q: .., dotted name): {ast.unparse(arg)}', arg)

    class Sub(ast.NodeTransformer):
        def visit_Name(self, n):
            if n.id == ps[0]:
                return ast.copy_location(ast.Name(id=X, ctx=n.ctx), n)
            if n.id in lambdas:
                raise bad(f'the function parameter {n.id} is used otherwise than in a call {n.id}(<name>)', n)
            if n.id in mapping:
                return ast.copy_location(copy.deepcopy(mapping[n.id]), n)
            return n

        def visit_Call(self, n):
            if isinstance(n.func, ast.Name) and n.func.id in lambdas:
                lam = lambdas[n.func.id]
                if not (len(n.args) == 1 and not n.keywords and isinstance(n.args[0], ast.Name) and n.args[0].id in locals_):
                    raise bad(f'the function parameter {n.func.id} is not called with one local name', n)
                return ast.copy_location(_Subst({lam.args.args[0].arg: n.args[0]}).visit(copy.deepcopy(lam.body)), n)
            self.generic_visit(n)
            return n
    used.add(hn)
    return [ast.fix_missing_locations(Sub().visit(copy.deepcopy(s_))) for s_ in stmts]


def const_coq(n, ty, K, path):
    """a literal of the expected type"""
    if isinstance(n, ast.Constant):
        v = n.value
        if ty == 'bool' and isinstance(v, bool):
            return str(v).lower()
        if ty == 'Z' and isinstance(v, int) and not isinstance(v, bool):
            return f'({v})%Z'
        if ty == 'Q' and isinstance(v, int) and not isinstance(v, bool):
            return f'(inject_Z ({v}))'
        if ty == 'label' and isinstance(v, str):
            return K(v)
    raise Unsupported(f'{where(n, path)}: literal {ast.unparse(n)} where a {ty} is expected')


def const_dvalue(n, ty, K, path):
    if isinstance(n, ast.Constant):
        v = n.value
        if ty == 'bool' and isinstance(v, bool):
            return f'DBool {str(v).lower()}'
        if ty == 'label' and isinstance(v, str):
            return f'DStr {K(v)}'
    raise Unsupported(f'{where(n, path)}: default {ast.unparse(n)} outside the subset')


def ann_type(a, path, what):
    if isinstance(a, ast.Name) and a.id in ANN_TYPES:
        return ANN_TYPES[a.id]
    raise Unsupported(f'{where(a, path) if a is not None else path}: {what}: annotation outside bool / int / float / str')


class Gen:
    def __init__(self, src):
        self.src = src
        self.K = Strings()
        self.path = os.path.join(src, *DIAGRAM)
        self.tree = parse(self.path)
        self.classes, self.funcs = {}, {}
        self._module()
        # module-level private functions `_f(p, ...)`: expression helpers, replaced at their call sites (not factories)
        self.mod_helpers = {n: expression_helper(f, self.path, method=False) for n, f in self.funcs.items() if is_private(n)}
        self.funcs = {n: f for n, f in self.funcs.items() if n not in self.mod_helpers}
        self.helper_uses = {}
        self.display = self._display()
        self.cs_defaults = self._complex_solution_fields()
        self.adapters = {}          # class name -> {'fields': [(name, type, default)], 'coq': name}

    # ---- module level
    def _module(self):
        p = self.path
        bound, imports = [], {}
        for st in self.tree.body:
            if isinstance(st, ast.ImportFrom):
                for a in st.names:
                    if a.name == '*':
                        raise Unsupported(f'{where(st, p)}: star import')
                    imports[a.asname or a.name] = (st.module, st.level, a.name)
                    bound.append(a.asname or a.name)
            elif isinstance(st, ast.Import):
                for a in st.names:
                    imports[a.asname or a.name.split('.')[0]] = (a.name, 0, None)
                    bound.append(a.asname or a.name.split('.')[0])
            elif isinstance(st, ast.ClassDef):
                self.classes[st.name] = st
                bound.append(st.name)
            elif isinstance(st, ast.FunctionDef):
                if st.decorator_list:
                    raise Unsupported(f'{where(st, p)}: decorated function {st.name}')
                self.funcs[st.name] = st
                bound.append(st.name)
            else:
                raise Unsupported(f'{where(st, p)}: module-level statement outside the subset: {ast.unparse(st)[:60]}')
        dup = sorted({b for b in bound if bound.count(b) > 1})
        if dup:
            raise Unsupported(f'{p}: names bound more than once at module level: {dup}')
        exp = {'ComplexSolution': ('Circuit.solution', 2, 'ComplexSolution'), 'DCSolution': ('Circuit.solution', 2, 'DCSolution'),
               'elm': (None, 1, 'Elements'), 'dsp': (None, 1, 'Display'),
               'SchematicDiagramParser': ('DiagramTranslator', 1, 'SchematicDiagramParser'),
               'circuit_translator': ('DiagramTranslator', 1, 'circuit_translator'),
               'dataclass': ('dataclasses', 0, 'dataclass'), 'Protocol': ('typing', 0, 'Protocol')}
        for k, v in exp.items():
            if imports.get(k) != v:
                raise Unsupported(f'{p}: {k} is not imported from {v} (found {imports.get(k)})')

    def _display(self):
        path = os.path.join(self.src, *DISPLAY)
        tree = parse(path)
        out = {}
        seen = []
        self.display_funcs, self.display_path = {}, path
        imps = {}
        for st in tree.body:
            if isinstance(st, ast.ImportFrom):
                for a in st.names:
                    imps[a.asname or a.name] = (st.module, st.level, a.name)
                    seen.append(a.asname or a.name)
            elif not isinstance(st, (ast.FunctionDef, ast.Assign)):
                raise Unsupported(f'{where(st, path)}: module-level statement outside the subset')
        exp = {'ScientificFloat': ('Utils', 2, 'ScientificFloat'), 'ScientificComplex': ('Utils', 2, 'ScientificComplex'),
               'degrees': ('math', 0, 'degrees'), 'pi': ('math', 0, 'pi'), 'phase': ('cmath', 0, 'phase')}
        for k, v in exp.items():
            if imps.get(k) != v or seen.count(k) != 1:
                raise Unsupported(f'{path}: {k} is not imported (once) from {v}')
        for st in tree.body:
            if isinstance(st, ast.FunctionDef):
                seen.append(st.name)
                if st.name in PRINTS:
                    a = st.args
                    if a.vararg or a.kwarg or a.kwonlyargs or a.posonlyargs or st.decorator_list:
                        raise Unsupported(f'{where(st, path)}: {st.name}: parameter list outside the subset')
                    names = [x.arg for x in a.args]
                    if names != PRINTS[st.name][1]:
                        raise Unsupported(f'{where(st, path)}: {st.name}{tuple(names)}: parameters differ from the model\'s {PRINTS[st.name][1]}')
                    defaults = [None] * (len(names) - len(a.defaults)) + list(a.defaults)
                    out[st.name] = dict(zip(names, defaults))
                    self.display_funcs[st.name] = st
            elif isinstance(st, ast.Assign) and len(st.targets) == 1 and isinstance(st.targets[0], ast.Name):
                seen.append(st.targets[0].id)
        for f in PRINTS:
            if f not in out or seen.count(f) != 1:
                raise Unsupported(f'{path}: {f} not defined exactly once')
        for b in ('abs', 'str'):
            if b in seen:
                raise Unsupported(f'{path}: builtin {b} rebound')
        for c in COLORS:
            if seen.count(c) != 1:
                raise Unsupported(f'{path}: colour {c} not defined exactly once')
        return out

    def _complex_solution_fields(self):
        path = os.path.join(self.src, *SOLUTION)
        tree = parse(path)
        cls = [st for st in tree.body if isinstance(st, ast.ClassDef) and st.name == 'ComplexSolution']
        if len(cls) != 1:
            raise Unsupported(f'{path}: class ComplexSolution not defined exactly once')
        self.cs_class, self.cs_path = cls[0], path
        out = {}
        for m in cls[0].body:
            if isinstance(m, ast.AnnAssign) and isinstance(m.target, ast.Name) and m.target.id in ('w', 'peak_values'):
                if m.value is None:
                    raise Unsupported(f'{where(m, path)}: ComplexSolution.{m.target.id} has no default')
                out[m.target.id] = m.value
        if set(out) != {'w', 'peak_values'}:
            raise Unsupported(f'{path}: ComplexSolution: fields w / peak_values not found')
        return out

    # ---- dataclass fields
    def fields(self, c):
        p = self.path
        out = []
        for m in c.body:
            if isinstance(m, ast.AnnAssign) and isinstance(m.target, ast.Name):
                ann = m.annotation
                if isinstance(ann, ast.Name) and ann.id in ('DCSolution', 'ComplexSolution'):
                    if m.value is not None:
                        raise Unsupported(f'{where(m, p)}: {c.name}.{m.target.id}: default for the solution object')
                    out.append((m.target.id, 'dc' if ann.id == 'DCSolution' else 'cx', None))
                else:
                    ty = ann_type(ann, p, f'{c.name}.{m.target.id}')
                    if m.value is None:
                        raise Unsupported(f'{where(m, p)}: {c.name}.{m.target.id}: option without default')
                    out.append((m.target.id, ty, m.value))
            elif isinstance(m, ast.FunctionDef):
                pass
            else:
                raise Unsupported(f'{where(m, p)}: class {c.name}: member outside the subset')
        if out and not (len(c.decorator_list) == 1 and dotted(c.decorator_list[0]) == 'dataclass'):
            raise Unsupported(f'{where(c, p)}: class {c.name} has fields but is not a plain @dataclass')
        if not out and c.decorator_list:
            raise Unsupported(f'{where(c, p)}: class {c.name}: decorator')
        if c.bases or c.keywords:
            raise Unsupported(f'{where(c, p)}: class {c.name}: base classes')
        return out

    # ---- the protocol
    def protocol(self):
        c, p = need(self.classes, 'DiagramSolution', self.path, 'class'), self.path
        if [dotted(b) for b in c.bases] != ['Protocol'] or c.decorator_list:
            raise Unsupported(f'{where(c, p)}: DiagramSolution is not a plain Protocol')
        ms = [m for m in c.body if isinstance(m, ast.FunctionDef)]
        if len(ms) != len(c.body) or [m.name for m in ms] != METHODS:
            raise Unsupported(f'{where(c, p)}: DiagramSolution does not declare exactly {METHODS}')
        for m in ms:
            want = ['self', 'name'] + ([] if m.name == 'get_potential' else ['reverse'])
            if [a.arg for a in m.args.args] != want or m.args.defaults or m.args.vararg or m.args.kwarg or m.args.kwonlyargs:
                raise Unsupported(f'{where(m, p)}: DiagramSolution.{m.name}: parameters are not {want}')
            b = body_without_docstring(m)
            if not (len(b) == 1 and isinstance(b[0], ast.Expr) and isinstance(b[0].value, ast.Constant) and b[0].value.value is Ellipsis):
                raise Unsupported(f'{where(m, p)}: DiagramSolution.{m.name}: body is not `...`')

    # ---- adapter classes
    def adapter(self, c):
        p, K = self.path, self.K
        flds = self.fields(c)
        if [f for f, t, _ in flds if t in ('dc', 'cx')] not in ([], ['solution']):
            raise Unsupported(f'{where(c, p)}: class {c.name}: the solution object is not the field `solution`')
        soltype = next((t for f, t, _ in flds if f == 'solution'), None)
        allms = [m for m in c.body if isinstance(m, ast.FunctionDef)]
        if len({m.name for m in allms}) != len(allms):
            raise Unsupported(f'{where(c, p)}: class {c.name}: a method is defined twice')
        # private methods `_m(self, p, ...)`: expression helpers, replaced at their call sites `self._m(...)`
        cls_helpers = {m.name: expression_helper(m, p, method=True, allowed_free=('self', 'dsp')) for m in allms if is_private(m.name)}
        for hn, (_, he) in cls_helpers.items():
            for n in ast.walk(he):
                if isinstance(n, ast.Call) and (isinstance(n.func, ast.Name) and n.func.id in self.mod_helpers or
                                                isinstance(n.func, ast.Attribute) and n.func.attr in cls_helpers):
                    raise Unsupported(f'{where(n, p)}: {c.name}.{hn}: a helper calls a helper')
        uses = {}
        ms = []
        for m in allms:
            if m.name in cls_helpers:
                continue
            if any(isinstance(n, ast.Name) and n.id in ('dsp', 'self') and not isinstance(n.ctx, ast.Load) for n in ast.walk(m)) or \
                    any(x.arg == 'dsp' for x in m.args.args):
                raise Unsupported(f'{where(m, p)}: {c.name}.{m.name}: dsp / self rebound')
            m2 = _Inline(self.mod_helpers, cls_helpers, p, f'{c.name}.{m.name}', uses).visit(copy.deepcopy(m))
            ms.append(ast.fix_missing_locations(m2))
        for hn in cls_helpers:
            if not uses.get(('method', hn)):
                raise Unsupported(f'{where(c, p)}: {c.name}: the private helper {hn} is never called by the four getters')
        for k, v in uses.items():
            if k[0] == 'module':
                self.helper_uses[k[1]] = self.helper_uses.get(k[1], 0) + v
        if [m.name for m in ms] != METHODS:
            raise Unsupported(f'{where(c, p)}: class {c.name} does not define exactly {METHODS} (in this order; private helpers `_m` apart)')
        params = ' '.join(f'(self_{f} : {COQ_TYPES[t]})' for f, t, _ in flds)
        args = ' '.join(f'self_{f}' for f, _, _ in flds)
        out = [f'(* class {c.name}   ({where(c, REL)}); fields: ' +
               ', '.join(f + (f'={ast.unparse(d)}' if d is not None else '') for f, _, d in flds) + ' *)']
        for m in ms:
            a = m.args
            want = ['self', 'name'] + ([] if m.name == 'get_potential' else ['reverse'])
            if [x.arg for x in a.args] != want or a.defaults or a.vararg or a.kwarg or a.kwonlyargs or a.posonlyargs or m.decorator_list:
                raise Unsupported(f'{where(m, p)}: {c.name}.{m.name}: parameters are not {want}')
            env = {'reverse': ('reverse', 'bool')} if 'reverse' in want else {}
            body = body_without_docstring(m)
            lines = []
            for st in body[:-1]:
                if not (isinstance(st, ast.Assign) and len(st.targets) == 1 and isinstance(st.targets[0], ast.Name)):
                    raise Unsupported(f'{where(st, p)}: {c.name}.{m.name}: statement outside the subset: {ast.unparse(st)}')
                v, nm = st.value, st.targets[0].id
                if nm in env or nm in ('self', 'name'):
                    raise Unsupported(f'{where(st, p)}: {c.name}.{m.name}: {nm} rebound')
                if not (isinstance(v, ast.IfExp) and isinstance(v.test, ast.Name) and env.get(v.test.id, (0, 0))[1] == 'bool'):
                    raise Unsupported(f'{where(st, p)}: {c.name}.{m.name}: assignment is not `s = INT if reverse else INT`')
                lines.append(f'  let p_{nm} := (if {env[v.test.id][0]} then {self.int_lit(v.body, p)} else {self.int_lit(v.orelse, p)}) in')
                env[nm] = (f'p_{nm}', 'Z')
            if not body or not isinstance(body[-1], ast.Return) or body[-1].value is None:
                raise Unsupported(f'{where(m, p)}: {c.name}.{m.name} does not end in `return <text>`')
            text = self.text_expr(body[-1].value, env, dict((f, t) for f, t, _ in flds), soltype, f'{c.name}.{m.name}')
            rp = ' (reverse : bool)' if 'reverse' in want else ''
            out.append(re.sub(r' +', ' ', f'Definition g_{c.name}_{m.name} {params}{rp} : label :=') + '\n' + '\n'.join(lines + [f'  {text}.']))
        rec = '; '.join(f'sm_{mn} := g_{c.name}_{mn} {args}'.rstrip() for mn in METHODS)
        out.append(f'Definition g_{c.name} {params} : solution_methods :=\n  {{| {rec} |}}.')
        self.adapters[c.name] = {'fields': flds}
        return '\n'.join(out).replace('  :', ' :').replace('  :=', ' :=')

    def int_lit(self, n, p):
        if isinstance(n, ast.UnaryOp) and isinstance(n.op, ast.USub) and isinstance(n.operand, ast.Constant) and \
                isinstance(n.operand.value, int) and not isinstance(n.operand.value, bool):
            return f'(-{n.operand.value})%Z'
        if isinstance(n, ast.Constant) and isinstance(n.value, int) and not isinstance(n.value, bool):
            return f'({n.value})%Z'
        raise Unsupported(f'{where(n, p)}: integer literal expected: {ast.unparse(n)}')

    def value_expr(self, n, env, flds, soltype, ctx):
        """-> (coq, type)"""
        p, K = self.path, self.K
        if isinstance(n, ast.Constant) and isinstance(n.value, str):
            return K(n.value), 'label'
        if isinstance(n, ast.Name) and n.id in env:
            return env[n.id]
        d = dotted(n)
        if d and d.startswith('self.') and d.count('.') == 1 and d[5:] in flds and flds[d[5:]] not in ('dc', 'cx'):
            return f'self_{d[5:]}', flds[d[5:]]
        if d == 'self.solution.w' and soltype == 'cx':
            return '(cx_w self_solution)', 'Q'
        if isinstance(n, ast.Call) and isinstance(n.func, ast.Attribute) and dotted(n.func.value) == 'self.solution' and \
                n.func.attr in QUANT and soltype in ('dc', 'cx'):
            if not (len(n.args) == 1 and not n.keywords and isinstance(n.args[0], ast.Name) and n.args[0].id == 'name'):
                raise Unsupported(f'{where(n, p)}: {ctx}: getter is not called as get_X(name): {ast.unparse(n)}')
            return (f'({soltype}_get self_solution {QUANT[n.func.attr]})', 'Q' if soltype == 'dc' else 'C')
        if isinstance(n, ast.IfExp) and isinstance(n.test, ast.Name) and env.get(n.test.id, (0, 0))[1] == 'bool':
            return f'(if {env[n.test.id][0]} then {self.int_lit(n.body, p)} else {self.int_lit(n.orelse, p)})', 'Z'
        if isinstance(n, ast.BinOp) and isinstance(n.op, ast.Mult):
            l, lt = self.value_expr(n.left, env, flds, soltype, ctx)
            r, rt = self.value_expr(n.right, env, flds, soltype, ctx)
            if lt == 'Z' and rt in ('Q', 'C'):
                return f'(int_times_{rt} {l} {r})', rt
            raise Unsupported(f'{where(n, p)}: {ctx}: product is not <int>*<value>: {ast.unparse(n)}')
        raise Unsupported(f'{where(n, p)}: {ctx}: expression outside the subset: {ast.unparse(n)}')

    def text_expr(self, n, env, flds, soltype, ctx):
        p, K = self.path, self.K
        if isinstance(n, ast.Constant) and isinstance(n.value, str):
            return K(n.value)
        if not (isinstance(n, ast.Call) and isinstance(n.func, ast.Attribute) and dotted(n.func.value) == 'dsp' and n.func.attr in PRINTS):
            raise Unsupported(f'{where(n, p)}: {ctx}: result is not a string literal or a call of dsp.print_real / print_complex / '
                              f'print_sinosoidal / print_active_power: {ast.unparse(n)}')
        fn = n.func.attr
        model, order, types = PRINTS[fn]
        given = {}
        if len(n.args) > len(order):
            raise Unsupported(f'{where(n, p)}: {ctx}: too many arguments')
        for name, a in zip(order, n.args):
            given[name] = a
        for k in n.keywords:
            if k.arg is None or k.arg not in order or k.arg in given:
                raise Unsupported(f'{where(n, p)}: {ctx}: keyword {k.arg} of {fn}')
            given[k.arg] = k.value
        args = []
        for name in order:
            if name in given:
                c, t = self.value_expr(given[name], env, flds, soltype, ctx)
                if t != types[name]:
                    raise Unsupported(f'{where(given[name], p)}: {ctx}: {fn}({name}=...) is given a {t}, the model expects a {types[name]}')
                args.append(c)
            else:
                dflt = self.display[fn][name]
                if dflt is None:
                    raise Unsupported(f'{where(n, p)}: {ctx}: {fn}: required argument {name} missing')
                args.append(const_coq(dflt, types[name], K, p))
        return f'{model} ' + ' '.join(args)

    # ---- SchematicDiagramSolution.draw_*
    def draws(self):
        p, K = self.path, self.K
        c = need(self.classes, 'SchematicDiagramSolution', p, 'class')
        if not (len(c.decorator_list) == 1 and dotted(c.decorator_list[0]) == 'dataclass') or c.bases:
            raise Unsupported(f'{where(c, p)}: SchematicDiagramSolution is not a plain @dataclass')
        flds = [(m.target.id, ast.unparse(m.annotation)) for m in c.body if isinstance(m, ast.AnnAssign) and isinstance(m.target, ast.Name)
                and m.value is None]
        if flds != [('diagram_parser', 'SchematicDiagramParser'), ('solution', 'DiagramSolution')]:
            raise Unsupported(f'{where(c, p)}: SchematicDiagramSolution: fields are not diagram_parser: SchematicDiagramParser, solution: DiagramSolution')
        ms = [m for m in c.body if isinstance(m, ast.FunctionDef)]
        if sorted(m.name for m in ms) != sorted(DRAWS) or len(ms) + 2 != len(c.body):
            raise Unsupported(f'{where(c, p)}: SchematicDiagramSolution does not define exactly {sorted(DRAWS)}')
        out, defaults = [], []
        for m in ms:
            a = m.args
            if a.vararg or a.kwarg or a.kwonlyargs or a.posonlyargs or m.decorator_list or [x.arg for x in a.args[:2]] != ['self', 'name'] \
                    or len(a.defaults) != len(a.args) - 2:
                raise Unsupported(f'{where(m, p)}: {m.name}: parameters are not (self, name, opt=CONST, ...)')
            env, prm, dfl = {}, [], []
            for x, dv in zip(a.args[2:], a.defaults):
                ty = ann_type(x.annotation, p, f'{m.name}({x.arg})')
                if ty not in ('bool', 'label'):
                    raise Unsupported(f'{where(x, p)}: {m.name}: parameter {x.arg} is not bool / str')
                env[x.arg] = (f'p_{x.arg}', ty)
                prm.append(f'(p_{x.arg} : {ty})')
                dfl.append(f'({K(x.arg)}, {const_dvalue(dv, ty, K, p)})')
            defaults.append((QUANT[DRAWS[m.name]], dfl))
            body = body_without_docstring(m)
            lines, elvar = [], None
            for st in body[:-1]:
                if not (isinstance(st, ast.Assign) and len(st.targets) == 1 and isinstance(st.targets[0], ast.Name) and isinstance(st.value, ast.Call)):
                    raise Unsupported(f'{where(st, p)}: {m.name}: statement outside the subset: {ast.unparse(st)}')
                nm, v = st.targets[0].id, st.value
                if nm in env or nm in ('self', 'name') or nm == elvar:
                    raise Unsupported(f'{where(st, p)}: {m.name}: {nm} rebound')
                if dotted(v.func) == 'self.diagram_parser.get_element':
                    if not (len(v.args) == 1 and not v.keywords and dotted(v.args[0]) == 'name') or elvar is not None:
                        raise Unsupported(f'{where(st, p)}: {m.name}: not `element = self.diagram_parser.get_element(name)`')
                    elvar = nm
                    continue
                if isinstance(v.func, ast.Attribute) and dotted(v.func.value) == 'self.solution' and v.func.attr in QUANT:
                    kws = {k.arg: k.value for k in v.keywords}
                    want = {'name'} | (set() if v.func.attr == 'get_potential' else {'reverse'})
                    if v.args or None in kws or set(kws) != want or dotted(kws['name']) != 'name':
                        raise Unsupported(f'{where(st, p)}: {m.name}: getter is not called with the keywords {sorted(want)}: {ast.unparse(v)}')
                    if 'reverse' in want:
                        rv = self.bool_expr(kws['reverse'], env, elvar, m.name)
                        lines.append(f'  let p_{nm} := sm_{v.func.attr} self_solution {rv} in')
                    else:
                        lines.append(f'  let p_{nm} := sm_{v.func.attr} self_solution in')
                    env[nm] = (f'p_{nm}', 'label')
                    continue
                raise Unsupported(f'{where(st, p)}: {m.name}: statement outside the subset: {ast.unparse(st)}')
            r = body[-1].value if body and isinstance(body[-1], ast.Return) else None
            if not (isinstance(r, ast.Call) and isinstance(r.func, ast.Attribute) and dotted(r.func.value) == 'elm' and r.func.attr in LABEL_CLASSES):
                raise Unsupported(f'{where(m, p)}: {m.name} does not return elm.VoltageLabel / CurrentLabel / PowerLabel / LabelNode(...)')
            lcls, textkw = LABEL_CLASSES[r.func.attr]
            rec = {'dr_text': 'None', 'dr_reverse': 'None', 'dr_start': 'None', 'dr_color': 'None', 'dr_loc': 'None', 'dr_at_element': 'false'}
            kws = {k.arg: k.value for k in r.keywords}
            if None in kws or len(kws) != len(r.keywords):
                raise Unsupported(f'{where(r, p)}: {m.name}: ** / duplicate keyword')
            if r.func.attr == 'LabelNode':
                at = kws.pop('at', None)
                if r.args or at is None or elvar is None or ast.unparse(at) != f'{elvar}.absdrop[0]':
                    raise Unsupported(f'{where(r, p)}: {m.name}: LabelNode is not placed with at=element.absdrop[0]')
                rec['dr_at_element'] = 'true'
            else:
                if not (len(r.args) == 1 and elvar is not None and dotted(r.args[0]) == elvar):
                    raise Unsupported(f'{where(r, p)}: {m.name}: first argument of the label is not the element')
                rec['dr_at_element'] = 'true'
            for k, v in kws.items():
                if k == textkw:
                    c_, t = self.plain(v, env, m.name)
                    if t != 'label':
                        raise Unsupported(f'{where(v, p)}: {m.name}: {k}= is not a text')
                    rec['dr_text'] = f'Some {c_}'
                elif k in ('reverse', 'start'):
                    rec['dr_' + k] = f'Some {self.bool_expr(v, env, elvar, m.name)}'
                elif k == 'color':
                    if not (dotted(v) or '').startswith('dsp.') or dotted(v)[4:] not in COLORS:
                        raise Unsupported(f'{where(v, p)}: {m.name}: color= is not dsp.blue / red / green')
                    rec['dr_color'] = f'Some {COLORS[dotted(v)[4:]]}'
                elif k == 'id_loc' and r.func.attr == 'LabelNode':
                    c_, t = self.plain(v, env, m.name)
                    if t != 'label':
                        raise Unsupported(f'{where(v, p)}: {m.name}: id_loc= is not a str parameter')
                    rec['dr_loc'] = f'Some {c_}'
                else:
                    raise Unsupported(f'{where(r, p)}: {m.name}: keyword {k}= of {r.func.attr} is outside the subset')
            recs = '; '.join(f'{k} := {v}' for k, v in [('dr_cls', lcls)] + list(rec.items()))
            out.append(f'(* SchematicDiagramSolution.{m.name}   ({where(m, REL)}) *)\n'
                       f'Definition g_{m.name} (self_solution : solution_methods) (element_is_reverse : bool) {" ".join(prm)} : drawn :=\n'
                       + '\n'.join(lines + [f'  {{| {recs} |}}.']))
        order = ['QVoltage', 'QCurrent', 'QPower', 'QPotential']
        defaults.sort(key=lambda x: order.index(x[0]))
        out.append('(* optional parameters of draw_voltage / draw_current / draw_power / draw_potential with their defaults *)\n'
                   'Definition g_draw_defaults : list (quantity * list (label * dvalue)) :=\n  [' +
                   ';\n   '.join(f'({q}, [{"; ".join(d)}])' for q, d in defaults) + '].')
        return out

    def plain(self, n, env, ctx):
        if isinstance(n, ast.Name) and n.id in env:
            return env[n.id]
        raise Unsupported(f'{where(n, self.path)}: {ctx}: value outside the subset: {ast.unparse(n)}')

    def bool_expr(self, n, env, elvar, ctx):
        if isinstance(n, ast.Name) and env.get(n.id, (0, 0))[1] == 'bool':
            return env[n.id][0]
        if isinstance(n, ast.Constant) and isinstance(n.value, bool):
            return str(n.value).lower()
        if isinstance(n, ast.UnaryOp) and isinstance(n.op, ast.Not):
            return f'(negb {self.bool_expr(n.operand, env, elvar, ctx)})'
        if isinstance(n, ast.IfExp):
            return (f'(if {self.bool_expr(n.test, env, elvar, ctx)} then {self.bool_expr(n.body, env, elvar, ctx)} '
                    f'else {self.bool_expr(n.orelse, env, elvar, ctx)})')
        if elvar is not None and dotted(n) == f'{elvar}.is_reverse':
            return 'element_is_reverse'
        raise Unsupported(f'{where(n, self.path)}: {ctx}: boolean expression outside the subset: {ast.unparse(n)}')

    # ---- factories
    def factory(self, f):
        p, K = self.path, self.K
        a = f.args
        if a.vararg or a.kwarg or a.kwonlyargs or a.posonlyargs or not a.args or len(a.defaults) != len(a.args) - 1:
            raise Unsupported(f'{where(f, p)}: {f.name}: parameters are not (schematic, opt=CONST, ...)')
        sch = a.args[0].arg
        if dotted(a.args[0].annotation) != 'elm.Schematic':
            raise Unsupported(f'{where(f, p)}: {f.name}: first parameter is not `schematic: elm.Schematic`')
        env, prm, sig = {}, [], [(sch, None, None)]
        for x, dv in zip(a.args[1:], a.defaults):
            ty = ann_type(x.annotation, p, f'{f.name}({x.arg})')
            env[x.arg] = (f'p_{x.arg}', ty)
            prm.append((f'p_{x.arg}', ty))
            sig.append((x.arg, ty, dv))
        body = body_without_docstring(f)
        local = {}
        for st in body[:-1]:
            if not (isinstance(st, ast.Assign) and len(st.targets) == 1 and isinstance(st.targets[0], ast.Name) and isinstance(st.value, ast.Call)):
                raise Unsupported(f'{where(st, p)}: {f.name}: statement outside the subset: {ast.unparse(st)}')
            nm = st.targets[0].id
            if nm in local or nm in env or nm == sch:
                raise Unsupported(f'{where(st, p)}: {f.name}: {nm} rebound')
            local[nm] = st.value
        r = body[-1].value if body and isinstance(body[-1], ast.Return) else None
        if not (isinstance(r, ast.Call) and dotted(r.func) == 'SchematicDiagramSolution' and not r.args
                and sorted(k.arg or '' for k in r.keywords) == ['diagram_parser', 'solution']):
            raise Unsupported(f'{where(f, p)}: {f.name} does not return SchematicDiagramSolution(diagram_parser=..., solution=...)')
        kws = {k.arg: k.value for k in r.keywords}

        def resolve(n):
            if isinstance(n, ast.Name) and n.id in local:
                return local[n.id]
            return n
        dpc = resolve(kws['diagram_parser'])
        if not (isinstance(dpc, ast.Call) and dotted(dpc.func) == 'SchematicDiagramParser' and len(dpc.args) == 1 and not dpc.keywords
                and dotted(dpc.args[0]) == sch):
            raise Unsupported(f'{where(r, p)}: {f.name}: diagram_parser is not SchematicDiagramParser(schematic)')
        sc = resolve(kws['solution'])
        if not (isinstance(sc, ast.Call) and isinstance(sc.func, ast.Name) and sc.func.id in self.adapters and not sc.args):
            raise Unsupported(f'{where(r, p)}: {f.name}: solution is not an adapter class of this module: {ast.unparse(sc)}')
        used = {n.id for n in ast.walk(r) if isinstance(n, ast.Name)}
        if set(local) - used:
            raise Unsupported(f'{where(f, p)}: {f.name}: local {sorted(set(local) - used)} is not used in the result')
        cls = sc.func.id
        flds = self.adapters[cls]['fields']
        ckw = {k.arg: k.value for k in sc.keywords}
        if None in ckw or len(ckw) != len(sc.keywords) or set(ckw) - {n for n, _, _ in flds}:
            raise Unsupported(f'{where(sc, p)}: {f.name}: keywords of {cls}(...)')
        args, solver_def, solver_kind = [], None, None
        ps = ' '.join(f'({n} : {COQ_TYPES[t]})' for n, t in prm)
        pa = ' '.join(n for n, _ in prm)
        for n, t, dv in flds:
            if t in ('dc', 'cx'):
                if n not in ckw:
                    raise Unsupported(f'{where(sc, p)}: {f.name}: {cls}(...) without solution=')
                code, solver_kind = self.solver(ckw[n], t, env, sch, f.name)
                solver_def = (f'Definition g_{f.name}_solver (rd : quantity -> reading) {ps} : {COQ_TYPES[t]} :=\n  {code}.')
                args.append(f'(g_{f.name}_solver rd {pa})'.replace(' )', ')'))
            elif n in ckw:
                v = ckw[n]
                if not (isinstance(v, ast.Name) and v.id in env and env[v.id][1] == t):
                    raise Unsupported(f'{where(v, p)}: {f.name}: {cls}({n}=...) is not a parameter of type {t}: {ast.unparse(v)}')
                args.append(env[v.id][0])
            else:
                args.append(const_coq(dv, t, K, p))
        out = [f'(* {f.name}({", ".join(x.arg for x in a.args)})   ({where(f, REL)}) *)']
        if solver_def:
            out.append(solver_def.replace('  :', ' :'))
        out.append(f'Definition g_{f.name} (rd : quantity -> reading) {ps} : solution_methods :=\n'
                   f'  g_{cls} {" ".join(args)}.'.replace('  :', ' :').replace(f'g_{cls} .', f'g_{cls}.'))
        return '\n'.join(out), sig, solver_kind

    def solver(self, n, t, env, sch, ctx):
        p = self.path
        want = 'DCSolution' if t == 'dc' else 'ComplexSolution'
        if not (isinstance(n, ast.Call) and dotted(n.func) == want and not n.args):
            raise Unsupported(f'{where(n, p)}: {ctx}: solver is not {want}(circuit=...): {ast.unparse(n)}')
        kws = {k.arg: k.value for k in n.keywords}
        if None in kws or len(kws) != len(n.keywords) or 'circuit' not in kws or ast.unparse(kws['circuit']) != f'circuit_translator({sch})':
            raise Unsupported(f'{where(n, p)}: {ctx}: solver is not built with circuit=circuit_translator(schematic)')
        if t == 'dc':
            if set(kws) != {'circuit'}:
                raise Unsupported(f'{where(n, p)}: {ctx}: DCSolution(...) keywords {sorted(kws)}')
            return 'DCSolution_of rd', 'DCSol'
        if set(kws) - {'circuit', 'w', 'peak_values'}:
            raise Unsupported(f'{where(n, p)}: {ctx}: ComplexSolution(...) keywords {sorted(kws)}')
        if 'w' in kws:
            v = kws['w']
            if not (isinstance(v, ast.Name) and env.get(v.id, (0, 0))[1] == 'Q'):
                raise Unsupported(f'{where(v, p)}: {ctx}: w= is not a float parameter')
            w = env[v.id][0]
        else:
            w = const_coq(self.cs_defaults['w'], 'Q', self.K, self.cs_path)
        peak = const_coq(kws.get('peak_values', self.cs_defaults['peak_values']), 'bool', self.K, p)
        return f'ComplexSolution_of rd {w} {peak}', f'CplxSol {str("w" in kws).lower()} {peak}'

    # ---- SimpleCircuit/Display.py and the dataclasses of Utils.py
    def utils_dataclass(self, name):
        path = os.path.join(self.src, 'Utils.py')
        tree = parse(path)
        cls = [st for st in tree.body if isinstance(st, ast.ClassDef) and st.name == name]
        if len(cls) != 1:
            raise Unsupported(f'{path}: class {name} not defined exactly once')
        out = []
        for m in cls[0].body:
            if isinstance(m, ast.AnnAssign) and isinstance(m.target, ast.Name):
                d = m.value
                if isinstance(d, ast.Call) and dotted(d.func) == 'field':
                    kws = {k.arg: k.value for k in d.keywords}
                    lam = kws.get('default_factory')
                    if d.args or set(kws) != {'default_factory'} or not (isinstance(lam, ast.Lambda) and not lam.args.args and isinstance(lam.body, ast.Dict)):
                        raise Unsupported(f'{where(m, path)}: {name}.{m.target.id}: default outside the subset')
                    d = lam.body
                out.append((m.target.id, d))
        return out, path

    def table_lit(self, d, path):
        rows = []
        for k, v in zip(d.keys, d.values):
            neg = isinstance(k, ast.UnaryOp) and isinstance(k.op, ast.USub)
            kk = k.operand if neg else k
            if not (isinstance(kk, ast.Constant) and isinstance(kk.value, int) and not isinstance(kk.value, bool) and const_str(v) is not None):
                raise Unsupported(f'{where(d, path)}: prefix table entry is not INT: \'s\'')
            rows.append(f'(({"-" if neg else ""}{kk.value})%Z, {self.K(v.value)})')
        return '[' + '; '.join(rows) + ']'

    def display_defs(self):
        K, p = self.K, self.display_path
        sf, up = self.utils_dataclass('ScientificFloat')
        sc, _ = self.utils_dataclass('ScientificComplex')
        if [n for n, _ in sf] != ['value', 'unit', 'precision', 'use_exp_prefix', 'exp_prefixes']:
            raise Unsupported(f'{up}: ScientificFloat: fields differ from value, unit, precision, use_exp_prefix, exp_prefixes')
        if sorted(n for n, _ in sc) != sorted(['value', 'unit', 'precision', 'use_exp_prefix', 'compact', 'polar', 'deg', 'exp_prefixes']):
            raise Unsupported(f'{up}: ScientificComplex: fields differ from the model\'s')
        pre = ['(* Utils.py: default prefix tables of ScientificFloat / ScientificComplex *)\n'
               f'Definition g_ScientificFloat_prefixes : table := {self.table_lit(dict(sf)["exp_prefixes"], up)}.\n'
               f'Definition g_ScientificComplex_prefixes : table := {self.table_lit(dict(sc)["exp_prefixes"], up)}.']
        FT = {'unit': 'label', 'precision': 'Z', 'use_exp_prefix': 'bool', 'compact': 'bool', 'polar': 'bool', 'deg': 'bool'}

        def dataclass_args(n, fields, ctx, env, vtype):
            given = {}
            if len(n.args) > len(fields):
                raise Unsupported(f'{where(n, p)}: {ctx}: too many arguments')
            for (fname, _), a in zip(fields, n.args):
                given[fname] = a
            for k in n.keywords:
                if k.arg is None or k.arg not in dict(fields) or k.arg in given:
                    raise Unsupported(f'{where(n, p)}: {ctx}: keyword {k.arg}')
                given[k.arg] = k.value
            out = {}
            for fname, dflt in fields:
                if fname == 'value':
                    if 'value' not in given:
                        raise Unsupported(f'{where(n, p)}: {ctx}: no value')
                    c, t = ex(given['value'], env, ctx)
                    if t != vtype:
                        raise Unsupported(f'{where(n, p)}: {ctx}: value is a {t}, the model expects a {vtype}')
                    out['value'] = c
                elif fname == 'exp_prefixes':
                    if fname in given:
                        if not isinstance(given[fname], ast.Dict):
                            raise Unsupported(f'{where(n, p)}: {ctx}: exp_prefixes is not a dict literal')
                        out[fname] = self.table_lit(given[fname], p)
                    else:
                        out[fname] = 'g_ScientificFloat_prefixes' if vtype == 'Q' else 'g_ScientificComplex_prefixes'
                elif fname in given:
                    c, t = ex(given[fname], env, ctx)
                    if t != FT[fname]:
                        raise Unsupported(f'{where(given[fname], p)}: {ctx}: {fname}= is a {t}, not a {FT[fname]}')
                    out[fname] = c
                else:
                    out[fname] = const_coq(dflt, FT[fname], K, up)
            return out

        def ex(n, env, ctx):
            if isinstance(n, ast.Name) and n.id in env:
                return env[n.id]
            if isinstance(n, ast.Constant) and isinstance(n.value, bool):
                return str(n.value).lower(), 'bool'
            if isinstance(n, ast.Constant) and isinstance(n.value, str):
                return K(n.value), 'label'
            if isinstance(n, ast.UnaryOp) and isinstance(n.op, ast.Not):
                a, t = ex(n.operand, env, ctx)
                if t == 'bool':
                    return f'(negb {a})', 'bool'
            if isinstance(n, ast.Attribute) and n.attr == 'real' and isinstance(n.value, ast.Name) and env.get(n.value.id, (0, 0))[1] == 'Q':
                return env[n.value.id][0], 'Q'               # the real part of a float is the float
            if isinstance(n, ast.Call) and isinstance(n.func, ast.Name) and not n.keywords and len(n.args) == 1 and \
                    n.func.id in ('abs', 'phase', 'degrees', 'str'):
                a, t = ex(n.args[0], env, ctx)
                f = n.func.id
                if f == 'abs' and t == 'Q':
                    return f'(Qabs {a})', 'Q'
                if f == 'abs' and t == 'C':
                    return f'(so_abs SO {a})', 'Q'
                if f == 'phase' and t == 'C':
                    return f'(so_arg SO {a})', 'Q'
                if f == 'degrees' and t == 'Q':
                    return f'(so_degrees SO {a})', 'Q'
                if f == 'str' and t == 'label':
                    return a, 'label'
                raise Unsupported(f'{where(n, p)}: {ctx}: {f} of a {t}')
            if isinstance(n, ast.BinOp) and isinstance(n.op, ast.Div) and dotted(n.right) == 'pi' and isinstance(n.left, ast.BinOp) and \
                    isinstance(n.left.op, ast.Div) and isinstance(n.left.right, ast.Constant) and n.left.right.value == 2 and \
                    not isinstance(n.left.right.value, bool):
                a, t = ex(n.left.left, env, ctx)
                if t == 'Q':
                    return f'(so_hz SO {a})', 'Q'
            if isinstance(n, ast.Call) and dotted(n.func) == 'ScientificFloat':
                a = dataclass_args(n, sf, ctx, env, 'Q')
                return f'(sci_text {a["value"]} {a["precision"]} {a["use_exp_prefix"]} {a["exp_prefixes"]} {a["unit"]})', 'label'
            if isinstance(n, ast.Call) and dotted(n.func) == 'ScientificComplex':
                a = dataclass_args(n, sc, ctx, env, 'C')
                return (f'(scientific_complex_str PO {a["value"]} {a["unit"]} {a["precision"]} {a["use_exp_prefix"]} {a["compact"]} '
                        f'{a["polar"]} {a["deg"]} {a["exp_prefixes"]})', 'label')
            if isinstance(n, ast.List):
                # [t1, ...]: a fresh list of texts (only a local may hold it, see `block`); its length is known
                items = []
                for e_ in n.elts:
                    a, t = ex(e_, env, ctx)
                    if t != 'label':
                        raise Unsupported(f'{where(n, p)}: {ctx}: list of something that is not a text: {ast.unparse(e_)}')
                    items.append(a)
                code = '[' + '; '.join(items) + ']' if items else '(@nil label)'
                minlen[code] = len(items)
                return code, 'parts'
            if isinstance(n, ast.Subscript) and isinstance(n.value, ast.Name) and env.get(n.value.id, (0, 0))[1] == 'parts':
                # L[K]: K a literal index below the number of texts L holds on every path (no IndexError possible)
                k = n.slice
                if not (isinstance(k, ast.Constant) and isinstance(k.value, int) and not isinstance(k.value, bool)
                        and 0 <= k.value < minlen[env[n.value.id][0]]):
                    raise Unsupported(f'{where(n, p)}: {ctx}: index of a list of texts that is not a literal known to be in range: {ast.unparse(n)}')
                return f'(List.nth {k.value}%nat {env[n.value.id][0]} [])', 'label'
            if isinstance(n, ast.Call) and isinstance(n.func, ast.Attribute) and n.func.attr == 'join' and const_str(n.func.value) == '' \
                    and len(n.args) == 1 and not n.keywords and isinstance(n.args[0], ast.Name) and env.get(n.args[0].id, (0, 0))[1] == 'parts':
                return f'(List.concat {env[n.args[0].id][0]})', 'label'        # ''.join(L)
            if isinstance(n, ast.IfExp):
                t, tt = ex(n.test, env, ctx)
                a, at = ex(n.body, env, ctx)
                b, bt = ex(n.orelse, env, ctx)
                if tt == 'bool' and at == bt and at != 'parts':
                    return f'(if {t} then {a} else {b})', at
                raise Unsupported(f'{where(n, p)}: {ctx}: conditional expression with operands of types {tt}, {at}, {bt}')
            if isinstance(n, ast.JoinedStr):
                parts = []
                for v in n.values:
                    if isinstance(v, ast.FormattedValue) and v.conversion == -1 and v.format_spec is None:
                        a, t = ex(v.value, env, ctx)
                        if t != 'label':
                            raise Unsupported(f'{where(n, p)}: {ctx}: f-string of a {t}')
                        parts.append(a)
                    elif isinstance(v, ast.Constant) and isinstance(v.value, str):
                        parts.append(K(v.value))
                    else:
                        raise Unsupported(f'{where(n, p)}: {ctx}: f-string with a format specification')
                return '(' + ' ++ '.join(parts) + ')', 'label'
            if isinstance(n, ast.Compare) and len(n.ops) == 1:
                a, t = ex(n.left, env, ctx)
                c = n.comparators[0]
                if t == 'Q' and isinstance(c, ast.Constant) and not isinstance(c.value, bool) and isinstance(c.value, (int, float)):
                    if isinstance(n.ops[0], ast.Gt) and c.value == 0 and isinstance(c.value, int):
                        return f'(Qpos {a})', 'bool'
                    if isinstance(n.ops[0], ast.Gt) and isinstance(c.value, float):
                        num, den = c.value.as_integer_ratio()
                        return f'(Qgtb {a} ({num} # {den})%Q)', 'bool'
                    if isinstance(n.ops[0], ast.Eq) and c.value == 0 and isinstance(c.value, int):
                        return f'(Qnum {a} =? 0)%Z', 'bool'
            raise Unsupported(f'{where(n, p)}: {ctx}: expression outside the subset: {ast.unparse(n)}')

        counter = [0]
        minlen = {}         # Coq atom of a list of texts -> number of texts it holds at least (on every path)

        def append(st, env, ctx):
            """NAME.append(<text>) on a local list of texts"""
            c = st.value
            nm = c.func.value.id
            if not (nm in env and env[nm][1] == 'parts' and len(c.args) == 1 and not c.keywords):
                raise Unsupported(f'{where(st, p)}: {ctx}: append outside the subset NAME.append(<text>): {ast.unparse(st)}')
            a, t = ex(c.args[0], env, ctx)
            if t != 'label':
                raise Unsupported(f'{where(st, p)}: {ctx}: a {t} appended to a list of texts')
            old = env[nm][0]
            code = f'({old} ++ [{a}])'
            minlen[code] = minlen[old] + 1
            return nm, code, 'parts'

        def is_append(st):
            return isinstance(st, ast.Expr) and isinstance(st.value, ast.Call) and isinstance(st.value.func, ast.Attribute) and \
                st.value.func.attr == 'append' and isinstance(st.value.func.value, ast.Name)

        def fresh(name):
            counter[0] += 1
            return f'p_{name}{counter[0]}'

        def aug(st, env, ctx):
            """NAME += <e>: text concatenation, or the idiom `x += pi/2 if c else 0`"""
            nm = st.target.id if isinstance(st.target, ast.Name) else None
            if nm not in env or not isinstance(st.op, ast.Add):
                raise Unsupported(f'{where(st, p)}: {ctx}: augmented assignment outside the subset')
            old, ot = env[nm]
            v = st.value
            if ot == 'label':
                a, t = ex(v, env, ctx)
                if t != 'label':
                    raise Unsupported(f'{where(st, p)}: {ctx}: a {t} appended to a text')
                return nm, f'({old} ++ {a})', 'label'
            if ot == 'Q' and isinstance(v, ast.IfExp) and isinstance(v.orelse, ast.Constant) and v.orelse.value == 0 and \
                    not isinstance(v.orelse.value, bool) and isinstance(v.body, ast.BinOp) and isinstance(v.body.op, ast.Div) and \
                    dotted(v.body.left) == 'pi' and isinstance(v.body.right, ast.Constant) and v.body.right.value == 2:
                t, tt = ex(v.test, env, ctx)
                if tt == 'bool':
                    return nm, f'(if {t} then so_add_halfpi SO {old} else {old})', 'Q'
            raise Unsupported(f'{where(st, p)}: {ctx}: augmented assignment outside the subset: {ast.unparse(st)}')

        def block(stmts, env, ctx, ind):
            pad = ' ' * ind
            if not stmts:
                raise Unsupported(f'{p}: {ctx}: a path does not end in return')
            st, rest = stmts[0], stmts[1:]
            if isinstance(st, ast.Return) and st.value is not None:
                if rest:
                    raise Unsupported(f'{where(st, p)}: {ctx}: statements after return')
                a, t = ex(st.value, env, ctx)
                if t != 'label':
                    raise Unsupported(f'{where(st, p)}: {ctx}: returns a {t}')
                return pad + a
            if isinstance(st, ast.Assign) and len(st.targets) == 1 and isinstance(st.targets[0], ast.Name):
                a, t = ex(st.value, env, ctx)
                if t == 'parts' and not isinstance(st.value, ast.List):
                    raise Unsupported(f'{where(st, p)}: {ctx}: a second name for a list: {ast.unparse(st)}')
                n = fresh(st.targets[0].id)
                env = dict(env)
                env[st.targets[0].id] = (n, t)
                if t == 'parts':
                    minlen[n] = minlen[a]
                return f'{pad}let {n} := {a} in\n' + block(rest, env, ctx, ind)
            if isinstance(st, ast.AugAssign) or is_append(st):
                nm, a, t = aug(st, env, ctx) if isinstance(st, ast.AugAssign) else append(st, env, ctx)
                n = fresh(nm)
                env = dict(env)
                env[nm] = (n, t)
                if t == 'parts':
                    minlen[n] = minlen[a]
                return f'{pad}let {n} := {a} in\n' + block(rest, env, ctx, ind)
            if isinstance(st, ast.If) and (not st.orelse or not any(isinstance(n_, ast.Return) for s_ in st.body + st.orelse for n_ in ast.walk(s_))):
                t, tt = ex(st.test, env, ctx)
                if tt != 'bool':
                    raise Unsupported(f'{where(st, p)}: {ctx}: test outside the subset')
                if isinstance(st.body[-1], ast.Return):
                    return f'{pad}if {t} then\n' + block(st.body, env, ctx, ind + 2) + f'\n{pad}else\n' + block(rest, env, ctx, ind)
                # conditional updates (NAME += <e> / NAME.append(<e>)) of one variable, in one branch or in both
                var = [None]

                def updates(stmts):
                    e2 = dict(env)
                    for s_ in stmts:
                        if isinstance(s_, ast.AugAssign):
                            nm, a, ty = aug(s_, e2, ctx)
                        elif is_append(s_):
                            nm, a, ty = append(s_, e2, ctx)
                        else:
                            raise Unsupported(f'{where(s_, p)}: {ctx}: statement outside the subset inside `if`')
                        if var[0] not in (None, nm):
                            raise Unsupported(f'{where(s_, p)}: {ctx}: `if` updates two variables')
                        var[0] = nm
                        e2[nm] = (a, ty)
                    return e2
                e_then, e_else = updates(st.body), updates(st.orelse)
                var = var[0]
                n = fresh(var)
                env2 = dict(env)
                env2[var] = (n, env[var][1])
                if env[var][1] == 'parts':
                    minlen[n] = min(minlen[e_then[var][0]], minlen[e_else[var][0]])
                return f'{pad}let {n} := (if {t} then {e_then[var][0]} else {e_else[var][0]}) in\n' + block(rest, env2, ctx, ind)
            raise Unsupported(f'{where(st, p)}: {ctx}: statement outside the subset: {ast.unparse(st)[:60]}')

        out = []
        for fn in ('print_real', 'print_complex', 'print_sinosoidal', 'print_active_power'):
            f = self.display_funcs[fn]
            model, order, types = PRINTS[fn]
            env = {n: (f'p_{n}', types[n]) for n in order}
            prm = ' '.join(f'(p_{n} : {dict(COQ_TYPES, C="cval")[types[n]]})' for n in order)
            counter[0] = 0
            code = block(body_without_docstring(f), env, fn, 2)
            out.append(f'(* {fn}({", ".join(order)})   ({where(f, "SimpleCircuit/Display.py")}) *)\n'
                       f'Definition g_{fn} {prm} : label :=\n{code}.')
        return pre, out

    # ---- Circuit/solution.py: ComplexSolution getters
    def tail_inlined(self, m, ms, p):
        """`def m(self, ..): return self._h(E, ...)` with `_h` a private method of the same class whose body is made of
        `if <test>: return <e>` and `return <e>` only, every parameter of _h occurring exactly once in every returned expression and
        nowhere else: -> m with the body of _h, its parameters replaced by the argument expressions (each is then evaluated once on
        every path, before anything else that can raise: the tests read fields only, which the reference shapes pin).  Otherwise m."""
        body = body_without_docstring(m)
        if not (len(body) == 1 and isinstance(body[0], ast.Return) and isinstance(body[0].value, ast.Call)):
            return m
        call = body[0].value
        f = call.func
        if not (isinstance(f, ast.Attribute) and isinstance(f.value, ast.Name) and m.args.args and f.value.id == m.args.args[0].arg
                and is_private(f.attr) and f.attr in ms):
            return m
        h = ms[f.attr]
        a = h.args
        names = [x.arg for x in a.args]
        if a.vararg or a.kwarg or a.kwonlyargs or a.posonlyargs or a.defaults or h.decorator_list or len(set(names)) != len(names) or \
                not names or names[0] != m.args.args[0].arg:
            raise Unsupported(f'{where(h, p)}: ComplexSolution.{h.name}: parameters are not (self, p, ...) without defaults')
        given = bind_call(call, names[1:], p, f'ComplexSolution.{m.name}')
        new_body = []
        hb = body_without_docstring(h)

        def ret(st):
            sub = _Subst(given)
            e = sub.visit(copy.deepcopy(st.value))
            if any(v != 1 for v in sub.count.values()):
                raise Unsupported(f'{where(st, p)}: ComplexSolution.{h.name}: a parameter does not occur exactly once in a returned expression')
            return ast.Return(value=e)
        for i, st in enumerate(hb):
            if isinstance(st, ast.Return) and st.value is not None and i == len(hb) - 1:
                new_body.append(ret(st))
            elif isinstance(st, ast.If) and not st.orelse and len(st.body) == 1 and isinstance(st.body[0], ast.Return) and \
                    st.body[0].value is not None and not any(isinstance(n, ast.Name) and n.id in given for n in ast.walk(st.test)):
                new_body.append(ast.If(test=copy.deepcopy(st.test), body=[ret(st.body[0])], orelse=[]))
            else:
                raise Unsupported(f'{where(st, p)}: ComplexSolution.{h.name}: statement outside `if <test>: return <e>` / `return <e>`')
        m2 = copy.deepcopy(m)
        m2.body = new_body
        return ast.fix_missing_locations(m2)

    def locals_substituted(self, m, p):
        """a leading run of `NAME = <expr>` statements (each NAME bound once, not a parameter) is substituted into the remaining
        statements, provided every returned expression uses every NAME exactly once and in the order of the assignments (then every
        path evaluates the same expressions in the same order as the original)"""
        body = body_without_docstring(m)
        k = 0
        given = {}
        while k < len(body) and isinstance(body[k], ast.Assign) and len(body[k].targets) == 1 and isinstance(body[k].targets[0], ast.Name):
            nm = body[k].targets[0].id
            if nm in given or nm in [x.arg for x in m.args.args]:
                raise Unsupported(f'{where(body[k], p)}: ComplexSolution.{m.name}: {nm} rebound')
            if any(isinstance(n, ast.Name) and n.id in given for n in ast.walk(body[k].value)):
                raise Unsupported(f'{where(body[k], p)}: ComplexSolution.{m.name}: a local is defined from another local')
            given[nm] = body[k].value
            k += 1
        if not given:
            return m
        rest = copy.deepcopy(body[k:])
        for st in rest:
            for n in ast.walk(st):
                if isinstance(n, ast.Name) and n.id in given and not isinstance(n.ctx, ast.Load):
                    raise Unsupported(f'{where(n, p)}: ComplexSolution.{m.name}: {n.id} rebound')

        def names_in_order(e):
            out = []

            def go(n):
                if isinstance(n, ast.Name) and n.id in given:
                    out.append(n.id)
                for ch in ast.iter_child_nodes(n):
                    go(ch)
            go(e)
            return out
        rets = [n for st in rest for n in ast.walk(st) if isinstance(n, ast.Return)]
        used_elsewhere = sum(1 for st in rest for n in ast.walk(st) if isinstance(n, ast.Name) and n.id in given) - \
            sum(len(names_in_order(r.value)) for r in rets if r.value is not None)
        if used_elsewhere or any(r.value is None or names_in_order(r.value) != list(given) for r in rets):
            raise Unsupported(f'{where(m, p)}: ComplexSolution.{m.name}: the locals {sorted(given)} are not used exactly once, in order, in '
                              f'every returned expression')
        m2 = copy.deepcopy(m)
        m2.body = [_Subst(given).visit(st) for st in rest]
        return ast.fix_missing_locations(m2)

    def complex_solution_getters(self):
        c, p = self.cs_class, self.cs_path
        ms = {m.name: m for m in c.body if isinstance(m, ast.FunctionDef)}
        if len(ms) != len([m for m in c.body if isinstance(m, ast.FunctionDef)]):
            raise Unsupported(f'{where(c, p)}: ComplexSolution: a method is defined twice')
        out = []
        for g in ('get_voltage', 'get_current', 'get_potential'):
            m = need(ms, g, p, 'method ComplexSolution.')
            src_m = m
            m = self.tail_inlined(m, ms, p)
            ref1 = f'def {g}(self, i):\n    if self.peak_values:\n        return self._solution.{g}(i)\n    return self._solution.{g}(i)/np.sqrt(2)'
            ref2 = f'def {g}(self, i):\n    if not self.peak_values:\n        return self._solution.{g}(i)/np.sqrt(2)\n    return self._solution.{g}(i)'
            nm = normalized(m)
            if nm == norm_src(ref1, 'stmt'):
                code = 'if self_peak_values then x else fdiv (Cx R) x (cre R sqrt2)'
            elif nm == norm_src(ref2, 'stmt'):
                code = 'if negb self_peak_values then fdiv (Cx R) x (cre R sqrt2) else x'
            else:
                raise Unsupported(f'{where(m, p)}: ComplexSolution.{g} is not `if self.peak_values: return self._solution.{g}(id)` / '
                                  f'`return self._solution.{g}(id)/np.sqrt(2)`')
            if src_m.decorator_list:
                raise Unsupported(f'{where(src_m, p)}: decorated getter')
            out.append(f'(* ComplexSolution.{g}   ({where(src_m, "Circuit/solution.py")}); x = self._solution.{g}(id) *)\n'
                       f'Definition g_ComplexSolution_{g} (self_peak_values : bool) (x : Cx R) : Cx R :=\n  {code}.')
        m = need(ms, 'get_power', p, 'method ComplexSolution.')
        src_m = m
        m = self.locals_substituted(m, p)
        ref = ('def get_power(self, i):\n    if self.peak_values:\n        return 1/2*self.get_voltage(i)*np.conj(self.get_current(i))\n'
               '    return self.get_voltage(i)*np.conj(self.get_current(i))')
        if normalized(m) != norm_src(ref, 'stmt'):
            raise Unsupported(f'{where(m, p)}: ComplexSolution.get_power differs from the reference shape')
        out.append(f'(* ComplexSolution.get_power   ({where(src_m, "Circuit/solution.py")}); v, i = self.get_voltage(id), self.get_current(id) *)\n'
                   'Definition g_ComplexSolution_get_power (self_peak_values : bool) (v i : Cx R) : Cx R :=\n'
                   '  if self_peak_values then fmul (Cx R) (fmul (Cx R) (cre R (fdiv R (f1 R) (fadd R (f1 R) (f1 R)))) v) (fconj (Cx R) i)\n'
                   '  else fmul (Cx R) v (fconj (Cx R) i).')
        for d in m.decorator_list:
            raise Unsupported(f'{where(m, p)}: decorated getter')
        return out


HEADER = '''(* GENERATED by tools/gen_annotation.py from SimpleCircuit/DiagramSolution.py, SimpleCircuit/Display.py (print_real,
   print_complex, print_sinosoidal, print_active_power), Utils.py (fields and defaults of ScientificFloat / ScientificComplex),
   Circuit/solution.py (class ComplexSolution) and SimpleSimulation/schematic.py (annotation part) — do not edit.
   Written in the vocabulary of Model/AnnotationPrims.v; Theory/AnnotationGenThm.v proves the definitions equal to the
   hand-written model Model/Annotation.v (statements: Properties/C14c.v). *)
From Coq Require Import List Bool ZArith NArith QArith Qabs String.
From CC Require Import Theory.Field Theory.Complex Model.Network Model.Format Model.Circuit Model.Annotation Model.AnnotationPrims.
Import ListNotations.
'''


def generate(src):
    g = Gen(src)
    K = g.K
    g.protocol()
    known = {'DiagramSolution', 'SchematicDiagramSolution'}
    dpre, sec = g.display_defs()
    for name, c in g.classes.items():
        if name in known:
            continue
        sec.append(g.adapter(c))
    for hn in g.mod_helpers:
        if not g.helper_uses.get(hn):
            raise Unsupported(f'{where(g.tree, g.path)}: the module-level helper {hn} is never called by a getter of an adapter class')
    sec += g.draws()
    sigs, kinds = {}, []
    for name, f in g.funcs.items():
        code, sig, kind = g.factory(f)
        sec.append(code)
        sigs[name] = sig
        kinds.append((name, kind))
    # ---- the factories reachable from a description
    for fn in SOL_FN:
        if fn not in sigs:
            raise Unsupported(f'{g.path}: factory {fn} not found')
    rows = []
    calls = []
    for fn, ctor in SOL_FN.items():
        sig = sigs[fn]
        rows.append(f'  | {ctor} => [' + '; '.join(K(n) for n, _, _ in sig) + ']')
        GET = {'Z': 'get_int', 'bool': 'get_bool', 'Q': 'get_num'}
        inner = f'DOk (g_{fn} rd ' + ' '.join(f'p_{n}' for n, _, _ in sig[1:]) + ')'
        inner = inner.replace(' )', ')')
        for n, t, dv in reversed(sig[1:]):
            if t not in GET:
                raise Unsupported(f'{g.path}: {fn}: parameter {n} of type {t} cannot come from a description')
            inner = f'dbind ({GET[t]} params {K(n)} {const_coq(dv, t, K, g.path)}) (fun p_{n} =>\n      {inner})'
        calls.append(f'  | {ctor} =>\n      {inner}')
    sch = sigs[next(iter(SOL_FN))][0][0]
    for fn in SOL_FN:
        if sigs[fn][0][0] != sch:
            raise Unsupported(f'{g.path}: the factories name their first parameter differently')
    sec.append('(* signature(solution_fcn).parameters.keys() *)\nDefinition g_sol_signature (f : sol_fn) : list label :=\n  match f with\n'
               + '\n'.join(rows) + '\n  end.')
    # ---- schematic.py, annotation part
    spath, stree, sfuncs, stables, sclasses, sextra = schematic_module(src)
    srel = 'SimpleSimulation/schematic.py'
    d = need(stables, 'solutions', spath, 'dict literal')
    srows = []
    for k, v in zip(d.keys, d.values):
        ks = const_str(k) if k is not None else None
        dv = dotted(v)
        if ks is None or not dv or not dv.startswith('ds.'):
            raise Unsupported(f'{where(d, spath)}: solutions: entry is not \'t\': ds.<factory>')
        if dv[3:] not in SOL_FN:
            raise Unsupported(f'{where(v, spath)}: solutions[{ks!r}] = {dv}: no constructor of Model.Annotation.sol_fn for this factory '
                              '(the model has real, complex, single_frequency_complex, empty)')
        srows.append(f'({K(ks)}, {SOL_FN[dv[3:]]})')
    if len({ast.unparse(k) for k in d.keys}) != len(d.keys):
        raise Unsupported(f'{where(d, spath)}: solutions has duplicate keys')
    pre = ['(* solutions   (' + where(d, srel) + ') *)\nDefinition g_solutions : list (label * sol_fn) :=\n  [' + '; '.join(srows) + '].']
    sd = need(sclasses, 'SolutionDefinition', spath, 'class')
    if not (len(sd.decorator_list) == 1 and dotted(sd.decorator_list[0]) == 'dataclass') or sd.bases:
        raise Unsupported(f'{where(sd, spath)}: SolutionDefinition is not a plain @dataclass')
    props, lists = {}, {}
    for m in sd.body:
        if isinstance(m, ast.AnnAssign) and isinstance(m.target, ast.Name) and m.target.id == 'data' and m.value is None:
            continue
        if isinstance(m, ast.FunctionDef) and len(m.decorator_list) == 1 and dotted(m.decorator_list[0]) == 'property' \
                and [x.arg for x in m.args.args] == ['self']:
            props[m.name] = m
            continue
        raise Unsupported(f'{where(m, spath)}: SolutionDefinition: member outside the subset')
    cr = need(props, 'diagram_solution_creator', spath, 'property SolutionDefinition.')
    gets = [n for n in ast.walk(cr) if isinstance(n, ast.Call) and dotted(n.func) == 'self.data.get' and len(n.args) == 2]
    fbs = [n for n in ast.walk(cr) if isinstance(n, ast.Call) and dotted(n.func) == 'solutions.get' and len(n.args) == 2]
    ok = len(gets) == 1 and len(fbs) == 1 and const_str(gets[0].args[0]) is not None and const_str(gets[0].args[1]) is not None \
        and (dotted(fbs[0].args[1]) or '').startswith('ds.')
    if ok:
        tk, td, fb = gets[0].args[0].value, gets[0].args[1].value, dotted(fbs[0].args[1])[3:]
        cr2 = ast.parse(ast.unparse(cr)).body[0]
        cr2.decorator_list = []
        ok = normalized(cr2) == norm_src(CREATOR_REF.format(k=tk, d=td, fb=fb), 'stmt')
    if not ok:
        raise Unsupported(f'{where(cr, spath)}: SolutionDefinition.diagram_solution_creator differs from the pinned shape '
                          '(data.get(K, D); solutions.get(t, ds.F); signature filter; solution_fcn(schematic=schematic, **params))')
    if fb not in SOL_FN:
        raise Unsupported(f'{where(cr, spath)}: fallback factory ds.{fb} has no constructor of Model.Annotation.sol_fn')
    if sch != 'schematic':
        raise Unsupported(f'{g.path}: the factories are called with schematic=..., their first parameter is {sch}')
    sec.append('(* solution_fcn(schematic=schematic, **solution_parameters): a second `schematic` is a TypeError; the other parameters\n'
               '   come from the description or take the defaults of the signature *)\n'
               'Definition g_call_factory (f : sol_fn) (rd : quantity -> reading) (params : ddict) : dres solution_methods :=\n'
               f'  if match dlook params {K(sch)} with Some _ => true | None => false end then DErr DE_TypeError else\n  match f with\n'
               + '\n'.join(calls) + '\n  end.')
    sec.append(f'(* SolutionDefinition.diagram_solution_creator   ({where(cr, srel)}) *)\n'
               'Definition g_diagram_solution_creator (rd : quantity -> reading) (data : ddict) : dres solution_methods :=\n'
               f'  let solution_fcn := table_get g_solutions data {K(tk)} {K(td)} {SOL_FN[fb]} in\n'
               '  let solution_parameters := keep_keys (g_sol_signature solution_fcn) data in\n'
               '  g_call_factory solution_fcn rd solution_parameters.')
    for name, m in props.items():
        if name == 'diagram_solution_creator':
            continue
        b = body_without_docstring(m)
        okp = len(b) == 1 and isinstance(b[0], ast.Return) and isinstance(b[0].value, ast.Call) and dotted(b[0].value.func) == 'self.data.get' \
            and len(b[0].value.args) == 2 and const_str(b[0].value.args[0]) is not None and ast.unparse(b[0].value.args[1]) == '[]'
        if not okp:
            raise Unsupported(f'{where(m, spath)}: SolutionDefinition.{name} is not `return self.data.get(\'k\', [])`')
        lists[name] = b[0].value.args[0].value
    # fill: after the element loop
    f = need(sfuncs, 'fill', spath)
    body = body_without_docstring(f)
    used_helpers = set()
    rest = [s2 for s in body[1:] for s2 in inline_loop_helper(s, sextra['helpers'], [x.arg for x in f.args.args] + ['solution'],
                                                              spath, used_helpers)]
    for hn in sextra['helpers']:
        if hn not in used_helpers:
            raise Unsupported(f'{where(sextra["helpers"][hn], spath)}: the private helper {hn} is not called by fill')
    head = [s for s in rest if not isinstance(s, ast.For)]
    loops = [s for s in rest if isinstance(s, ast.For)]
    if rest[:len(head)] != head:
        raise Unsupported(f'{where(f, spath)}: fill: statements between the annotation loops')
    f2 = ast.parse('def fill(schematic, elements, unit, light_lamps, solution_definition):\n    pass').body[0]
    f2.body = head
    if [x.arg for x in f.args.args] != ['schematic', 'elements', 'unit', 'light_lamps', 'solution_definition'] or \
            normalized(f2) != norm_src(FILL_TAIL_REF, 'stmt'):
        raise Unsupported(f'{where(f, spath)}: fill: the statements between the element loop and the annotation loops differ from the '
                          'pinned shape (light_lamps; solution = solution_definition.diagram_solution_creator(schematic))')
    arows = []
    for lp in loops:
        okl = isinstance(lp.target, ast.Name) and not lp.orelse and isinstance(lp.iter, ast.Attribute) and \
            dotted(lp.iter.value) == 'solution_definition' and lp.iter.attr in lists and len(lp.body) == 1 and isinstance(lp.body[0], ast.Try)
        if okl:
            t = lp.body[0]
            okl = len(t.body) == 1 and not t.orelse and not t.finalbody and len(t.handlers) == 1 and \
                dotted(t.handlers[0].type) == 'dp.UnknownElement' and \
                all(isinstance(s, ast.Expr) and isinstance(s.value, ast.Call) and dotted(s.value.func) == 'print' for s in t.handlers[0].body)
        if okl:
            s = t.body[0]
            okl = isinstance(s, ast.AugAssign) and isinstance(s.op, ast.Add) and dotted(s.target) == 'schematic' and \
                isinstance(s.value, ast.Call) and isinstance(s.value.func, ast.Attribute) and dotted(s.value.func.value) == 'solution' and \
                s.value.func.attr in DRAWS and not s.value.args and len(s.value.keywords) == 1 and s.value.keywords[0].arg is None and \
                dotted(s.value.keywords[0].value) == lp.target.id
        if not okl:
            raise Unsupported(f'{where(lp, spath)}: fill: loop is not `for v in solution_definition.<list>: try: schematic += '
                              'solution.draw_X(**v) except dp.UnknownElement as e: print(...)`')
        arows.append(f'({K(lists[lp.iter.attr])}, {QUANT[DRAWS[s.value.func.attr]]})')
    pre.append(f'(* fill   ({where(f, srel)}): description list -> quantity drawn for each of its entries, in drawing order *)\n'
               'Definition g_annotation_lists : list (label * quantity) :=\n  [' + '; '.join(arows) + '].')
    pre.append('(* DiagramSolution.py: the solver each factory builds (DCSol | CplxSol passes_w peak_values) *)\n'
               'Definition g_factory_solvers : list (label * option solver) :=\n  [' +
               ';\n   '.join(f'({K(n)}, {"Some (" + k + ")" if k else "None"})' for n, k in kinds) + '].')
    cs = g.complex_solution_getters()
    text = HEADER + '\n(* ---------- string literals of the sources ---------- *)\n' + '\n'.join(K.definitions()) + '\n\n' + \
        '\n\n'.join(dpre + pre) + '\n\nSection GenAnnotation.\nVariable PO : polar_oracle.\nVariable SO : sin_oracle.\n\n' + \
        '\n\n'.join(sec) + '\nEnd GenAnnotation.\n\n' + \
        'Section GenComplexSolution.\nVariable R : fops.\nVariable sqrt2 : R.\n\n' + '\n\n'.join(cs) + '\nEnd GenComplexSolution.\n'
    return {'AnnotationGen.v': text}
