#!/usr/bin/env python3
"""Regenerates MANIFEST.json from the table below (claimed properties) and properties.jsonl."""
import json
import os
V = os.path.dirname(os.path.dirname(os.path.abspath(__file__)))
props = [json.loads(l) for l in open(os.path.join(V, 'properties.jsonl'))]
TECH = ('machine-checked proof in Coq 8.16 over an executable Gallina model + differential correspondence '
        '(extracted OCaml model vs implementation) + exact rational oracle for the failing-input search')
CLAIMS = {
    'C01': ('full: soundness, completeness and uniqueness of the MNA system w.r.t. the circuit equations, reported directions, and "a valid '
            'network never fails to solve" (completeness of the executable Gauss-Jordan, Theory/Gauss.v)'),
    'C02': ('full on the model: CircuitSpec of the transformed network <-> declarative PhasorSpec (jwL, 1/(jwC), A*cis(phi) iff within resolution), '
            'RMS = peak/sqrt2, DC = real part at w=0; np.cos/np.sin/np.sqrt enter as oracle values'),
    'C03': ('full: rename / permutation / reversal / re-grounding theorems about the model functions (any sort order), API corollaries; '
            'state-space, transient and port-impedance paths by correspondence and oracle (see C06, C10, C12)'),
    'C04': ('full: scaling, zero and superposition (2-block and k-block) through the model of the library\'s own zeroing operations; stated on '
            'first->second flows'),
    'C05': ('full: Tellegen balance with the reporting conventions, sign theorems per element kind over an ordered field, peak/RMS/DC/time-domain forms'),
    'C07': ('full: finite-table theorems over the regenerated Gen/Tables.v (no kind dropped, dispatch, keys read subset of keys written, guards) and '
            'C07_faithful (branch law <-> declarative component law for all 17 kinds), one branch per component, terminals, ground rule'),
    'C08': ('partial: for all six waveforms and every phase the coefficients are proved to be the Fourier integrals of the translated time '
            'functions (Coquelicot; classical-reals axioms), a/b/c algebra and lookup; the mean-square/Parseval clause is stated, checked '
            'numerically, not proved'),
    'C16': ('full for solutions-to-solutions (open removal, contraction by induction over the loop, re-grounding), names-only, exemption list, '
            'well-posedness preserved under wf; the no-wf variant is stated only'),
}
NOT_YET = 'not yet built in this round (planned per DESIGN.md §6; the technique applies)'
checks = []
for p in props:
    if p['id'] in CLAIMS:
        checks.append({
            'property_id': p['id'],
            'quick_cmd': f"./check {p['id']} --tier quick",
            'thorough_cmd': f"./check {p['id']} --tier thorough",
            'evidence_file': f"/verif/evidence/{p['id']}.json",
            'replay_cmd_template': f"./check {p['id']} --replay {{path}}",
            'engine': 'coq-model+correspondence',
            'level_claimed': {'category': 'proof',
                              'text': 'Coq theorems about an executable Gallina model of the code, tied to /repo/src by a '
                                      'correspondence check that runs the extracted model and the implementation on the same '
                                      'generated inputs on every run. Scope: ' + CLAIMS[p['id']],
                              'design_ref': 'DESIGN.md §6 ' + p['id']},
            'level_note': 'trusted base: Coq kernel, extraction (ExtrOcamlBasic only) + hex driver, Python harness, LAPACK/numpy '
                          'as oracles; axioms per theorem in evidence (Print Assumptions); DESIGN.md §4',
            'technique': TECH,
        })
m = {
    'version': 1,
    'setup_cmd': 'cd /verif/coq && /venv/bin/python ../tools/py2v.py && coq_makefile -f _CoqProject -o Makefile && '
                 'timeout 3000 make -j16 && cd Extract && ocamlfind ocamlopt -O3 -w -a model.mli model.ml driver.ml -o runner',
    'hooks': {'guard': 'CIRCUITCALCULATOR_VERIF',
              'enable': 'no source hooks are needed: ./check forces PYTHONPATH=/repo/src and calls public functions',
              'baseline_off_cmd': 'cd /repo && /venv/bin/python -m pytest -ra -q -p no:cacheprovider --timeout=900 '
                                  '--continue-on-collection-errors',
              'source_commits': [], 'add_only': True},
    'engines': [{'name': 'coq-model+correspondence', 'path': '/verif/check', 'serves_properties': sorted(CLAIMS),
                 'kind_free_text': 'Coq 8.16 proofs over Gallina models (coq/), extracted OCaml runner, Python differential '
                                   'harness (harness/)'}],
    'checks': checks,
    'notes': 'fix: commits in /repo are listed in known_findings.json (kind=fixed).',
    'not_applicable': [{'property_id': p['id'], 'reason': NOT_YET} for p in props if p['id'] not in CLAIMS],
}
json.dump(m, open(os.path.join(V, 'MANIFEST.json'), 'w'), indent=1)
print('claimed', sorted(CLAIMS))
