#!/usr/bin/env python3
"""Regenerates MANIFEST.json from the table below (claimed properties) and properties.jsonl."""
import json
import os
V = os.path.dirname(os.path.dirname(os.path.abspath(__file__)))
props = [json.loads(l) for l in open(os.path.join(V, 'properties.jsonl'))]
TECH = ('machine-checked proof in Coq 8.16 (Rocq) over an executable Gallina model of the code; model tied to /repo/src on every run (a) by '
        'fail-closed Python-ast translators that regenerate tables, formulas and function bodies (Gen/*.v), the regenerated definitions being '
        'PROVED equal to the hand-written model functions the theorems are about, and (b) by a differential correspondence run (extracted OCaml '
        'model, or vm_compute inside coqc, vs the implementation on generated inputs); an independent exact oracle searches for the failing input')
CLAIMS = {
    'C01': ('full: soundness, completeness and uniqueness of the MNA system w.r.t. the circuit equations, reported directions, and "a valid '
            'network never fails to solve" (completeness of the executable Gauss-Jordan, Theory/Gauss.v); elements.py / network.py / label_mapping.py / '
            'bias_point_analysis.py (C01c) and the matrix assembly of node_analysis.py (C01d) regenerated and proved equal to the model'),
    'C02': ('full on the model: CircuitSpec of the transformed network <-> declarative PhasorSpec (jwL, 1/(jwC), A*cis(phi) iff within resolution), '
            'RMS = peak/sqrt2, DC = real part at w=0; np.cos/np.sin/np.sqrt enter as oracle values; circuit.py and the DC/complex solution classes '
            'regenerated and proved equal to the model (C02c; equal outcome class always, equal value for two-terminal loads)'),
    'C03': ('full: rename / permutation / reversal / re-grounding theorems about the model functions (any sort order), API corollaries; '
            'state-space and transient paths additionally by metamorphic pairs on the implementation (c03_circuit)'),
    'C04': ('full: scaling, zero and superposition (2-block and k-block) through the model of the library\'s own zeroing operations; stated on '
            'first->second flows'),
    'C05': ('full: Tellegen balance with the reporting conventions, sign theorems per element kind over an ordered field, peak/RMS/DC/time-domain forms'),
    'C06': ('full: executable model of open_circuit_impedance/element_impedance/Voc/Isc; model result = the unique PortZ (unit test current on the '
            'deactivated network) including the deleted-rows case; symmetry, reference independence, series/parallel, jwL, 1/(jwC); Thevenin and Norton by '
            'uniqueness'),
    'C07': ('full: finite-table theorems over the regenerated Gen/Tables.v (no kind dropped, dispatch, keys read subset of keys written, guards, waveform '
            'lookup) and C07_faithful (branch law <-> declarative component law for all 17 kinds), one branch per component, terminals, ground rule; '
            'every translator function of transformers.py regenerated and proved equal to the model (C07c)'),
    'C08': ('full on the model: for all six waveforms and every phase the coefficients are proved to be the Fourier integrals of the translated '
            'time functions (Coquelicot; classical-reals axioms), a/b/c algebra and lookup; orthogonality, closed-form mean squares, the exact '
            'mean-square error of every truncated series, Bessel (C08d); Basel and zeta(4) proved in the development, hence mean-square '
            'convergence and Parseval for every waveform (C08e: C08_parseval_full_holds); float %, np.vectorize are outside the model'),
    'C09': ('partial: frequency list characterised exactly over any ordered field (sorted, duplicate-free, membership); KCL and superposition of the '
            'time functions by linearity, two-sided spectrum; "each once within the resolution" is REFUTED on the model (known finding); the same generic '
            'list function instantiated at binary64 (primitive floats) is run bit for bit against circuit.py, with the carrier-independent membership '
            'theorems (C09b); time/frequency-domain solution classes regenerated and proved equal to the model (C09c)'),
    'C10': ('full: executable model of state_space_matrices and all output rows; ss_augmented; for every s the outputs of C(sI-A)^-1B+D solve the phasor '
            'network and equal the solver\'s answer (uniqueness); DC gain; dimensions; source order; state_space_model.py regenerated and proved equal to the model (C10c)'),
    'C11': ('full for the inequality x^T(WA+A^TW)x <= 0 and Re(lambda) <= 0 over an ordered field; stored energy non-increasing and states bounded '
            'along every exact unforced (or DC-driven) trajectory over the reals (C11d, Coquelicot; classical-reals axioms); that scipy.signal.lsim '
            'follows such a trajectory is exercised, not modelled'),
    'C12': ('partial: KCL, element laws, i_C = C dv/dt, v_L = L di/dt for EVERY state/input pair (hence every sample whatever the integrator), rest, '
            'input order; along every exact trajectory x\' = Ax + Bu over the reals the differential laws with true derivatives, rest, and the DC '
            'equilibrium = DC analysis (C12d, Coquelicot); that the integrator lsim follows such a trajectory is a Section variable (compared '
            'against an independent integrator by the harness)'),
    'C13': ('partial: executable model of the wire closure, representatives, labelling (auto-numbering with the skip loop), ground and the per-class '
            'terminal swap, with Python\'s set iteration orders as PARAMETERS: closure = wire connectivity, labels injective on classes, order '
            'independence up to a renaming of unlabelled nodes, invariance under any injective point map (rotation, translation, rescaling), wire '
            'subdivision and permutation of the symbol list; schemdraw geometry and 2-decimal rounding are runtime facts read from live drawings; '
            'DiagramParser / DiagramTranslator / CircuitComponentTranslators regenerated and proved equal to the model (C13c)'),
    'C14': ('partial: adapters modelled on top of the exact C18 formatting model: reverse = text of the negated value, real and Cartesian texts read '
            'back within half a unit of the p-th digit (C18\'s carry region kept as hypothesis), polar/sinusoid text shape, peak = sqrt2 x RMS, '
            'sine reference = arg + pi/2, declarative route = direct adapter; angle texts and arrow geometry are inputs/unmodelled; label texts compared as '
            'strings with the model (fn 14); DiagramSolution / Display / solutions table regenerated and proved equal to the model (C14c)'),
    'C15': ('partial: data-path model (symbol record <-> JSON-like tree, constructor table, merge of circuit values, deg/sin flags): '
            'translate(load(save d)) = translate d for all drawings over the persistable kinds, for any number of cycles; declarative builder = '
            'programmatic builder on a grid semantics; the schemdraw object graph and the json library are outside the model; constructed / saved / '
            'reloaded symbols and translations compared with the model (fn 15); dump_load.py and the schematic.py tables regenerated and proved equal (C15c)'),
    'C16': ('full for solutions-to-solutions (open removal, contraction by induction over the loop, re-grounding), names-only, exemption list, '
            'well-posedness preserved under wf; the no-wf variant is stated only; all nine operations regenerated and proved equal to the model (C16c)'),
    'C17': ('full on the model: loaders are interpreters of the regenerated loader/constructor tables; every documented kind loads to exactly its '
            'element for all field values; notations agree; nested round trip for all trees (nested induction); no mutation (state-passing style); the '
            'function bodies of loaders.py / dump_load.py / Circuit/dump_load.py regenerated in state-passing style and proved equal to the model (C17c)'),
    'C18': ('partial: exact integer/rational model of the whole rendering pipeline; text parses back exactly; half-unit accuracy outside the carry '
            'region (REFUTED inside: known finding); saturation; complex signs; binary64 arithmetic inside the formatter is validated on the '
            'property\'s grid (near-tie rule), not proved; every rendering method of Utils.py regenerated and proved equal to the model (C18c)'),
    'C19': ('full on the model: every guarded parameter of every constructor (read from the regenerated table) rejects negatives and accepts 0; '
            'duplicates / grounds / floating reference at every position and multiplicity; typed loader errors; unknown ids; stored unaltered; exception '
            'classes and the order of the checks over the regenerated loaders (C19c)'),
    'C20': ('partial: history theorem (Frame for every performed operation => every result equals the isolated result) over a state-passing model of '
            'loaders, solver and transformers; Python object identity, default-argument objects and module state are observed by the harness '
            '(fresh-process comparison, deep fingerprints), not modelled'),
}
PENDING = {}
NOT_YET = 'not yet built in this round (planned per DESIGN.md §6; the technique applies)'
checks = []
for p in props:
    if p['id'] in CLAIMS:
        checks.append({
            'property_id': p['id'],
            'quick_cmd': f"./check {p['id']} --tier quick",
            'thorough_cmd': f"./check {p['id']} --tier thorough",
            'evidence_file': f"/verif/evidence/{p['id']}.json",
            'replay_cmd_template': f"./check {p['id']} --replay {{path}}",
            'engine': 'coq-model+correspondence',
            'level_claimed': {'category': 'proof',
                              'text': 'Coq theorems about an executable Gallina model of the code, tied to /repo/src by a '
                                      'correspondence check that runs the extracted model and the implementation on the same '
                                      'generated inputs on every run. Scope: ' + CLAIMS[p['id']],
                              'design_ref': 'DESIGN.md §6 ' + p['id']},
            'level_note': 'trusted base: Coq kernel, extraction (ExtrOcamlBasic only) + hex driver, Python harness, LAPACK/numpy '
                          'as oracles; axioms per theorem in evidence (Print Assumptions); DESIGN.md §4',
            'technique': TECH,
        })
m = {
    'version': 1,
    'setup_cmd': 'cd /verif/coq && /venv/bin/python ../tools/py2v.py && coq_makefile -f _CoqProject -o Makefile && '
                 'timeout 3000 make -j16 && cd Extract && ocamlfind ocamlopt -O3 -w -a model.mli model.ml driver.ml -o runner',
    'hooks': {'guard': 'CIRCUITCALCULATOR_VERIF',
              'enable': 'no source hooks are needed: ./check forces PYTHONPATH=/repo/src and calls public functions',
              'baseline_off_cmd': 'cd /repo && /venv/bin/python -m pytest -ra -q -p no:cacheprovider --timeout=900 '
                                  '--continue-on-collection-errors',
              'source_commits': [], 'add_only': True},
    'engines': [{'name': 'coq-model+correspondence', 'path': '/verif/check', 'serves_properties': sorted(CLAIMS),
                 'kind_free_text': 'Coq 8.16 proofs over Gallina models (coq/), extracted OCaml runner, Python differential '
                                   'harness (harness/)'}],
    'checks': checks,
    'notes': 'fix: commits in /repo are listed in known_findings.json (kind=fixed).',
    'not_applicable': [{'property_id': p['id'], 'reason': PENDING.get(p['id'], NOT_YET)} for p in props if p['id'] not in CLAIMS],
}
json.dump(m, open(os.path.join(V, 'MANIFEST.json'), 'w'), indent=1)
print('claimed', sorted(CLAIMS))
