#!/usr/bin/env python3
"""Mutation check of the circuit.py / solution.py translator (tools/gen_circuit.py) and of the equalities over its output.
For every edit below: copy the Python source tree, apply the edit to the COPY of Circuit/circuit.py or Circuit/solution.py,
run all gen_*.py translators on the copy (as py2v.py does with VERIF_REPO), write the result into a private copy of coq/ and
rebuild Properties/C02c.vo and Properties/C09c.vo there with `make -k`.  Reported per edit: refused by the translator
(message), or the lemmas that stop compiling, or `passes`.
usage: mutcheck_circuit.py [--src /repo/src/CircuitCalculator] [--work DIR] [--only NAME ...]"""
import argparse
import importlib
import os
import re
import shutil
import subprocess
import sys

HERE = os.path.dirname(os.path.abspath(__file__))
sys.path.insert(0, HERE)
from v2lib import Unsupported  # noqa: E402

CI = 'Circuit/circuit.py'
SO = 'Circuit/solution.py'
# (name, expectation, file, [(old, new, occurrence index or None for "exactly once")])
EDITS = [
    ('M01 __post_init__: `len(ground_nodes) > 1` -> `>= 1`', 'caught', CI, [('if len(ground_nodes) > 1:', 'if len(ground_nodes) >= 1:', None)]),
    ('M02 __post_init__: duplicate-id check moved before the multiple-ground check', 'caught', CI,
     [("        if len(ground_nodes) > 1:\n            raise MultipleGroundNodes(f'Component list contains multiple ground nodes: {str(ground_nodes)}')\n",
       "        if len(set([component.id for component in self.components])) != len(self.components):\n            raise AmbiguousComponentID(f'Component list contains multiple components with the same ID.')\n"
       "        if len(ground_nodes) > 1:\n            raise MultipleGroundNodes(f'Component list contains multiple ground nodes: {str(ground_nodes)}')\n", None)]),
    ('M03 frequency_components: sorted(...) dropped', 'caught', CI, [('return sorted(list(set(', 'return (list(set(', None)]),
    ('M04 ComplexSolution.get_voltage: /np.sqrt(2) dropped', 'caught', SO,
     [('return self._solution.get_voltage(component_id)/np.sqrt(2)', 'return self._solution.get_voltage(component_id)', None)]),
    ('M05 ComplexSolution.get_current: /np.sqrt(2) applied under peak_values', 'caught', SO,
     [('        if self.peak_values:\n            return self._solution.get_current(component_id)\n', '        if not self.peak_values:\n            return self._solution.get_current(component_id)\n', None)]),
    ('M06 ComplexSolution.get_power: the factor 1/2 lost', 'caught', SO,
     [('return 1/2*self.get_voltage(component_id)*np.conj(self.get_current(component_id))', 'return self.get_voltage(component_id)*np.conj(self.get_current(component_id))', None)]),
    ('M07 ComplexSolution.get_power: conj on the voltage', 'caught', SO,
     [('        return self.get_voltage(component_id)*np.conj(self.get_current(component_id))', '        return np.conj(self.get_voltage(component_id))*self.get_current(component_id)', None)]),
    ('M08 _spectrum: values/2 also for w = 0 (np.where dropped)', 'caught', SO,
     [('np.where(self._positive, values/2, values)', 'values/2', None)]),
    ('M09 _spectrum: conj dropped on the mirrored half', 'caught', SO, [('np.conj(values[self._positive][::-1])/2', 'values[self._positive][::-1]/2', None)]),
    ('M10 FrequencyDomainSolution: _positive = w >= 0', 'caught', SO, [('self._positive = self.w > 0', 'self._positive = self.w >= 0', None)]),
    ('M11 frequency_components: np.arange(n_max) (one harmonic less)', 'caught', CI, [('np.arange(n_max+1)', 'np.arange(n_max)', None)]),
    ('M12 __post_init__: no ground -> second node of the first component', 'caught', CI, [('self.ground_node = self.components[0].nodes[0]', 'self.ground_node = self.components[0].nodes[1]', None)]),
    ('M13 transform_circuit: node_zero_label dropped', 'caught', CI, [(',\n        node_zero_label=circuit.ground_node\n', '\n', None)]),
    ('M14 DCSolution: transform at w=[1]', 'caught', SO, [('network = transform(self.circuit, w=[0])[0]\n        self._solution = self.solver(network)\n\n    def get_voltage(self, component_id: str) -> float:', 'network = transform(self.circuit, w=[1])[0]\n        self._solution = self.solver(network)\n\n    def get_voltage(self, component_id: str) -> float:', None)]),
    ('M15 DCSolution.get_power: voltage squared', 'caught', SO, [('return self.get_voltage(component_id)*self.get_current(component_id)', 'return self.get_voltage(component_id)*self.get_voltage(component_id)', None)]),
    ('M16 TimeDomainSolution.get_current reads the voltages', 'caught', SO, [('currents = [solution.get_current(component_id) for solution in self._solutions]\n        return np.vectorize', 'currents = [solution.get_voltage(component_id) for solution in self._solutions]\n        return np.vectorize', None)]),
    ('M17 FrequencyDomainSolution: ComplexSolutions with peak_values=False', 'caught', SO, [('w=w, peak_values=True)', 'w=w, peak_values=False)', None)]),
    ('M18 __getitem__: index of the type instead of the id', 'caught', CI, [('index = [component.id for component in self.components].index(key)', 'index = [component.type for component in self.components].index(key)', None)]),
    ('M19 transform: default w_resolution 1e-2', 'caught', CI, [('def transform(circuit: Circuit, w: list[float] = [0], w_resolution: float = 1e-3)', 'def transform(circuit: Circuit, w: list[float] = [0], w_resolution: float = 1e-2)', None)]),
    ('M20 TimeDomainSolution.get_voltage: np.cos -> np.sin', 'caught', SO, [('voltages = [solution.get_voltage(component_id) for solution in self._solutions]\n        return np.vectorize(lambda t: np.array(np.sum([np.abs(V)*np.cos(', 'voltages = [solution.get_voltage(component_id) for solution in self._solutions]\n        return np.vectorize(lambda t: np.array(np.sum([np.abs(V)*np.sin(', None)]),
    ('M21 frequency_components: `or` -> `and` in the periodic test', 'caught', CI, [("== 'periodic_voltage_source' or component.type", "== 'periodic_voltage_source' and component.type", None)]),
    ('M22 FrequencyDomainSolution: mirrored frequencies not reversed', 'caught', SO, [('np.concatenate((-self.w[self._positive][::-1], self.w))', 'np.concatenate((-self.w[self._positive], self.w))', None)]),
    ('M23 transform_circuit: ground components not filtered out', 'caught', CI, [(' for component in circuit.components if component.type in transformers.keys()]', ' for component in circuit.components]', None)]),
    ('M24 TimeDomainSolution: frequencies up to 2*w_max', 'caught', SO, [('self.w = frequency_components(self.circuit, self.w_max)\n        networks', 'self.w = frequency_components(self.circuit, self.w_max+self.w_max)\n        networks', None)]),
    ('M25 __post_init__: ground filter type == \'gnd\'', 'caught', CI, [("if component.type == 'ground']", "if component.type == 'gnd']", None)]),
    ('M26 frequency_components: KeyError -> [0] instead of []', 'caught', CI, [('        except KeyError:\n            return []', '        except KeyError:\n            return [w_max]', None)]),
    ('M27 FrequencyDomainSolution: self.w left a Python list (np.array dropped; `self.w > 0` is a TypeError)', 'caught', SO,
     [('self.w = np.array(frequency_components(self.circuit, self.w_max))', 'self.w = frequency_components(self.circuit, self.w_max)', None)]),
    ('M28 FrequencyDomainSolution.get_voltage: values left a Python list (mask indexing is a TypeError)', 'caught', SO,
     [('voltages = np.array([solution.get_voltage(component_id) for solution in self._solutions])', 'voltages = [solution.get_voltage(component_id) for solution in self._solutions]', None)]),
    ('M29 ComplexSolution.__post_init__: solves the network at w = 0', 'caught', SO, [('network = transform(self.circuit, w=[self.w])[0]', 'network = transform(self.circuit, w=[0])[0]', None)]),
    ('M30 TimeDomainSolution.get_power: a for loop (statement outside the subset)', 'caught', SO,
     [('        voltage = self.get_voltage(component_id)\n        current = self.get_current(component_id)\n', '        voltage = self.get_voltage(component_id)\n        for _ in range(1):\n            current = self.get_current(component_id)\n', None)]),
    # ---- harmless rewrites
    ('H01 __post_init__: local ground_nodes renamed', 'passes', CI, [('ground_nodes', 'gnds', 'all')]),
    ('H02 DCSolution.__post_init__: local network renamed', 'passes', SO,
     [('network = transform(self.circuit, w=[0])[0]\n        self._solution = self.solver(network)\n\n    def get_voltage(self, component_id: str) -> float:', 'net = transform(self.circuit, w=[0])[0]\n        self._solution = self.solver(net)\n\n    def get_voltage(self, component_id: str) -> float:', None)]),
    ('H03 TimeDomainSolution.get_voltage: locals of the idiom renamed', 'passes', SO,
     [('voltages = [solution.get_voltage(component_id) for solution in self._solutions]\n        return np.vectorize(lambda t: np.array(np.sum([np.abs(V)*np.cos(w*t+np.angle(V)) for V, w in zip(voltages, self.w)])))',
       'vs = [s.get_voltage(component_id) for s in self._solutions]\n        return np.vectorize(lambda tau: np.array(np.sum([np.abs(X)*np.cos(om*tau+np.angle(X)) for X, om in zip(vs, self.w)])))', None)]),
    ('H04 frequency_components: loop variable and the locals of the inner function renamed', 'passes', CI,
     [('for c in circuit.components for w in frequencies(c)', 'for cmp in circuit.components for w in frequencies(cmp)', None),
      ("            w = float(component.value['w'])", "            w0 = float(component.value['w'])", None),
      ('            n_max = np.floor(w_max/w)\n            return [w*n for n in np.arange(n_max+1)]\n        return [w]',
       '            top = np.floor(w_max/w0)\n            return [w0*k for k in np.arange(top+1)]\n        return [w0]', None)]),
    ('H09 frequency_components: inner function renamed (a renamed function renames its definition g_..._<name>)', 'caught', CI,
     [('def frequencies(component: Component)', 'def freqs_of(component: Component)', None), ('for w in frequencies(c)', 'for w in freqs_of(c)', None)]),
    ('H05 FrequencyDomainSolution.__post_init__: _positive computed before _solutions (independent statements)', 'passes', SO,
     [("        self._solutions = np.array([ComplexSolution(circuit=self.circuit, solver=self.solver, w=w, peak_values=True) for w in self.w])\n        self._positive = self.w > 0\n",
       "        self._positive = self.w > 0\n        self._solutions = np.array([ComplexSolution(circuit=self.circuit, solver=self.solver, w=w, peak_values=True) for w in self.w])\n", None)]),
    ('H06 ComplexSolution.get_power: voltage and current bound to locals first', 'passes', SO,
     [('        if self.peak_values:\n            return 1/2*self.get_voltage(component_id)*np.conj(self.get_current(component_id))\n        return self.get_voltage(component_id)*np.conj(self.get_current(component_id))',
       '        v = self.get_voltage(component_id)\n        i = self.get_current(component_id)\n        if self.peak_values:\n            return 1/2*v*np.conj(i)\n        return v*np.conj(i)', None)]),
    ('H07 __post_init__: `len(ground_nodes) > 1` written `1 < len(ground_nodes)`', 'passes', CI, [('if len(ground_nodes) > 1:', 'if 1 < len(ground_nodes):', None)]),
    ('H08 transform: comprehension variable renamed; keys() dropped from the membership test', 'passes', CI,
     [('[transform_circuit(circuit, w_, w_resolution) for w_ in w]', '[transform_circuit(circuit, omega, w_resolution) for omega in w]', None),
      ('if component.type in transformers.keys()]', 'if component.type in transformers]', None)]),
]


def apply_edits(text, edits, name):
    for old, new, occ in edits:
        n = text.count(old)
        if occ is None:
            if n != 1:
                raise SystemExit(f'{name}: pattern occurs {n} times (expected once): {old!r}')
            text = text.replace(old, new)
        elif occ == 'all':
            if n == 0:
                raise SystemExit(f'{name}: pattern absent: {old!r}')
            text = text.replace(old, new)
        elif occ == 'first2':
            if n < 2:
                raise SystemExit(f'{name}: pattern occurs {n} times: {old!r}')
            text = text.replace(old, new, 2)
        else:
            parts = text.split(old)
            if len(parts) - 1 <= occ:
                raise SystemExit(f'{name}: pattern occurs {n} times, occurrence {occ} wanted: {old!r}')
            text = old.join(parts[:occ + 1]) + new + old.join(parts[occ + 1:])
    return text


def enclosing(vfile, line):
    """name of the Lemma/Theorem/Example/Definition enclosing a line of a .v file"""
    name = '?'
    with open(vfile, encoding='utf-8') as f:
        for i, l in enumerate(f, 1):
            m = re.match(r'\s*(Lemma|Theorem|Example|Definition|Fixpoint|Corollary)\s+([A-Za-z0-9_\']+)', l)
            if m:
                name = m.group(2)
            if i >= line:
                break
    return name


def write_if_changed(path, text):
    if os.path.exists(path) and open(path, encoding='utf-8').read() == text:
        return
    with open(path, 'w', encoding='utf-8') as f:
        f.write(text)


def generate_all(src):
    out = {}
    for name in sorted(os.listdir(HERE)):
        if name.startswith('gen_') and name.endswith('.py'):
            out.update(importlib.import_module(name[:-3]).generate(src))
    return out


def main():
    ap = argparse.ArgumentParser()
    ap.add_argument('--src', default=os.path.join(os.environ.get('VERIF_REPO', '/repo'), 'src', 'CircuitCalculator'))
    ap.add_argument('--work', default='/tmp/pw/genc/mut')
    ap.add_argument('--only', nargs='*')
    a = ap.parse_args()
    coq0 = os.path.join(os.path.dirname(HERE), 'coq')
    coq = os.path.join(a.work, 'coq')
    if not os.path.isdir(coq):
        os.makedirs(a.work, exist_ok=True)
        shutil.copytree(coq0, coq)          # compiled copy; rebuilt incrementally
    rows = []
    for name, expect, rel, edits in EDITS + [('(restore: unmodified source)', 'passes', CI, [])]:
        if a.only and not any(name.startswith(o) for o in a.only) and edits:
            continue
        srcm = os.path.join(a.work, 'repo', 'src', 'CircuitCalculator')
        shutil.rmtree(os.path.join(a.work, 'repo'), ignore_errors=True)
        shutil.copytree(a.src, srcm)
        p = os.path.join(srcm, *rel.split('/'))
        write_if_changed(p, apply_edits(open(p, encoding='utf-8').read(), edits, name))
        try:
            files = generate_all(srcm)
        except Unsupported as e:
            msg = str(e).replace(srcm + '/', '')
            rows.append((name, expect, 'caught', 'translator refuses: ' + msg))
            print(rows[-1], flush=True)
            continue
        for fn, text in files.items():
            write_if_changed(os.path.join(coq, 'Gen', fn), text)
        r = subprocess.run(['timeout', '1800', 'make', '-k', '-j4', 'Properties/C02c.vo', 'Properties/C09c.vo'],
                           cwd=coq, capture_output=True, text=True)
        errs = []
        for m in re.finditer(r'File "\./([^"]+)", line (\d+)', r.stdout + r.stderr):
            lemma = enclosing(os.path.join(coq, m.group(1)), int(m.group(2)))
            errs.append(f'{m.group(1)}: {lemma}')
        if r.returncode == 0 and not errs:
            rows.append((name, expect, 'passes', 'all of C02c, C09c compile'))
        else:
            rows.append((name, expect, 'caught', 'stops compiling: ' + '; '.join(dict.fromkeys(errs)) if errs
                         else 'make failed: ' + (r.stderr.strip().splitlines() or ['?'])[-1]))
        print(rows[-1], flush=True)
    print()
    bad = 0
    for name, expect, got, detail in rows:
        flag = '' if expect == got else '   <-- UNEXPECTED'
        bad += expect != got
        print(f'{name}\n    {got}: {detail}{flag}')
    return 1 if bad else 0


if __name__ == '__main__':
    sys.exit(main())
