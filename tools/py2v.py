#!/usr/bin/env python3
"""Fail-closed translator: Python source of /repo/src/CircuitCalculator -> coq/Gen/*.v.
Only an explicitly enumerated subset of Python is accepted; anything else aborts with exit 1 naming
the construct, so that the proof obligations over Gen/ count as broken (never silently skipped).
Files are rewritten only when their content changes (keeps `make` incremental)."""
import os
import sys

sys.path.insert(0, os.path.dirname(os.path.abspath(__file__)))
from v2lib import Unsupported  # noqa: E402

VERIF = os.path.dirname(os.path.dirname(os.path.abspath(__file__)))
SRC = os.path.join(os.environ.get('VERIF_REPO', '/repo'), 'src', 'CircuitCalculator')
GEN = os.path.join(VERIF, 'coq', 'Gen')



def write_if_changed(path, text):
    if os.path.exists(path) and open(path, encoding='utf-8').read() == text:
        return False
    with open(path, 'w', encoding='utf-8') as f:
        f.write(text)
    return True


def main():
    os.makedirs(GEN, exist_ok=True)
    mods = []
    here = os.path.dirname(os.path.abspath(__file__))
    sys.path.insert(0, here)
    import importlib
    for name in sorted(os.listdir(here)):
        if name.startswith('gen_') and name.endswith('.py'):
            mods.append(importlib.import_module(name[:-3]))
    try:
        for m in mods:
            for fname, text in m.generate(SRC).items():
                write_if_changed(os.path.join(GEN, fname), text)
    except Unsupported as e:
        print(f'py2v: unsupported construct: {e}')
        return 1
    except (OSError, SyntaxError, KeyError) as e:
        print(f'py2v: cannot read source: {type(e).__name__}: {e}')
        return 1
    return 0


if __name__ == '__main__':
    sys.exit(main())
