#!/usr/bin/env python3
"""Fail-closed translator: Python source of /repo/src/CircuitCalculator -> coq/Gen/*.v.
Only an explicitly enumerated subset of Python is accepted; anything else aborts with exit 1 naming
the construct, so that the proof obligations over Gen/ count as broken (never silently skipped).
Files are rewritten only when their content changes (keeps `make` incremental)."""
import os
import sys

sys.path.insert(0, os.path.dirname(os.path.abspath(__file__)))
from v2lib import Unsupported  # noqa: E402

VERIF = os.path.dirname(os.path.dirname(os.path.abspath(__file__)))
SRC = os.path.join(os.environ.get('VERIF_REPO', '/repo'), 'src', 'CircuitCalculator')
GEN = os.path.join(VERIF, 'coq', 'Gen')



def write_if_changed(path, text):
    if os.path.exists(path) and open(path, encoding='utf-8').read() == text:
        return False
    with open(path, 'w', encoding='utf-8') as f:
        f.write(text)
    return True


# what each translator module writes (used to poison exactly those files when the module refuses the source)
OUTPUTS = {'gen_tables': ['Tables.v'], 'gen_periodic': ['Periodic.v'], 'gen_transformers': ['Transformers.v'],
           'gen_network': ['NetworkGen.v'], 'gen_drawing': ['DrawingGen.v'], 'gen_circuit': ['CircuitGen.v'],
           'gen_saveload': ['SaveLoadGen.v'], 'gen_annotation': ['AnnotationGen.v'], 'gen_format': ['FormatGen.v'],
           'gen_matrix': ['MatrixGen.v'], 'gen_loaders': ['LoadersGen.v', 'PortGen.v'],
           'gen_elements': ['ElementsGen.v'], 'gen_netbranch': ['NetBranchGen.v'], 'gen_wrappers': ['WrappersGen.v']}


def poison(module, reason):
    """the module refused the current source: its previous output no longer describes the code.  Replace it by a file that does not
    compile, so that every theorem depending on it counts as broken (never checked against a stale model)."""
    outs = OUTPUTS.get(module)
    if outs is None:
        outs = [f for f in os.listdir(GEN) if f.endswith('.v')]
    text = ('(* translator ' + module + ' refused the current source: ' + reason.replace('*)', '* )') + ' *)\n'
            'Definition translator_refused_the_source : False := I.\n')
    for f in outs:
        write_if_changed(os.path.join(GEN, f), text)


def main():
    os.makedirs(GEN, exist_ok=True)
    here = os.path.dirname(os.path.abspath(__file__))
    sys.path.insert(0, here)
    import importlib
    failed = 0
    for name in sorted(os.listdir(here)):
        if not (name.startswith('gen_') and name.endswith('.py')):
            continue
        mod = name[:-3]
        try:
            m = importlib.import_module(mod)
            for fname, text in m.generate(SRC).items():
                write_if_changed(os.path.join(GEN, fname), text)
                if fname == 'Tables.v':
                    # the only generated file the executable model depends on: keep the last translation that succeeded, so that the
                    # runner can still be built (against the PREVIOUS tables) when a later source is refused — see harness/common.build
                    write_if_changed(os.path.join(GEN, 'Tables.lastgood'), text)
        except Unsupported as e:
            print(f'py2v: {mod}: unsupported construct: {e}')
            poison(mod, f'unsupported construct: {e}')
            failed += 1
        except Exception as e:  # noqa: BLE001  (fail closed: whatever went wrong, the old output must not survive)
            print(f'py2v: {mod}: cannot translate the source: {type(e).__name__}: {e}')
            poison(mod, f'cannot translate the source: {type(e).__name__}: {e}')
            failed += 1
    return 1 if failed else 0


if __name__ == '__main__':
    sys.exit(main())
