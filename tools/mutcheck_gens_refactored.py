#!/usr/bin/env python3
"""Mutation check of tools/gen_saveload.py + tools/gen_annotation.py on the REFACTORED sources H22 / H23 / H24
(harmless/Hk/patch.diff applied to a copy of the source tree): the constructs that were added to the accepted subset for these
refactorings (inlined private helpers, loops over a tuple of literals, setattr / getattr with a literal, early return of a helper,
lists of texts joined at the end, if/else updates) must not let a semantic mutant through.
Same procedure and report as mutcheck_gens.py: per edit `translator refuses`, the lemmas that stop compiling, or `passes`.
usage: mutcheck_gens_refactored.py [--repo /repo] [--harmless DIR] [--work DIR] [--only NAME ...]"""
import argparse
import os
import re
import shutil
import subprocess
import sys

HERE = os.path.dirname(os.path.abspath(__file__))
sys.path.insert(0, HERE)
from v2lib import Unsupported  # noqa: E402
from mutcheck_gens import apply_edits, enclosing, generate_all, write_if_changed, DL, SC, DP  # noqa: E402

# (patch, name, expectation, edits)
EDITS = [
    ('H22', 'R22-0 the refactored source itself', 'passes', []),
    ('H22', "R22-a 'absanchors' dropped from the restored attributes", 'caught',
     [(DL, "('segments', 'params', 'anchors', 'absanchors', 'transform', 'absdrop')", "('segments', 'params', 'anchors', 'transform', 'absdrop')", None)]),
    ('H22', "R22-b 'segments' dropped from the restored attributes", 'caught',
     [(DL, "('segments', 'params', 'anchors', 'absanchors', 'transform', 'absdrop')", "('params', 'anchors', 'absanchors', 'transform', 'absdrop')", None)]),
    ('H22', "R22-c _reset_angle_flags clears only 'deg'", 'caught', [(DL, "for flag in ('deg', 'sin')", "for flag in ('deg',)", None)]),
    ('H22', 'R22-d _reset_angle_flags sets the flags to True', 'caught', [(DL, '{flag: False for flag', '{flag: True for flag', None)]),
    ('H22', 'R22-e early return of _apply_circuit_values inverted', 'caught',
     [(DL, '    if name not in circuit_dict.keys():\n        return\n', '    if name in circuit_dict.keys():\n        return\n', None)]),
    ('H22', "R22-f the flags are reset whatever the circuit values hold", 'caught',
     [(DL, "    if 'phi' in circuit_values:\n        _reset_angle_flags(kwargs)\n", "    _reset_angle_flags(kwargs)\n", None)]),
    ('H22', "R22-g the circuit values are looked up by the element's type", 'caught',
     [(DL, "_apply_circuit_values(kwargs, element_dict['name'], circuit_dict)", "_apply_circuit_values(kwargs, element_dict['type'], circuit_dict)", None)]),
    ('H22', "R22-h every attribute is restored from values['segments']", 'caught',
     [(DL, "deserialize_schemdraw_elements(element_dict['values'][attribute])", "deserialize_schemdraw_elements(element_dict['values']['segments'])", None)]),
    ('H22', 'R22-i the circuit values are no longer merged', 'caught', [(DL, '    kwargs.update(circuit_values)\n', '', None)]),
    ('H22', 'R22-j the helper updates the circuit values instead of the keyword dictionary', 'caught',
     [(DL, '    kwargs.update(circuit_values)\n', '    circuit_values.update(kwargs)\n', None)]),
    ('H22', 'R22-k the helper is no longer called', 'caught',
     [(DL, "    _apply_circuit_values(kwargs, element_dict['name'], circuit_dict)\n", '', None)]),
    ('H22', "R22-l the flags are reset BEFORE the circuit values are merged", 'caught',
     [(DL, "    kwargs.update(circuit_values)\n    if 'phi' in circuit_values:\n        _reset_angle_flags(kwargs)\n",
       "    if 'phi' in circuit_values:\n        _reset_angle_flags(kwargs)\n    kwargs.update(circuit_values)\n", None)]),
    ('H22', "R22-m the 'phi' test looks at the keyword dictionary", 'caught', [(DL, "    if 'phi' in circuit_values:", "    if 'phi' in kwargs:", None)]),
    ('H22', 'R22-n every attribute is assigned to `segments`', 'caught', [(DL, 'setattr(element, attribute, ', "setattr(element, 'segments', ", None)]),
    ('H22', 'R22-p (harmless) parameter of the helpers renamed', 'passes',
     [(DL, "def _reset_angle_flags(kwargs: dict[str, Any]) -> None:\n    kwargs.update({flag: False for flag in ('deg', 'sin') if flag in kwargs})",
       "def _reset_angle_flags(kw: dict[str, Any]) -> None:\n    kw.update({flag: False for flag in ('deg', 'sin') if flag in kw})", None)]),
    ('H23', 'R23-0 the refactored source itself', 'passes', []),
    ('H23', "R23-a every direction calls element.right", 'caught', [(SC, 'getattr(element, direction_name)(length*unit)', "getattr(element, 'right')(length*unit)", None)]),
    ('H23', 'R23-b the length is not multiplied by the unit', 'caught', [(SC, 'getattr(element, direction_name)(length*unit)', 'getattr(element, direction_name)(length)', None)]),
    ('H23', "R23-c 'down' dropped from the directions", 'caught', [(SC, "_directions = ('right', 'left', 'up', 'down')", "_directions = ('right', 'left', 'up')", None)]),
    ('H23', 'R23-d the comparison is inverted', 'caught', [(SC, 'if direction == direction_name:', 'if direction != direction_name:', None)]),
    ('H23', "R23-e the entries of 'currents' are drawn with draw_voltage", 'caught', [(SC, 'lambda c: solution.draw_current(**c)', 'lambda c: solution.draw_voltage(**c)', None)]),
    ('H23', "R23-f the list of voltages is drawn twice, the currents never", 'caught',
     [(SC, 'solution_definition.currents, lambda c', 'solution_definition.voltages, lambda c', None)]),
    ('H23', 'R23-g the helper swallows every exception', 'caught', [(SC, '        except dp.UnknownElement as e:\n            print(f\'Cannot draw {description}', '        except Exception as e:\n            print(f\'Cannot draw {description}', None)]),
    ('H23', 'R23-h the helper draws every annotation twice', 'caught',
     [(SC, '            schematic += draw(definition)\n', '            schematic += draw(definition)\n            schematic += draw(definition)\n', None)]),
    ('H23', 'R23-i the helper skips the first annotation', 'caught', [(SC, '    for definition in definitions:\n', '    for definition in definitions[1:]:\n', None)]),
    ('H23', 'R23-j the powers are not drawn', 'caught',
     [(SC, "    schematic = _draw_annotations(schematic, solution_definition.powers, lambda p: solution.draw_power(**p), 'power of undefined element')\n", '', None)]),
    ('H23', 'R23-k potentials drawn before currents', 'caught',
     [(SC, "    schematic = _draw_annotations(schematic, solution_definition.currents, lambda c: solution.draw_current(**c), 'current of undefined element')\n"
           "    schematic = _draw_annotations(schematic, solution_definition.potentials, lambda p: solution.draw_potential(**p), 'potential of undefined node')\n",
       "    schematic = _draw_annotations(schematic, solution_definition.potentials, lambda p: solution.draw_potential(**p), 'potential of undefined node')\n"
       "    schematic = _draw_annotations(schematic, solution_definition.currents, lambda c: solution.draw_current(**c), 'current of undefined element')\n", None)]),
    ('H23', 'R23-l the drawn label is passed without ** (one positional argument)', 'caught', [(SC, 'lambda v: solution.draw_voltage(**v)', 'lambda v: solution.draw_voltage(v)', None)]),
    ('H23', 'R23-m the result of the helper is dropped (fill keeps its own name: harmless for Drawing, refused: not `X = helper(X, ..)`)', 'caught',
     [(SC, "    schematic = _draw_annotations(schematic, solution_definition.voltages,", "    _draw_annotations(schematic, solution_definition.voltages,", None)]),
    ('H24', 'R24-0 the refactored source itself', 'passes', []),
    ('H24', "R24-a 'sin' / 'cos' swapped", 'caught', [(DP, "parts.append('sin' if sin else 'cos')", "parts.append('cos' if sin else 'sin')", None)]),
    ('H24', 'R24-b w == 0 returns parts[1] (IndexError)', 'caught', [(DP, '        return parts[0]', '        return parts[1]', None)]),
    ('H24', "R24-c '2π·' no longer written for hertz", 'caught', [(DP, "        parts.append('2π·')\n", '', None)]),
    ('H24', 'R24-d the branches on hertz are swapped', 'caught', [(DP, '    if hertz:\n        parts.append', '    if not hertz:\n        parts.append', None)]),
    ('H24', "R24-e the parts are joined with '·'", 'caught', [(DP, "return ''.join(parts)", "return '·'.join(parts)", None)]),
    ('H24', 'R24-f the amplitude is left out of the joined text', 'caught', [(DP, "return ''.join(parts)", "return ''.join(parts[1:])", None)]),
    ('H24', "R24-g the closing ')' is not appended", 'caught', [(DP, "    parts.append(')')\n", '', None)]),
    ('H24', "R24-h '+' / '-' swapped", 'caught', [(DP, "parts.append('+' if phase_value > 0 else '-')", "parts.append('-' if phase_value > 0 else '+')", None)]),
    ('H24', 'R24-i the phase text is appended whatever the phase', 'caught',
     [(DP, '        parts.append(str(abs_phase_value))\n', '', None), (DP, "    parts.append(')')\n", "    parts.append(str(abs_phase_value))\n    parts.append(')')\n", None)]),
    ('H24', 'R24-j phase threshold 1e-3', 'caught', [(DP, 'if abs(phase_value) > 1e-4:', 'if abs(phase_value) > 1e-3:', None)]),
    ('H24', 'R24-k the hertz text shows w, not w/2/pi', 'caught', [(DP, "str(ScientificFloat(w/2/pi, 'Hz',", "str(ScientificFloat(w, 'Hz',", None)]),
    ('H24', "R24-l '·t' is written before the frequency", 'caught',
     [(DP, "    parts.append('·t')\n", '', None), (DP, "    parts.append('(')\n", "    parts.append('(')\n    parts.append('·t')\n", None)]),
    ('H24', 'R24-m a second name for the list, appended to after the join was prepared', 'caught',
     [(DP, "    parts.append(')')\n", "    other = parts\n    other.append(')')\n", None)]),
    ('H24', 'R24-n w == 0 returns the joined text of everything', 'caught', [(DP, '        return parts[0]', "        return ''.join(parts) + ')'", None)]),
    ('H24', 'R24-p (harmless) the list is called pieces', 'passes', [(DP, 'parts', 'pieces', 'all')]),
]


def main():
    ap = argparse.ArgumentParser()
    ap.add_argument('--repo', default=os.environ.get('VERIF_REPO', '/repo'))
    ap.add_argument('--harmless', default=os.path.join(os.path.dirname(HERE), 'harmless'))
    ap.add_argument('--work', default='/tmp/mutcheck_gens_refactored')
    ap.add_argument('--only', nargs='*')
    a = ap.parse_args()
    coq0 = os.path.join(os.path.dirname(HERE), 'coq')
    coq = os.path.join(a.work, 'coq')
    if not os.path.isdir(coq):
        os.makedirs(a.work, exist_ok=True)
        shutil.copytree(coq0, coq)
    else:
        for root, _, fs in os.walk(coq0):
            for fn in fs:
                if fn.endswith('.v') or fn in ('_CoqProject', 'Makefile', 'Makefile.conf'):
                    src_ = os.path.join(root, fn)
                    write_if_changed(os.path.join(coq, os.path.relpath(src_, coq0)), open(src_, encoding='utf-8').read())
    rows = []
    for patch, name, expect, edits in EDITS + [(None, '(restore: unmodified source)', 'passes', [])]:
        if a.only and not any(name.startswith(o) for o in a.only) and patch is not None:
            continue
        base = os.path.join(a.work, 'repo')
        shutil.rmtree(base, ignore_errors=True)
        os.makedirs(base)
        shutil.copytree(os.path.join(a.repo, 'src'), os.path.join(base, 'src'))
        if patch is not None:
            subprocess.run(['git', 'apply', os.path.join(a.harmless, patch, 'patch.diff')], cwd=base, check=True)
        srcm = os.path.join(base, 'src', 'CircuitCalculator')
        apply_edits(srcm, edits, name)
        try:
            files = generate_all(srcm)
        except Unsupported as e:
            rows.append((name, expect, 'caught', 'translator refuses: ' + str(e).replace(srcm + '/', '')))
            print(rows[-1], flush=True)
            continue
        for fn, text in files.items():
            write_if_changed(os.path.join(coq, 'Gen', fn), text)
        r = subprocess.run(['timeout', '1800', 'make', '-k', '-j4', 'Properties/C15c.vo', 'Properties/C14c.vo'],
                           cwd=coq, capture_output=True, text=True)
        errs = []
        for m in re.finditer(r'File "\./([^"]+)", line (\d+)', r.stdout + r.stderr):
            errs.append(f'{m.group(1)}: {enclosing(os.path.join(coq, m.group(1)), int(m.group(2)))}')
        if r.returncode == 0 and not errs:
            rows.append((name, expect, 'passes', 'C15c and C14c compile'))
        else:
            rows.append((name, expect, 'caught', 'stops compiling: ' + '; '.join(dict.fromkeys(errs)) if errs
                         else 'make failed: ' + (r.stderr.strip().splitlines() or ['?'])[-1]))
        print(rows[-1], flush=True)
    print()
    bad = 0
    for name, expect, got, detail in rows:
        flag = '' if expect == got else '   <-- UNEXPECTED'
        bad += expect != got
        print(f'{name}\n    {got}: {detail}{flag}')
    return 1 if bad else 0


if __name__ == '__main__':
    sys.exit(main())
