"""Translator module: Utils.py (FloatPrecision, Float3, ScientificFloat, ScientificComplex: the number rendering pipeline)
-> coq/Gen/FormatGen.v, one Gallina definition per property / method, in the vocabulary of coq/Model/FormatPrims.v.
Theory/FormatGenThm.v proves the generated definitions equal to the hand model Model/Format.v (Properties/C18c.v).
Fail-closed: every construct outside the subset below raises Unsupported naming file:line and the construct.

=== module level ===
  `import numpy as np`, `from dataclasses import dataclass, field`, class definitions; nothing else; no name bound twice;
  none of abs len str int float max min np dataclass field rebound anywhere (module, parameter, local, nested def).
=== classes ===
  [@dataclass | @dataclass(frozen=True)] class C:            fields `name: T [= default]`, methods
  class D(C):                                                 one base of this module, methods only (shares C's record)
  T        = float | int | str | bool | complex | dict[int, str]
  default  = INT | -INT | 'lit' | True | False | field(default_factory=lambda: {INT: 'lit', ...})
  method   = [@property] def m(self[, p[: T], ...]) [-> T]    no defaults, * or ** parameters.  A parameter without
             annotation takes the type of the argument at the (first) call from a translated method.  No special
             method (__post_init__, __eq__, ...) other than __str__; no overriding of a base-class member.
  FloatPrecision._float_to_string is PINNED: its body must be, statement for statement, the reference below
  (FLOAT_TO_STRING_REF); it is the primitive `decimal text of a float` (FormatPrims.float_str).
=== statements (a body is translated to one expression) ===
  def f(p: T, ...): ...          nested function, first in the body; may refer to self and its own parameters only
  NAME = <e>                     a new local (no rebinding on a path)
  if <bool>: ... [else: ...]     any nesting; code after an `if` whose branch does not return is continued in that branch
  with np.errstate(divide='ignore'): ...      (ignored: it silences a warning)
  return <e>                     every path must end in one; all of one type, the annotated one if there is an annotation
  docstrings
=== expressions ===
  numbers   INT | NAME | self.f | <obj>.f | <obj>.prop | <complex>.real | <complex>.imag | -a | a+b | a-b | a*b | a/b
            | a//b | a%b (ints) | a % 1 (float) | 10**k (k int) | abs(a) | np.abs(a) | max(a, b) | min(a, b) | max(ks) | min(ks)
            | int(a) | float(a) | np.round(a) | np.round(a, decimals=d) | np.floor(a) | len(s)
            | len(d) - len(d.lstrip('0'))   (d the digits after the point of a float text)
            | np.angle(z, deg=b)
  bools     True | False | not a | a and b | a or b | a < b | a <= b | a > b | a >= b | a == b | a != b (numbers; strs for == / !=)
            | k in ks | k not in ks | k in d | d == '0' (d digits after the point) | np.log10(a) <= INT
  strs      'lit' | str(a) | <obj>.__str__() | f'...{a}...{n:d}...{n:0{w}d}...{x:.Nf}...' | s.strip() | a + b
            | str(x).split('.')[0] | str(x).split('.')[-1] (x a float; also self._float_to_string(x))
            | d[k] | d.get(k, s)      (d a dict[int, str])
  other     d.keys() | a if c else b | C(args, kw=...) (a dataclass of this module; omitted fields take the default)
            | <obj>.m(args) | f(args) (nested function)
  Anything else — loops, comprehensions, lambdas outside default_factory, try, augmented assignment, tuples, chained
  comparisons, float literals, other numpy functions, other format specifications — is refused.
"""
import ast
import os
import re

from v2lib import Unsupported, parse, where

REL = 'Utils.py'
BUILTINS = {'abs', 'len', 'str', 'int', 'float', 'max', 'min', 'np', 'dataclass', 'field', 'self'}
ANN = {'float': 'Q', 'int': 'Z', 'str': 'label', 'bool': 'bool', 'complex': 'C'}
COQT = {'Q': 'Q', 'Z': 'Z', 'label': 'label', 'bool': 'bool', 'C': 'cval', 'table': 'table', 'keys': 'list Z',
        'fstr': 'fstr', 'dstr': 'dstr'}

FLOAT_TO_STRING_REF = '''
def _float_to_string(self, value: float) -> str:
    str_abs_value = str(value)
    if str_abs_value.count('e') == 1:
        post_decimal_digits = abs(int(str_abs_value.split('e')[-1]))+1+self.precision
        return f'{value:.{post_decimal_digits}f}'
    return str(value)
'''
PINNED = {('FloatPrecision', '_float_to_string'): (FLOAT_TO_STRING_REF, ['Q'], 'fstr', 'float_str v_value')}


def dotted(n):
    if isinstance(n, ast.Name):
        return n.id
    if isinstance(n, ast.Attribute):
        b = dotted(n.value)
        return None if b is None else b + '.' + n.attr
    return None


def is_int(n):
    return isinstance(n, ast.Constant) and isinstance(n.value, int) and not isinstance(n.value, bool)


def int_const(n):
    """INT or -INT -> python int, else None"""
    if is_int(n):
        return n.value
    if isinstance(n, ast.UnaryOp) and isinstance(n.op, ast.USub) and is_int(n.operand):
        return -n.operand.value
    return None


def zlit(v):
    return f'({v})' if v < 0 else str(v)


def without_docstring(body):
    if body and isinstance(body[0], ast.Expr) and isinstance(body[0].value, ast.Constant) and isinstance(body[0].value.value, str):
        return body[1:]
    return body


def always_returns(stmts):
    for st in stmts:
        if isinstance(st, ast.Return):
            return True
        if isinstance(st, ast.If) and st.orelse and always_returns(st.body) and always_returns(st.orelse):
            return True
        if isinstance(st, ast.With) and always_returns(st.body):
            return True
    return False


class Strings:
    """string literals of the source -> named Coq constants uk_<id> (code-point lists)"""

    def __init__(self):
        self.names = {}

    def __call__(self, s):
        if s not in self.names:
            base = 'uk_' + (re.sub(r'[^A-Za-z0-9]', lambda mo: f'u{ord(mo.group(0))}', s) if s else 'empty')
            name, i = base, 1
            while name in self.names.values():
                i += 1
                name = f'{base}_{i}'
            self.names[s] = name
        return self.names[s]

    def definitions(self):
        return [f'Definition {n} : label := [' + '; '.join(f'{ord(c)}%N' for c in s) + f'].   (* {s!r} *)'
                for s, n in self.names.items()]


class Cls:
    def __init__(self, node):
        self.name = node.name
        self.node = node
        self.base = None
        self.fields = []          # (name, type, default node or None)   own fields of the root class
        self.methods = {}         # name -> (FunctionDef, is_property)

    @property
    def root(self):
        return self if self.base is None else self.base.root

    def find(self, name):
        c = self
        while c is not None:
            if name in c.methods:
                return c, c.methods[name]
            c = c.base
        return None, None

    def field_type(self, name):
        for f, t, _ in self.root.fields:
            if f == name:
                return t
        return None


class Gen:
    def __init__(self, src):
        self.path = os.path.join(src, 'Utils.py')
        self.tree = parse(self.path)
        self.K = Strings()
        self.classes = {}
        self.order = []
        self.defs = []
        self.compiled = {}        # (class name, method name) -> info
        self.busy = []
        self._module()

    def bad(self, n, msg):
        return Unsupported(f'{where(n, self.path)}: {msg}')

    # ---------------------------------------------------------------- module and classes
    def _module(self):
        p = self.path
        bound = []
        imports = {}
        for st in self.tree.body:
            if isinstance(st, ast.Import):
                for a in st.names:
                    imports[a.asname or a.name] = ('import', a.name)
                    bound.append(a.asname or a.name)
            elif isinstance(st, ast.ImportFrom):
                for a in st.names:
                    if a.name == '*':
                        raise self.bad(st, 'star import')
                    imports[a.asname or a.name] = (st.module, st.level, a.name)
                    bound.append(a.asname or a.name)
            elif isinstance(st, ast.ClassDef):
                bound.append(st.name)
            else:
                raise self.bad(st, f'module-level statement outside the subset: {ast.unparse(st)[:60]}')
        dup = sorted({b for b in bound if bound.count(b) > 1})
        if dup:
            raise Unsupported(f'{p}: names bound more than once at module level: {dup}')
        exp = {'np': ('import', 'numpy'), 'dataclass': ('dataclasses', 0, 'dataclass'), 'field': ('dataclasses', 0, 'field')}
        if imports != exp:
            raise Unsupported(f'{p}: imports are not exactly `import numpy as np` and `from dataclasses import dataclass, field` '
                              f'(found {sorted(imports)})')
        for st in self.tree.body:
            if isinstance(st, ast.ClassDef):
                self._class(st)

    def _class(self, c):
        if c.name in BUILTINS:
            raise self.bad(c, f'class named {c.name}')
        cl = Cls(c)
        if c.keywords:
            raise self.bad(c, f'class {c.name}: class keywords')
        if len(c.bases) > 1:
            raise self.bad(c, f'class {c.name}: several base classes')
        if c.bases:
            b = dotted(c.bases[0])
            if b not in self.classes:
                raise self.bad(c, f'class {c.name}: base {ast.unparse(c.bases[0])} is not a class of this module defined before')
            cl.base = self.classes[b]
        is_dc = False
        for d in c.decorator_list:
            if dotted(d) == 'dataclass':
                is_dc = True
            elif isinstance(d, ast.Call) and dotted(d.func) == 'dataclass' and not d.args and \
                    all(k.arg == 'frozen' and isinstance(k.value, ast.Constant) and isinstance(k.value.value, bool) for k in d.keywords):
                is_dc = True
            else:
                raise self.bad(c, f'class {c.name}: decorator {ast.unparse(d)}')
        if len(c.decorator_list) > 1:
            raise self.bad(c, f'class {c.name}: several decorators')
        for m in without_docstring(c.body):
            if isinstance(m, ast.AnnAssign) and isinstance(m.target, ast.Name) and m.simple:
                if cl.base is not None:
                    raise self.bad(m, f'class {c.name}: a subclass that adds the field {m.target.id}')
                if not is_dc:
                    raise self.bad(m, f'class {c.name} has fields but is not a @dataclass')
                if m.target.id in [f for f, _, _ in cl.fields] or m.target.id in cl.methods:
                    raise self.bad(m, f'class {c.name}: {m.target.id} bound twice')
                if cl.methods:
                    raise self.bad(m, f'class {c.name}: field {m.target.id} after a method')
                cl.fields.append((m.target.id, self._ann(m.annotation, f'{c.name}.{m.target.id}'), m.value))
            elif isinstance(m, ast.FunctionDef):
                prop = False
                for d in m.decorator_list:
                    if dotted(d) == 'property' and not prop:
                        prop = True
                    else:
                        raise self.bad(m, f'{c.name}.{m.name}: decorator {ast.unparse(d)}')
                if m.name.startswith('__') and m.name.endswith('__') and m.name != '__str__':
                    raise self.bad(m, f'{c.name}.{m.name}: special method other than __str__ (implicit behaviour is not translated)')
                if m.name in cl.methods or m.name in [f for f, _, _ in cl.fields]:
                    raise self.bad(m, f'class {c.name}: {m.name} bound twice')
                if cl.base is not None and (cl.base.find(m.name)[0] is not None or cl.root.field_type(m.name)):
                    raise self.bad(m, f'class {c.name}: {m.name} overrides a member of the base class')
                cl.methods[m.name] = (m, prop)
            else:
                raise self.bad(m, f'class {c.name}: member outside the subset: {ast.unparse(m)[:60]}')
        if cl.base is None and not cl.fields:
            raise self.bad(c, f'class {c.name}: no fields')
        seen_default = False
        for f, t, d in cl.fields:
            if d is None and seen_default:
                raise self.bad(c, f'class {c.name}: field {f} without default after a field with default')
            seen_default = seen_default or d is not None
        self.classes[c.name] = cl
        self.order.append(cl)

    def _ann(self, a, what, allow_table=True):
        if isinstance(a, ast.Name) and a.id in ANN:
            return ANN[a.id]
        if allow_table and a is not None and ast.unparse(a).replace(' ', '') == 'dict[int,str]':
            return 'table'
        if isinstance(a, ast.Name) and a.id in self.classes:
            return 'obj:' + a.id
        raise Unsupported(f'{where(a, self.path) if a is not None else self.path}: {what}: annotation '
                          f'{ast.unparse(a) if a is not None else "(none)"} outside float / int / str / bool / complex / dict[int, str] / a class of this module')

    def coqt(self, t):
        if t.startswith('obj:'):
            return self.classes[t[4:]].root.name
        return COQT[t]

    # ---------------------------------------------------------------- records and defaults
    def records(self):
        out = []
        for cl in self.order:
            if cl.base is not None:
                out.append(f'(* class {cl.name}({cl.base.name})   ({where(cl.node, REL)}): no fields of its own; its objects are {cl.root.name} records *)')
                continue
            flds = '; '.join(f'{cl.name}_{f} : {self.coqt(t)}' for f, t, _ in cl.fields)
            out.append(f'(* class {cl.name}   ({where(cl.node, REL)}) *)\nRecord {cl.name} := mk_{cl.name} {{ {flds} }}.')
            for f, t, d in cl.fields:
                if d is not None:
                    out.append(f'Definition g_{cl.name}_default_{f} : {self.coqt(t)} := {self.default(d, t, f"{cl.name}.{f}")}.')
        return out

    def default(self, d, t, what):
        v = int_const(d)
        if t == 'Z' and v is not None:
            return zlit(v)
        if isinstance(d, ast.Constant):
            if t == 'bool' and isinstance(d.value, bool):
                return str(d.value).lower()
            if t == 'label' and isinstance(d.value, str):
                return self.K(d.value)
        if t == 'table' and isinstance(d, ast.Call) and dotted(d.func) == 'field' and not d.args and \
                [k.arg for k in d.keywords] == ['default_factory']:
            lam = d.keywords[0].value
            a = lam.args if isinstance(lam, ast.Lambda) else None
            if a is not None and not (a.args or a.vararg or a.kwarg or a.kwonlyargs or a.posonlyargs) and isinstance(lam.body, ast.Dict):
                rows, keys = [], []
                for k, v_ in zip(lam.body.keys, lam.body.values):
                    kv = int_const(k) if k is not None else None
                    if kv is None or not (isinstance(v_, ast.Constant) and isinstance(v_.value, str)):
                        raise self.bad(d, f'{what}: table entry is not INT: \'lit\'')
                    if kv in keys:
                        raise self.bad(d, f'{what}: key {kv} twice in the table')
                    keys.append(kv)
                    rows.append(f'({zlit(kv)}, {self.K(v_.value)})')
                return '[' + '; '.join(rows) + ']'
        raise self.bad(d, f'{what}: default {ast.unparse(d)[:60]} outside the subset for a {t}')

    # ---------------------------------------------------------------- methods
    def coq_name(self, cname, mname):
        return f'g_{cname}_' + ('str' if mname == '__str__' else mname)

    def method(self, cl, name, argtypes, at):
        """info of the method `name` looked up from class cl; compiles it on first use.  argtypes: types of the call's
        arguments (None = no call: entry point)"""
        dc, (m, prop) = cl.find(name)
        key = (dc.name, name)
        if key in self.compiled:
            info = self.compiled[key]
            if argtypes is not None and argtypes != info['params']:
                raise self.bad(at, f'{dc.name}.{name} is called with arguments of types {argtypes}, it was translated for {info["params"]}')
            return info
        if key in self.busy:
            raise self.bad(at, f'recursion through {dc.name}.{name}')
        a = m.args
        if a.vararg or a.kwarg or a.kwonlyargs or a.posonlyargs or a.defaults or a.kw_defaults or not a.args or a.args[0].arg != 'self':
            raise self.bad(m, f'{dc.name}.{name}: parameter list outside the subset (self, p, ...)')
        if a.args[0].annotation is not None:
            raise self.bad(m, f'{dc.name}.{name}: annotated self')
        ps = a.args[1:]
        if prop and ps:
            raise self.bad(m, f'{dc.name}.{name}: property with parameters')
        if argtypes is not None and len(argtypes) != len(ps):
            raise self.bad(at, f'{dc.name}.{name} takes {len(ps)} arguments, {len(argtypes)} given')
        types = []
        for i, x in enumerate(ps):
            if x.annotation is not None:
                t = self._ann(x.annotation, f'{dc.name}.{name}({x.arg})', allow_table=False)
                if argtypes is not None and argtypes[i] != t:
                    raise self.bad(at, f'{dc.name}.{name}({x.arg}: {ast.unparse(x.annotation)}) is given a {argtypes[i]}')
            elif argtypes is not None:
                t = argtypes[i]
            else:
                return None                                    # cannot be typed yet
            types.append(t)
        self.busy.append(key)
        info = self.function(dc, m, [x.arg for x in ps], types, self.coq_name(dc.name, name), f'{dc.name}.{name}', None, pinned=PINNED.get(key))
        info['property'] = prop
        self.busy.pop()
        self.compiled[key] = info
        return info

    def function(self, dc, m, pnames, ptypes, cname, ctx, outer, pinned=None):
        """translate the function m (a method of dc, or a function nested in one) -> info; appends the definition"""
        for x in pnames:
            if x in BUILTINS:
                raise self.bad(m, f'{ctx}: parameter named {x}')
        if len(set(pnames)) != len(pnames):
            raise self.bad(m, f'{ctx}: duplicate parameter')
        env = {x: (f'v_{x}', t) for x, t in zip(pnames, ptypes)}
        cur = {'cls': dc, 'ao': False, 'rets': [], 'ctx': ctx, 'funcs': {}, 'cname': cname, 'nested': outer is not None}
        saved, self.cur = getattr(self, 'cur', None), cur
        body = without_docstring(m.body)
        if pinned is not None:
            ref, rtypes, rret, rbody = pinned
            rf = ast.parse(ref.strip()).body[0]
            if ast.dump(rf.args) != ast.dump(m.args) or [ast.dump(s) for s in rf.body] != [ast.dump(s) for s in body] or \
                    m.decorator_list or ptypes != rtypes:
                raise self.bad(m, f'{ctx} is pinned (it is the primitive `decimal text of a float`): its parameters / body differ from the reference shape')
            code, ret = '  ' + rbody, rret
        else:
            i = 0
            while i < len(body) and isinstance(body[i], ast.FunctionDef):
                if outer is not None:
                    raise self.bad(body[i], f'{ctx}: function nested twice')
                self.nested(dc, body[i], env, cname, ctx)
                i += 1
            code = self.block(body[i:], env, 1)
            rets = cur['rets']
            if not rets:
                raise self.bad(m, f'{ctx}: no return')
            if len(set(rets)) != 1:
                raise self.bad(m, f'{ctx}: returns of different types {sorted(set(rets))}')
            ret = rets[0]
        if m.returns is not None:
            want = self._ann(m.returns, f'{ctx}: return annotation', allow_table=False)
            if want != ret and not (want == 'label' and ret == 'fstr'):
                raise self.bad(m, f'{ctx}: annotated -> {ast.unparse(m.returns)} but the body returns a {ret}')
        self.cur = saved
        ao = '(AO : angle_oracle) ' if cur['ao'] else ''
        prm = ' '.join(f'(v_{x} : {self.coqt(t)})' for x, t in zip(pnames, ptypes))
        kind = 'nested in' if outer is not None else ('property' if any(dotted(d) == 'property' for d in m.decorator_list) else 'method')
        self.defs.append(f'(* {ctx}   ({where(m, REL)}; {kind}) *)\n'
                         f'Definition {cname} {ao}(self : {dc.root.name}){" " + prm if prm else ""} : {self.coqt(ret)} :=\n{code}.')
        return {'coq': cname, 'params': ptypes, 'ret': ret, 'ao': cur['ao'], 'property': False}

    def nested(self, dc, f, env, cname, ctx):
        a = f.args
        if a.vararg or a.kwarg or a.kwonlyargs or a.posonlyargs or a.defaults or a.kw_defaults or f.decorator_list:
            raise self.bad(f, f'{ctx}: nested function {f.name}: parameter list / decorator outside the subset')
        if f.name in BUILTINS or f.name in env or f.name in self.cur['funcs'] or f.name in self.classes:
            raise self.bad(f, f'{ctx}: nested function {f.name} rebinds a name')
        types = []
        for x in a.args:
            if x.annotation is None:
                raise self.bad(f, f'{ctx}: nested function {f.name}: parameter {x.arg} without annotation')
            types.append(self._ann(x.annotation, f'{ctx}.{f.name}({x.arg})', allow_table=False))
        outer_cur = self.cur
        info = self.function(dc, f, [x.arg for x in a.args], types, f'{cname}_{f.name}', f'{ctx}.{f.name}', outer=outer_cur)
        self.cur = outer_cur
        outer_cur['funcs'][f.name] = info
        outer_cur['ao'] = outer_cur['ao'] or info['ao']

    # ---------------------------------------------------------------- statements
    def block(self, stmts, env, ind):
        pad = '  ' * ind
        ctx = self.cur['ctx']
        if not stmts:
            raise Unsupported(f'{self.path}: {ctx}: a path falls off the end without return')
        st, rest = stmts[0], list(stmts[1:])
        if isinstance(st, ast.Expr) and isinstance(st.value, ast.Constant) and isinstance(st.value.value, str):
            return self.block(rest, env, ind)
        if isinstance(st, ast.Return):
            if st.value is None:
                raise self.bad(st, f'{ctx}: bare return')
            if rest:
                raise self.bad(rest[0], f'{ctx}: statement after return')
            c, t = self.ex(st.value, env)
            self.cur['rets'].append(t)
            return pad + c
        if isinstance(st, ast.Assign):
            if len(st.targets) != 1 or not isinstance(st.targets[0], ast.Name):
                raise self.bad(st, f'{ctx}: assignment outside the subset: {ast.unparse(st)[:60]}')
            nm = st.targets[0].id
            if nm in env or nm in BUILTINS or nm in self.cur['funcs'] or nm in self.classes:
                raise self.bad(st, f'{ctx}: {nm} rebound')
            c, t = self.ex(st.value, env)
            env2 = dict(env)
            env2[nm] = (f'v_{nm}', t)
            return f'{pad}let v_{nm} := {c} in\n' + self.block(rest, env2, ind)
        if isinstance(st, ast.If):
            c, t = self.ex(st.test, env)
            if t != 'bool':
                raise self.bad(st, f'{ctx}: condition of type {t}: {ast.unparse(st.test)}')
            br, er = always_returns(st.body), always_returns(st.orelse)
            if br and er and rest:
                raise self.bad(rest[0], f'{ctx}: unreachable statement')
            a = self.block(list(st.body) + ([] if br else rest), dict(env), ind + 1)
            b = self.block(list(st.orelse) + ([] if er else rest), dict(env), ind + 1)
            return f'{pad}if {c} then\n{a}\n{pad}else\n{b}'
        if isinstance(st, ast.With):
            if not (len(st.items) == 1 and st.items[0].optional_vars is None and
                    ast.unparse(st.items[0].context_expr) == "np.errstate(divide='ignore')"):
                raise self.bad(st, f'{ctx}: with statement other than `with np.errstate(divide=\'ignore\'):`')
            if always_returns(st.body) and rest:
                raise self.bad(rest[0], f'{ctx}: unreachable statement')
            return self.block(list(st.body) + rest, env, ind)
        raise self.bad(st, f'{ctx}: statement outside the subset: {ast.unparse(st)[:70]}')

    # ---------------------------------------------------------------- expressions
    def promote(self, c, t, n):
        if t == 'Q':
            return c
        if t == 'Z':
            return f'(inject_Z {c})'
        raise self.bad(n, f'{self.cur["ctx"]}: a {t} where a number is expected: {ast.unparse(n)[:60]}')

    def ex(self, n, env):
        ctx = self.cur['ctx']
        K = self.K
        bad = lambda msg: self.bad(n, f'{ctx}: {msg}')   # noqa: E731

        if isinstance(n, ast.Constant):
            v = n.value
            if isinstance(v, bool):
                return str(v).lower(), 'bool'
            if isinstance(v, int):
                return zlit(v), 'Z'
            if isinstance(v, str):
                return K(v), 'label'
            raise bad(f'literal {v!r}')

        if isinstance(n, ast.Name):
            if n.id == 'self':
                if 'self' in env:
                    raise bad('self rebound')
                return 'self', 'obj:' + self.cur['cls'].name
            if n.id in env:
                return env[n.id]
            raise bad(f'name {n.id} outside the subset (not a parameter / local' +
                      (' of the nested function, nor self)' if self.cur['nested'] else ')'))

        if isinstance(n, ast.Attribute):
            if dotted(n) and dotted(n).split('.')[0] == 'np':
                raise bad(f'numpy attribute {dotted(n)}')
            c, t = self.ex(n.value, env)
            if t == 'C' and n.attr in ('real', 'imag'):
                return f'({"fst" if n.attr == "real" else "snd"} {c})', 'Q'
            if t.startswith('obj:'):
                cl = self.classes[t[4:]]
                ft = cl.field_type(n.attr)
                if ft is not None:
                    return f'({cl.root.name}_{n.attr} {c})', ft
                dc, mm = cl.find(n.attr)
                if dc is None:
                    raise bad(f'{cl.name} has no member {n.attr}')
                if not mm[1]:
                    raise bad(f'method {cl.name}.{n.attr} used without a call')
                return self.call_method(cl, n.attr, c, [], [], n), self.compiled[(dc.name, n.attr)]['ret']
            raise bad(f'attribute .{n.attr} of a {t}')

        if isinstance(n, ast.UnaryOp):
            if isinstance(n.op, ast.Not):
                c, t = self.ex(n.operand, env)
                if t != 'bool':
                    raise bad(f'not of a {t}')
                return f'(negb {c})', 'bool'
            if isinstance(n.op, ast.USub):
                v = int_const(n)
                if v is not None:
                    return zlit(v), 'Z'
                c, t = self.ex(n.operand, env)
                if t == 'Z':
                    return f'(- {c})', 'Z'
                if t == 'Q':
                    return f'(Qopp {c})', 'Q'
                raise bad(f'- of a {t}')
            raise bad(f'unary operator {ast.unparse(n)[:40]}')

        if isinstance(n, ast.BoolOp):
            parts = []
            for v in n.values:
                c, t = self.ex(v, env)
                if t != 'bool':
                    raise bad(f'and / or of a {t}')
                parts.append(c)
            op = ' && ' if isinstance(n.op, ast.And) else ' || '
            return '(' + op.join(parts) + ')', 'bool'

        if isinstance(n, ast.IfExp):
            c, t = self.ex(n.test, env)
            a, at = self.ex(n.body, env)
            b, bt = self.ex(n.orelse, env)
            if t != 'bool' or at != bt:
                raise bad(f'conditional expression with operands of types {t}, {at}, {bt}')
            return f'(if {c} then {a} else {b})', at

        if isinstance(n, ast.BinOp):
            return self.binop(n, env)
        if isinstance(n, ast.Compare):
            return self.compare(n, env)
        if isinstance(n, ast.JoinedStr):
            return self.fstring(n, env)
        if isinstance(n, ast.Subscript):
            return self.subscript(n, env)
        if isinstance(n, ast.Call):
            return self.call(n, env)
        raise bad(f'expression outside the subset: {ast.unparse(n)[:70]}')

    def binop(self, n, env):
        ctx = self.cur['ctx']
        bad = lambda msg: self.bad(n, f'{ctx}: {msg}')   # noqa: E731
        op = n.op
        # len(d) - len(d.lstrip('0'))
        if isinstance(op, ast.Sub):
            l, r = n.left, n.right
            if isinstance(l, ast.Call) and dotted(l.func) == 'len' and len(l.args) == 1 and not l.keywords and \
                    isinstance(r, ast.Call) and dotted(r.func) == 'len' and len(r.args) == 1 and not r.keywords:
                inner = r.args[0]
                if isinstance(inner, ast.Call) and isinstance(inner.func, ast.Attribute) and inner.func.attr == 'lstrip':
                    if not (len(inner.args) == 1 and not inner.keywords and isinstance(inner.args[0], ast.Constant) and inner.args[0].value == '0'
                            and ast.dump(inner.func.value) == ast.dump(l.args[0])):
                        raise bad(f'len(d) - len(d.lstrip(\'0\')) with two different d / another argument: {ast.unparse(n)}')
                    c, t = self.ex(l.args[0], env)
                    if t != 'dstr':
                        raise bad(f'leading zeros of a {t} (only of the digits after the point of a float text)')
                    return f'(leading_zeros {c})', 'Z'
        if isinstance(op, ast.Pow):
            if not (is_int(n.left) and n.left.value == 10):
                raise bad(f'power with a base other than the literal 10: {ast.unparse(n)}')
            c, t = self.ex(n.right, env)
            if t != 'Z':
                raise bad(f'10**k with k a {t}')
            return f'(fpow10 {c})', 'Q'
        a, at = self.ex(n.left, env)
        b, bt = self.ex(n.right, env)
        if isinstance(op, ast.Add) and at == 'label' and bt == 'label':
            return f'({a} ++ {b})', 'label'
        if isinstance(op, (ast.Add, ast.Sub, ast.Mult)):
            sym = {ast.Add: '+', ast.Sub: '-', ast.Mult: '*'}[type(op)]
            fn = {ast.Add: 'Qplus', ast.Sub: 'Qminus', ast.Mult: 'Qmult'}[type(op)]
            if at == 'Z' and bt == 'Z':
                return f'({a} {sym} {b})', 'Z'
            if at in ('Z', 'Q') and bt in ('Z', 'Q'):
                return f'({fn} {self.promote(a, at, n.left)} {self.promote(b, bt, n.right)})', 'Q'
            raise bad(f'{sym} of a {at} and a {bt}')
        if isinstance(op, ast.Div):
            if at in ('Z', 'Q') and bt in ('Z', 'Q'):
                return f'(Qdiv {self.promote(a, at, n.left)} {self.promote(b, bt, n.right)})', 'Q'
            raise bad(f'/ of a {at} and a {bt}')
        if isinstance(op, ast.FloorDiv):
            if at == 'Z' and bt == 'Z':
                return f'({a} / {b})', 'Z'
            raise bad(f'// of a {at} and a {bt} (ints only)')
        if isinstance(op, ast.Mod):
            if at == 'Z' and bt == 'Z':
                return f'({a} mod {b})', 'Z'
            if at == 'Q' and is_int(n.right) and n.right.value == 1:
                return f'(float_mod1 {a})', 'Q'
            raise bad(f'% of a {at} and a {bt} (ints, or float % 1)')
        raise bad(f'operator outside the subset: {ast.unparse(n)[:60]}')

    def compare(self, n, env):
        ctx = self.cur['ctx']
        bad = lambda msg: self.bad(n, f'{ctx}: {msg}')   # noqa: E731
        if len(n.ops) != 1:
            raise bad(f'chained comparison {ast.unparse(n)}')
        op, l, r = n.ops[0], n.left, n.comparators[0]
        # np.log10(x) <= INT
        if isinstance(l, ast.Call) and dotted(l.func) == 'np.log10':
            k = int_const(r)
            if not (isinstance(op, ast.LtE) and k is not None and len(l.args) == 1 and not l.keywords):
                raise bad(f'np.log10 outside `np.log10(x) <= INT`: {ast.unparse(n)}')
            c, t = self.ex(l.args[0], env)
            if t != 'Q':
                raise bad(f'np.log10 of a {t}')
            self.cur['ao'] = True
            return f'(ao_log10_le AO {c} {zlit(k)})', 'bool'
        a, at = self.ex(l, env)
        b, bt = self.ex(r, env)
        if isinstance(op, (ast.In, ast.NotIn)):
            if bt == 'table':
                b, bt = f'(tkeys {b})', 'keys'
            if at != 'Z' or bt != 'keys':
                raise bad(f'membership of a {at} in a {bt}')
            c = f'(keys_mem {a} {b})'
            return (c if isinstance(op, ast.In) else f'(negb {c})'), 'bool'
        if isinstance(op, (ast.Eq, ast.NotEq)) and {at, bt} == {'dstr', 'label'}:
            lit = r if bt == 'label' else l
            if not (isinstance(lit, ast.Constant) and lit.value == '0'):
                raise bad(f'digits after the point compared with something other than \'0\': {ast.unparse(n)}')
            c = f'(dstr_is_zero {a if at == "dstr" else b})'
            return (c if isinstance(op, ast.Eq) else f'(negb {c})'), 'bool'
        if isinstance(op, (ast.Eq, ast.NotEq)) and at == 'label' and bt == 'label':
            c = f'(label_eqb {a} {b})'
            return (c if isinstance(op, ast.Eq) else f'(negb {c})'), 'bool'
        if at in ('Z', 'Q') and bt in ('Z', 'Q'):
            if at == 'Z' and bt == 'Z':
                tab = {ast.Lt: '({a} <? {b})', ast.LtE: '({a} <=? {b})', ast.Gt: '({a} >? {b})', ast.GtE: '({a} >=? {b})',
                       ast.Eq: '({a} =? {b})', ast.NotEq: '(negb ({a} =? {b}))'}
            else:
                a, b = self.promote(a, at, l), self.promote(b, bt, r)
                tab = {ast.Lt: '(float_ltb {a} {b})', ast.LtE: '(float_leb {a} {b})', ast.Gt: '(float_ltb {b} {a})',
                       ast.GtE: '(float_leb {b} {a})', ast.Eq: '(float_eqb {a} {b})', ast.NotEq: '(negb (float_eqb {a} {b}))'}
            if type(op) not in tab:
                raise bad(f'comparison operator in {ast.unparse(n)}')
            return tab[type(op)].format(a=a, b=b), 'bool'
        raise bad(f'comparison of a {at} with a {bt}: {ast.unparse(n)[:60]}')

    def fstring(self, n, env):
        ctx = self.cur['ctx']
        bad = lambda msg: self.bad(n, f'{ctx}: {msg}')   # noqa: E731
        parts = []
        for v in n.values:
            if isinstance(v, ast.Constant) and isinstance(v.value, str):
                parts.append(self.K(v.value))
                continue
            if not isinstance(v, ast.FormattedValue) or v.conversion != -1:
                raise bad(f'f-string piece outside the subset: {ast.unparse(n)[:60]}')
            c, t = self.ex(v.value, env)
            spec = v.format_spec
            if spec is None:
                parts.append(self.to_str(c, t, v.value))
                continue
            sv = spec.values
            flat = sv[0].value if len(sv) == 1 and isinstance(sv[0], ast.Constant) else None
            if flat == 'd' and t == 'Z':
                parts.append(f'(zstr {c})')
            elif flat is not None and re.fullmatch(r'0[1-9][0-9]*d', flat) and t == 'Z':
                parts.append(f'(fmt_0wd {int(flat[1:-1])} {c})')
            elif flat is not None and re.fullmatch(r'\.[0-9]+f', flat) and t == 'Q':
                self.cur['ao'] = True
                parts.append(f'(ao_fmt_f AO {int(flat[1:-1])} {c})')
            elif len(sv) == 3 and isinstance(sv[0], ast.Constant) and sv[0].value == '0' and isinstance(sv[2], ast.Constant) and \
                    sv[2].value == 'd' and isinstance(sv[1], ast.FormattedValue) and sv[1].conversion == -1 and sv[1].format_spec is None and t == 'Z':
                w, wt = self.ex(sv[1].value, env)
                if wt != 'Z':
                    raise bad(f'width of type {wt} in a format specification')
                parts.append(f'(fmt_0wd {w} {c})')
            else:
                raise bad(f'format specification outside d / 0{{w}}d / .Nf for a {t}: {ast.unparse(v)[:60]}')
        if not parts:
            return self.K(''), 'label'
        if len(parts) == 1:
            return parts[0], 'label'
        return '(' + ' ++ '.join(parts) + ')', 'label'

    def to_str(self, c, t, n):
        """str(x) / f'{x}'"""
        if t == 'label':
            return c
        if t == 'Z':
            return f'(zstr {c})'
        if t.startswith('obj:'):
            cl = self.classes[t[4:]]
            dc, mm = cl.find('__str__')
            if dc is None or mm[1]:
                raise self.bad(n, f'{self.cur["ctx"]}: str() of a {cl.name}, which has no method __str__')
            return self.call_method(cl, '__str__', c, [], [], n)
        raise self.bad(n, f'{self.cur["ctx"]}: text of a {t} outside the subset: {ast.unparse(n)[:60]}')

    def subscript(self, n, env):
        ctx = self.cur['ctx']
        bad = lambda msg: self.bad(n, f'{ctx}: {msg}')   # noqa: E731
        v = n.value
        idx = int_const(n.slice)
        if isinstance(v, ast.Call) and isinstance(v.func, ast.Attribute) and v.func.attr == 'split':
            if not (len(v.args) == 1 and not v.keywords and isinstance(v.args[0], ast.Constant) and v.args[0].value == '.'):
                raise bad(f'split other than .split(\'.\'): {ast.unparse(n)}')
            c, t = self.ex(v.func.value, env)
            if t != 'fstr':
                raise bad(f'.split(\'.\') of a {t} (only of the text of a float)')
            if idx == 0:
                return f'(fs_pre {c})', 'label'
            if idx == -1:
                return f'(fs_post {c})', 'dstr'
            raise bad(f'.split(\'.\')[{ast.unparse(n.slice)}]: index other than 0 / -1')
        c, t = self.ex(v, env)
        if t == 'table':
            k, kt = self.ex(n.slice, env)
            if kt != 'Z':
                raise bad(f'dict index of type {kt}')
            return f'(dict_getitem {c} {k})', 'label'
        raise bad(f'subscript of a {t}: {ast.unparse(n)[:60]}')

    def call_method(self, cl, name, selfc, args, argtypes, at):
        info = self.method(cl, name, argtypes, at)
        if info is None:
            raise self.bad(at, f'{cl.name}.{name} cannot be typed')
        if info['ao']:
            self.cur['ao'] = True
        return '(' + ' '.join([info['coq']] + (['AO'] if info['ao'] else []) + [selfc] + args) + ')'

    def call(self, n, env):
        ctx = self.cur['ctx']
        bad = lambda msg: self.bad(n, f'{ctx}: {msg}')   # noqa: E731
        f = n.func
        for k in n.keywords:
            if k.arg is None:
                raise bad('** argument')
        for a in n.args:
            if isinstance(a, ast.Starred):
                raise bad('* argument')
        d = dotted(f)

        def args1(what):
            if len(n.args) != 1 or n.keywords:
                raise bad(f'{what} is not called with one positional argument: {ast.unparse(n)[:60]}')
            return self.ex(n.args[0], env)

        if isinstance(f, ast.Name):
            if f.id in env:
                raise bad(f'call of the local {f.id}')
            if f.id in self.cur['funcs']:
                info = self.cur['funcs'][f.id]
                if n.keywords or len(n.args) != len(info['params']):
                    raise bad(f'nested function {f.id} is not called with {len(info["params"])} positional arguments')
                cs = []
                for a, want in zip(n.args, info['params']):
                    c, t = self.ex(a, env)
                    if t != want:
                        raise bad(f'nested function {f.id} is given a {t} for a {want}')
                    cs.append(c)
                return '(' + ' '.join([info['coq']] + (['AO'] if info['ao'] else []) + ['self'] + cs) + ')', info['ret']
            if f.id in self.classes:
                return self.construct(self.classes[f.id], n, env)
            if f.id in ('abs',):
                c, t = args1('abs')
                return self.absolute(c, t, n)
            if f.id == 'len':
                c, t = args1('len')
                if t != 'label':
                    raise bad(f'len of a {t}' + (' (an infinite digit sequence; only len(d) - len(d.lstrip(\'0\')) is in the subset)' if t == 'dstr' else ''))
                return f'(str_len {c})', 'Z'
            if f.id == 'str':
                c, t = args1('str')
                if t == 'Q':
                    return f'(float_str {c})', 'fstr'
                return self.to_str(c, t, n.args[0]), 'label'
            if f.id == 'int':
                c, t = args1('int')
                if t == 'Z':
                    return c, 'Z'
                if t == 'Q':
                    return f'(float_int {c})', 'Z'
                raise bad(f'int of a {t}')
            if f.id == 'float':
                c, t = args1('float')
                if t in ('Z', 'Q'):
                    return self.promote(c, t, n.args[0]), 'Q'
                raise bad(f'float of a {t}')
            if f.id in ('max', 'min'):
                if n.keywords:
                    raise bad(f'{f.id} with keywords')
                if len(n.args) == 1:
                    c, t = self.ex(n.args[0], env)
                    if t == 'table':
                        c, t = f'(tkeys {c})', 'keys'
                    if t != 'keys':
                        raise bad(f'{f.id} of a {t}')
                    return f'(keys_{f.id} {c})', 'Z'
                if len(n.args) == 2:
                    a, at = self.ex(n.args[0], env)
                    b, bt = self.ex(n.args[1], env)
                    if at == 'Z' and bt == 'Z':
                        return f'(Z.{f.id} {a} {b})', 'Z'
                    raise bad(f'{f.id} of a {at} and a {bt} (ints only)')
                raise bad(f'{f.id} with {len(n.args)} arguments')
            raise bad(f'call of {f.id} outside the subset')

        if d is not None and d.startswith('np.'):
            fn = d[3:]
            if fn == 'abs':
                c, t = args1('np.abs')
                return self.absolute(c, t, n)
            if fn == 'floor':
                c, t = args1('np.floor')
                if t != 'Q':
                    raise bad(f'np.floor of a {t}')
                return f'(np_floor {c})', 'Z'
            if fn == 'round':
                kws = {k.arg: k.value for k in n.keywords}
                if len(kws) != len(n.keywords) or set(kws) - {'decimals'} or not 1 <= len(n.args) <= 2 or (len(n.args) == 2 and kws):
                    raise bad(f'np.round arguments: {ast.unparse(n)[:60]}')
                c, t = self.ex(n.args[0], env)
                if t != 'Q':
                    raise bad(f'np.round of a {t}')
                dn = n.args[1] if len(n.args) == 2 else kws.get('decimals')
                if dn is None:
                    return f'(np_round {c})', 'Z'
                dc, dt = self.ex(dn, env)
                if dt != 'Z':
                    raise bad(f'np.round(decimals=...) of type {dt}')
                return f'(np_round_decimals {c} {dc})', 'Q'
            if fn == 'angle':
                kws = {k.arg: k.value for k in n.keywords}
                if len(n.args) != 1 or set(kws) != {'deg'} or len(n.keywords) != 1:
                    raise bad(f'np.angle is not called as np.angle(z, deg=b): {ast.unparse(n)[:60]}')
                c, t = self.ex(n.args[0], env)
                b, bt = self.ex(kws['deg'], env)
                if t != 'C' or bt != 'bool':
                    raise bad(f'np.angle of a {t} with deg a {bt}')
                self.cur['ao'] = True
                return f'(ao_angle AO {c} {b})', 'Q'
            raise bad(f'numpy function {d} outside the subset (np.abs / np.round / np.floor / np.angle / np.log10(x) <= INT)')

        if isinstance(f, ast.Attribute):
            c, t = self.ex(f.value, env)
            if t.startswith('obj:'):
                cl = self.classes[t[4:]]
                dc, mm = cl.find(f.attr)
                if dc is None:
                    raise bad(f'{cl.name} has no method {f.attr}')
                if mm[1]:
                    raise bad(f'property {cl.name}.{f.attr} is called')
                if n.keywords:
                    raise bad(f'method {cl.name}.{f.attr} called with keywords')
                cs, ts = [], []
                for a in n.args:
                    ac, at = self.ex(a, env)
                    cs.append(ac)
                    ts.append(at)
                code = self.call_method(cl, f.attr, c, cs, ts, n)
                return code, self.compiled[(dc.name, f.attr)]['ret']
            if t == 'label' and f.attr == 'strip':
                if n.args or n.keywords:
                    raise bad('strip with arguments')
                return f'(str_strip {c})', 'label'
            if t == 'table' and f.attr == 'keys':
                if n.args or n.keywords:
                    raise bad('keys with arguments')
                return f'(tkeys {c})', 'keys'
            if t == 'table' and f.attr == 'get':
                if len(n.args) != 2 or n.keywords:
                    raise bad(f'dict.get is not called as get(key, default): {ast.unparse(n)[:60]}')
                k, kt = self.ex(n.args[0], env)
                dv, dt = self.ex(n.args[1], env)
                if kt != 'Z' or dt != 'label':
                    raise bad(f'dict.get(key: {kt}, default: {dt})')
                return f'(dict_get {c} {k} {dv})', 'label'
            raise bad(f'method .{f.attr} of a {t} outside the subset')
        raise bad(f'call outside the subset: {ast.unparse(n)[:60]}')

    def absolute(self, c, t, n):
        if t == 'Z':
            return f'(Z.abs {c})', 'Z'
        if t == 'Q':
            return f'(Qabs {c})', 'Q'
        if t == 'C':
            self.cur['ao'] = True
            return f'(ao_abs AO {c})', 'Q'
        raise self.bad(n, f'{self.cur["ctx"]}: abs of a {t}')

    def construct(self, cl, n, env):
        ctx = self.cur['ctx']
        bad = lambda msg: self.bad(n, f'{ctx}: {msg}')   # noqa: E731
        fields = cl.root.fields
        names = [f for f, _, _ in fields]
        given = {}
        if len(n.args) > len(fields):
            raise bad(f'{cl.name}(...): too many arguments')
        for nm, a in zip(names, n.args):
            given[nm] = a
        for k in n.keywords:
            if k.arg not in names or k.arg in given:
                raise bad(f'{cl.name}(...): keyword {k.arg}')
            given[k.arg] = k.value
        args = []
        for nm, t, dflt in fields:
            if nm in given:
                c, ct = self.ex(given[nm], env)
                if ct == 'Z' and t == 'Q':
                    c, ct = f'(inject_Z {c})', 'Q'
                if ct != t:
                    raise bad(f'{cl.name}({nm}=...) is given a {ct}, the field is a {t}')
                args.append(c)
            elif dflt is not None:
                args.append(f'g_{cl.root.name}_default_{nm}')
            else:
                raise bad(f'{cl.name}(...): required field {nm} missing')
        return f'(mk_{cl.root.name} ' + ' '.join(args) + ')', 'obj:' + cl.name

    # ---------------------------------------------------------------- driver
    def run(self):
        recs = self.records()
        for cl in self.order:
            for name in cl.methods:
                if (cl.name, name) not in self.compiled:
                    self.method(cl, name, None, cl.methods[name][0])
        for cl in self.order:
            for name, (m, _) in cl.methods.items():
                if (cl.name, name) not in self.compiled:
                    raise self.bad(m, f'{cl.name}.{name}: a parameter has no annotation and the method is not called from a translated method')
        head = ('(* GENERATED by tools/gen_format.py from Utils.py (FloatPrecision, Float3, ScientificFloat, ScientificComplex) — do not edit.\n'
                '   One definition per property / method, in the vocabulary of Model/FormatPrims.v; Theory/FormatGenThm.v proves them equal\n'
                '   to the hand-written model Model/Format.v (statements: Properties/C18c.v). *)\n'
                'From Coq Require Import List Bool ZArith NArith QArith Qabs.\n'
                'From CC Require Import Model.Network Model.Format Model.Annotation Model.FormatPrims.\n'
                'Import ListNotations.\nOpen Scope Z_scope.\n')
        parts = [head, '(* ---------- string literals of the source ---------- *)'] + self.K.definitions() + \
                ['', '(* ---------- the dataclasses and the defaults of their fields ---------- *)'] + recs + \
                ['', '(* ---------- properties and methods (callee first) ---------- *)'] + ['\n\n'.join(self.defs)]
        return '\n'.join(parts) + '\n'


def generate(src):
    return {'FormatGen.v': Gen(src).run()}
