#!/usr/bin/env python3
"""Mutation check of the drawing-layer translator (tools/gen_drawing.py) and of the equalities over its output
(Theory/DrawingGenThm.v, Properties/C13c.v).  For every edit below: copy the Python source tree, apply the edit to the COPY,
run all gen_*.py translators on the copy (as py2v.py does with VERIF_REPO), write the result into a private copy of coq/ and
rebuild Properties/C13c.vo there with `make -k`.  Reported per edit: refused by the translator (message), or the lemmas that
stop compiling, or `passes`.
usage: mutcheck_drawing.py [--src /repo/src/CircuitCalculator] [--work DIR] [--only NAME ...]"""
import argparse
import os
import re
import shutil
import subprocess
import sys

HERE = os.path.dirname(os.path.abspath(__file__))
sys.path.insert(0, HERE)
from v2lib import Unsupported  # noqa: E402
from mutcheck_transformers import apply_edits, enclosing, write_if_changed, generate_all  # noqa: E402

P = 'SimpleCircuit/DiagramParser.py'
T = 'SimpleCircuit/DiagramTranslator.py'
C = 'SimpleCircuit/CircuitComponentTranslators.py'
E = 'SimpleCircuit/Elements.py'
REV_V = 'V=element.V.real if not element.is_reverse else -element.V.real'
# (name, expectation, file, [(old, new, occurrence)])      occurrence: None = exactly once, int = that occurrence, 'all'
EDITS = [
    ('M01 closure loop: `elif n2 in` -> `if n2 in`', 'caught', P,
     [('                elif n2 in equal_electrical_potential_nodes:', '                if n2 in equal_electrical_potential_nodes:', None)]),
    ('M02 line_elements: `type(e) is elm.Line` -> isinstance(e, elm.Line)', 'caught', P,
     [('if type(e) is elm.Line]', 'if isinstance(e, elm.Line)]', None)]),
    ('M03 ground: `> 1` -> `>= 1`', 'caught', P, [('if len(ground_nodes) > 1:', 'if len(ground_nodes) >= 1:', None)]),
    ('M04 node_index = len(node_labels)+1 -> len(node_labels)', 'caught', P,
     [('node_index = len(node_labels)+1', 'node_index = len(node_labels)', None)]),
    ('M05 the `while str(node_index) in values` skip removed', 'caught', P,
     [('            while str(node_index) in node_labels.values():\n                node_index += 1\n', '', None)]),
    ('M06 node_label_mapping: get_nodes(e)[0] -> [1]', 'caught', P,
     [('self.unique_node_mapping[elm.get_nodes(e)[0]]', 'self.unique_node_mapping[elm.get_nodes(e)[1]]', None)]),
    ('M07 ground: get_nodes(ground_nodes[0])[0] -> [1]', 'caught', P,
     [('elm.get_nodes(ground_nodes[0])[0]', 'elm.get_nodes(ground_nodes[0])[1]', None)]),
    ('M08 dc_voltage_source_translator: reverse sign of V lost', 'caught', C, [(REV_V, 'V=element.V.real', 0)]),
    ("M09 all_nodes: 'start' anchors of the lines read as 'end'", 'caught', P,
     [("elm.round_node(e.absanchors['start']) for e in self.line_elements", "elm.round_node(e.absanchors['end']) for e in self.line_elements", None)]),
    ("M10 Elements.get_nodes: default n_labels ('end', 'start')", 'caught', E,
     [("n_labels: tuple[str, ...]=('start', 'end')", "n_labels: tuple[str, ...]=('end', 'start')", None)]),
    ('M11 table: elm.Lamp -> resistor_translator', 'caught', C, [('elm.Lamp : lamp_translator', 'elm.Lamp : resistor_translator', None)]),
    ('M12 complex_current_source_translator: terminals no longer swapped when reversed', 'caught', C,
     [('def complex_current_source_translator(element: elm.ComplexCurrentSource, nodes: tuple[str, ...]) -> ccp.Component:\n'
       '    return ccp.complex_current_source(\n        nodes=(nodes[0], nodes[1]) if not element.is_reverse else (nodes[1], nodes[0]),',
       'def complex_current_source_translator(element: elm.ComplexCurrentSource, nodes: tuple[str, ...]) -> ccp.Component:\n'
       '    return ccp.complex_current_source(\n        nodes=(nodes[0], nodes[1]),', None)]),
    ('M13 unique_nodes: nodes.add(node) removed', 'caught', P, [('                nodes.add(node)\n', '', None)]),
    ('M14 closure loop: old_length = 0 -> 1', 'caught', P, [('        old_length = 0\n', '        old_length = 1\n', None)]),
    ('M15 unique_node_mapping: identical_nodes.remove(n) removed', 'caught', P, [('            identical_nodes.remove(n)\n', '', None)]),
    ('M16 Elements.VoltageSource stores V unsigned', 'caught', E,
     [("        super().__init__(*args, reverse=not reverse, **kwargs)\n        self._V = V if not reverse else -V\n        label = dsp.print_real(V, unit='V'",
       "        super().__init__(*args, reverse=not reverse, **kwargs)\n        self._V = V\n        label = dsp.print_real(V, unit='V'", None)]),
    ('M17 __call__: except KeyError -> except IndexError', 'caught', T, [('        except KeyError:', '        except IndexError:', None)]),
    ('M18 _remove_none keeps the None entries', 'caught', T, [('if e is not None]', 'if e is None]', None)]),
    ('M19 ground: list(self.unique_nodes)[0] -> [1]', 'caught', P, [('list(self.unique_nodes)[0]', 'list(self.unique_nodes)[1]', None)]),
    ('M20 node_label_mapping: node_index incremented after every assignment', 'caught', P,
     [('            node_labels.update({p : str(node_index)})\n', '            node_labels.update({p : str(node_index)})\n            node_index += 1\n', None)]),
    ('M21 switch_translator: open and closed resistances exchanged', 'caught', C,
     [('R=inf)', 'R=1e-12)', None), ('id=element.name, R=1e-12)\n\ndef none', 'id=element.name, R=inf)\n\ndef none', None)]),
    ('M22 ac_voltage_source_translator: degree conversion of phi dropped', 'caught', C,
     [('phi=element.phi*pi/180 if element.deg else element.phi', 'phi=element.phi', 0)]),
    ('M23 unique_nodes: `.intersection(nodes)` dropped (remove raises KeyError)', 'caught', P,
     [('self._get_equal_electrical_potential_nodes(node).intersection(nodes)', 'self._get_equal_electrical_potential_nodes(node)', None)]),
    ('M24 node_elements: isinstance(e, elm.Node) -> isinstance(e, elm.LabelNode)', 'caught', P,
     [('if isinstance(e, elm.Node)]', 'if isinstance(e, elm.LabelNode)]', None)]),
    ('M25 unique_nodes iterates a copy bound to the same object (nodes = all = self.all_nodes)', 'caught', P,
     [('        nodes = self.all_nodes\n        for node in self.all_nodes:', '        all_nodes = self.all_nodes\n        nodes = all_nodes\n        for node in all_nodes:', None)]),
    ('M26 _get_node_index: lookups exchanged', 'caught', P,
     [('return self.node_label_mapping[self.unique_node_mapping[node]]', 'return self.unique_node_mapping[self.node_label_mapping[node]]', None)]),
    ('M27 circuit_translator uses the network translator map', 'caught', T,
     [('translator = DiagramTranslator(parser, circuit_translator_map)', 'translator = DiagramTranslator(parser, network_translator_map)', None)]),
    ('M28 Elements: Ground no longer derives from Node', 'caught', E, [('class Ground(Node):', 'class Ground(LabeledLine):', None)]),
    # ---- harmless rewrites
    ('H01 closure loop: the local set renamed', 'passes', P,
     [('        equal_electrical_potential_nodes = set([node])', '        found = set([node])', None),
      ('while len(equal_electrical_potential_nodes) > old_length', 'while len(found) > old_length', None),
      ('old_length = len(equal_electrical_potential_nodes)', 'old_length = len(found)', None),
      ('if n1 in equal_electrical_potential_nodes:\n                    equal_electrical_potential_nodes.add(n2)', 'if n1 in found:\n                    found.add(n2)', None),
      ('elif n2 in equal_electrical_potential_nodes:\n                    equal_electrical_potential_nodes.add(n1)', 'elif n2 in found:\n                    found.add(n1)', None),
      ('        return equal_electrical_potential_nodes', '        return found', None)]),
    ('H02 ground: `else:` after the returning branch dropped', 'passes', P,
     [('            return list(self.unique_nodes)[0]\n        else:\n            return elm.get_nodes(ground_nodes[0])[0]',
       '            return list(self.unique_nodes)[0]\n        return elm.get_nodes(ground_nodes[0])[0]', None)]),
    ('H03 dc_voltage_source_translator: keywords reordered', 'passes', C,
     [('        nodes=(nodes[0], nodes[1]) if not element.is_reverse else (nodes[1], nodes[0]),\n        id=element.name,\n        ' + REV_V + '\n',
       '        id=element.name,\n        nodes=(nodes[0], nodes[1]) if not element.is_reverse else (nodes[1], nodes[0]),\n        ' + REV_V + '\n', 0)]),
    ('H04 node_label_mapping: unlabeled_nodes inlined into the for', 'passes', P,
     [('        unlabeled_nodes = [p for p in self.unique_nodes if p not in node_labels.keys()]\n        for p in unlabeled_nodes:',
       '        for p in [p_ for p_ in self.unique_nodes if p_ not in node_labels.keys()]:', None)]),
    ('H05 closure loop: n1, n2 = get_nodes(line) -> two subscripts', 'passes', P,
     [('                n1, n2 = elm.get_nodes(line)\n', '                n1 = elm.get_nodes(line)[0]\n                n2 = elm.get_nodes(line)[1]\n', None)]),
    ('H06 _get_node_index: the inner lookup bound to a local first', 'passes', P,
     [('        return self.node_label_mapping[self.unique_node_mapping[node]]',
       '        labels = self.node_label_mapping\n        unique = self.unique_node_mapping[node]\n        return labels[unique]', None)]),
    ('H07 line_elements: comprehension variable renamed', 'passes', P,
     [('[e for e in self.all_elements if type(e) is elm.Line]', '[x for x in self.all_elements if type(x) is elm.Line]', None)]),
    ('H08 ground_translator: reversed-test written positively in dc_current_source_translator nodes', 'passes', C,
     [('def dc_current_source_translator(element: elm.CurrentSource, nodes: tuple[str, ...]) -> ccp.Component:\n    return ccp.dc_current_source(\n'
       '        nodes=(nodes[0], nodes[1]) if not element.is_reverse else (nodes[1], nodes[0]),',
       'def dc_current_source_translator(element: elm.CurrentSource, nodes: tuple[str, ...]) -> ccp.Component:\n    return ccp.dc_current_source(\n'
       '        nodes=(nodes[1], nodes[0]) if element.is_reverse else (nodes[0], nodes[1]),', None)]),
    ('H09 ground: len(ground_nodes) == 0 tested first, then > 1', 'passes', P,
     [('        if len(ground_nodes) > 1:\n            raise MultipleGroundNodes\n        if len(ground_nodes) == 0:\n            return list(self.unique_nodes)[0]\n        else:\n            return elm.get_nodes(ground_nodes[0])[0]',
       '        if len(ground_nodes) == 0:\n            return list(self.unique_nodes)[0]\n        if len(ground_nodes) > 1:\n            raise MultipleGroundNodes\n        return elm.get_nodes(ground_nodes[0])[0]', None)]),
]


def main():
    ap = argparse.ArgumentParser()
    ap.add_argument('--src', default=os.path.join(os.environ.get('VERIF_REPO', '/repo'), 'src', 'CircuitCalculator'))
    ap.add_argument('--work', default='/tmp/mutcheck_drawing')
    ap.add_argument('--only', nargs='*')
    a = ap.parse_args()
    coq0 = os.path.join(os.path.dirname(HERE), 'coq')
    coq = os.path.join(a.work, 'coq')
    if not os.path.isdir(coq):
        os.makedirs(a.work, exist_ok=True)
        shutil.copytree(coq0, coq)          # compiled copy; rebuilt incrementally
    rows = []
    for name, expect, rel, edits in EDITS + [('(restore: unmodified source)', 'passes', P, [])]:
        if a.only and not any(name.startswith(o) for o in a.only) and edits:
            continue
        srcm = os.path.join(a.work, 'repo', 'src', 'CircuitCalculator')
        shutil.rmtree(os.path.join(a.work, 'repo'), ignore_errors=True)
        shutil.copytree(a.src, srcm)
        p = os.path.join(srcm, *rel.split('/'))
        write_if_changed(p, apply_edits(open(p, encoding='utf-8').read(), edits, name))
        try:
            files = generate_all(srcm)
        except Unsupported as e:
            msg = str(e).replace(srcm + '/', '')
            rows.append((name, expect, 'caught', 'translator refuses: ' + msg))
            print(rows[-1], flush=True)
            continue
        for fn, text in files.items():
            write_if_changed(os.path.join(coq, 'Gen', fn), text)
        r = subprocess.run(['timeout', '1800', 'make', '-k', '-j4', 'Properties/C13c.vo'], cwd=coq, capture_output=True, text=True)
        errs = []
        for m in re.finditer(r'File "\./([^"]+)", line (\d+)', r.stdout + r.stderr):
            lemma = enclosing(os.path.join(coq, m.group(1)), int(m.group(2)))
            errs.append(f'{m.group(1)}: {lemma}')
        if r.returncode == 0 and not errs:
            rows.append((name, expect, 'passes', 'Theory/DrawingGenThm.v and Properties/C13c.v compile'))
        else:
            rows.append((name, expect, 'caught', 'stops compiling: ' + '; '.join(dict.fromkeys(errs)) if errs
                         else 'make failed: ' + (r.stderr.strip().splitlines() or ['?'])[-1]))
        print(rows[-1], flush=True)
    print()
    bad = 0
    for name, expect, got, detail in rows:
        flag = '' if expect == got else '   <-- UNEXPECTED'
        bad += expect != got
        print(f'{name}\n    {got}: {detail}{flag}')
    return 1 if bad else 0


if __name__ == '__main__':
    sys.exit(main())
