#!/usr/bin/env python3
"""Automatic mutation sweep for tools/gen_network.py: every single-node AST mutant (operator swaps, attribute swaps,
constant changes, negation removal, statement deletion, swap of adjacent statements, keyword-value swaps) of the translated
parts of the six source files.  For each mutant: `refused` (translator raises), `same-text` (Gen/NetworkGen.v unchanged: the
edit is invisible to the proofs — must be justified), `broken` (a proof stops compiling) or `survives` (compiles: must be
a semantically equivalent edit).  Usage: /venv/bin/python tools/mutsweep_network.py [--no-compile]"""
import ast
import copy
import os
import shutil
import subprocess
import sys
import tempfile

HERE = os.path.dirname(os.path.abspath(__file__))
sys.path.insert(0, HERE)
import gen_network as G  # noqa: E402
from v2lib import Unsupported  # noqa: E402

VERIF = os.path.dirname(HERE)
REPO = os.environ.get('VERIF_REPO', '/repo')
CHAIN = ['Gen/NetworkGen.v', 'Theory/NetworkGenThm.v', 'Properties/C01c.v', 'Properties/C16c.v']
ATTR_SWAP = {'Z': ['Y', 'V'], 'Y': ['Z', 'I'], 'V': ['I', 'Z'], 'I': ['V', 'Y'], 'node1': ['node2'], 'node2': ['node1'],
             'branches': [], 'node_zero_label': [], 'name': ['type']}


def skipped(key, stack):
    """is the node inside a part the translator deliberately does not translate?"""
    names = [n.name for n in stack if isinstance(n, (ast.FunctionDef, ast.ClassDef))]
    if not names:
        return True     # module level (imports, aliases): not mutated here
    top = stack_top(stack)
    if isinstance(top, ast.FunctionDef):
        return top.name in G.SKIP_FUNCS[key]
    if top.name in G.SKIP_CLASSES.get(key, ()) or top.name == G.PROTOCOL:
        return True
    if top.name not in G.RECORDS and top.name not in (G.SOL_BASE, G.SOL_SUB):
        return True     # exception classes
    meth = [n for n in stack if isinstance(n, ast.FunctionDef)]
    if not meth:
        return True     # field declarations
    if meth[0].name in G.SKIP_METHODS.get(top.name, ()):
        return True
    if any(isinstance(d, ast.Name) and d.id == 'abstractmethod' for d in meth[0].decorator_list):
        return True
    return False


def stack_top(stack):
    return [n for n in stack if isinstance(n, (ast.FunctionDef, ast.ClassDef))][0]


def mutants(tree, key):
    """yield (description, mutated tree)"""
    sites = []

    def walk(node, stack):
        for field, value in ast.iter_fields(node):
            if isinstance(value, list):
                for i, x in enumerate(value):
                    if isinstance(x, ast.AST):
                        visit(x, stack, (node, field, i))
            elif isinstance(value, ast.AST):
                visit(value, stack, (node, field, None))

    def visit(node, stack, slot):
        st = stack + [node]
        if not skipped(key, st):
            sites.append((node, slot, st))
        walk(node, st)

    walk(tree, [])
    idx = {id(n): k for k, (n, _, _) in enumerate(sites)}

    def variant(k, fn, what):
        t = copy.deepcopy(tree)
        # relocate the k-th site in the copy (same traversal order)
        sites2 = []

        def walk2(node, stack):
            for field, value in ast.iter_fields(node):
                if isinstance(value, list):
                    for i, x in enumerate(value):
                        if isinstance(x, ast.AST):
                            visit2(x, stack, (node, field, i))
                elif isinstance(value, ast.AST):
                    visit2(value, stack, (node, field, None))

        def visit2(node, stack, slot):
            st = stack + [node]
            if not skipped(key, st):
                sites2.append((node, slot, st))
            walk2(node, st)
        walk2(t, [])
        n2, slot2, _ = sites2[k]
        if fn(n2, slot2) is False:
            return None
        ast.fix_missing_locations(t)
        return what, t

    for k, (n, slot, st) in enumerate(sites):
        where = f'{key}.py:{getattr(n, "lineno", "?")} in {stack_top(st).name}'
        if isinstance(n, ast.Compare) and len(n.ops) == 1:
            swaps = {ast.Eq: ast.NotEq, ast.NotEq: ast.Eq, ast.Gt: ast.GtE, ast.GtE: ast.Gt, ast.In: ast.NotIn,
                     ast.NotIn: ast.In, ast.IsNot: ast.Is}
            o = type(n.ops[0])
            if o in swaps:
                yield variant(k, lambda m, s, o=o: m.ops.__setitem__(0, swaps[o]()), f'{where}: {o.__name__} -> {swaps[o].__name__} in `{ast.unparse(n)}`')
            if isinstance(n.ops[0], (ast.Eq, ast.NotEq)):
                def sw(m, s):
                    m.left, m.comparators[0] = m.comparators[0], m.left
                yield variant(k, sw, f'{where}: operands of `{ast.unparse(n)}` swapped  [EQUIV?]')
        if isinstance(n, ast.BoolOp):
            o = type(n.op)
            new = ast.Or if o is ast.And else ast.And
            yield variant(k, lambda m, s, new=new: setattr(m, 'op', new()), f'{where}: {o.__name__} -> {new.__name__} in `{ast.unparse(n)}`')
        if isinstance(n, ast.UnaryOp):
            def drop(m, s):
                parent, field, i = s
                if i is None:
                    setattr(parent, field, m.operand)
                else:
                    getattr(parent, field)[i] = m.operand
            yield variant(k, drop, f'{where}: `{ast.unparse(n)}` -> `{ast.unparse(n.operand)}`')
        if isinstance(n, ast.BinOp):
            swaps = {ast.Add: ast.Sub, ast.Sub: ast.Add, ast.Div: ast.Mult, ast.Mult: ast.Div}
            o = type(n.op)
            if o in swaps:
                yield variant(k, lambda m, s, o=o: setattr(m, 'op', swaps[o]()), f'{where}: {o.__name__} -> {swaps[o].__name__} in `{ast.unparse(n)}`')

            def swb(m, s):
                m.left, m.right = m.right, m.left
            yield variant(k, swb, f'{where}: operands of `{ast.unparse(n)}` swapped')
        if isinstance(n, ast.Attribute) and n.attr in ATTR_SWAP:
            for a in ATTR_SWAP[n.attr]:
                yield variant(k, lambda m, s, a=a: setattr(m, 'attr', a), f'{where}: `{ast.unparse(n)}` -> .{a}')
        if isinstance(n, ast.Constant) and type(n.value) is int:
            yield variant(k, lambda m, s: setattr(m, 'value', 1 - m.value if m.value in (0, 1) else 0), f'{where}: constant {n.value} changed')
        if isinstance(n, ast.Constant) and type(n.value) is str and not (isinstance(slot[0], ast.Expr)):
            yield variant(k, lambda m, s: setattr(m, 'value', m.value + '_'), f'{where}: string {n.value!r} changed')
        if isinstance(n, ast.Constant) and type(n.value) is bool:
            yield variant(k, lambda m, s: setattr(m, 'value', not m.value), f'{where}: {n.value} flipped')
        if isinstance(n, ast.IfExp):
            def swi(m, s):
                m.body, m.orelse = m.orelse, m.body
            yield variant(k, swi, f'{where}: branches of `{ast.unparse(n)}` swapped')
        if isinstance(n, ast.Call) and len(n.keywords) >= 2:
            for i in range(len(n.keywords) - 1):
                def swk(m, s, i=i):
                    m.keywords[i].value, m.keywords[i + 1].value = m.keywords[i + 1].value, m.keywords[i].value
                yield variant(k, swk, f'{where}: values of keywords {n.keywords[i].arg}/{n.keywords[i+1].arg} swapped in `{ast.unparse(n)}`')
        if isinstance(n, ast.Call) and len(n.args) >= 2:
            def swa(m, s):
                m.args[0], m.args[1] = m.args[1], m.args[0]
            yield variant(k, swa, f'{where}: first two arguments swapped in `{ast.unparse(n)}`')
        if isinstance(n, ast.Name) and isinstance(n.ctx, ast.Load) and n.id in ('an', 'rn', 'phi1', 'phi2', 'node1', 'node2'):
            other = {'an': 'rn', 'rn': 'an', 'phi1': 'phi2', 'phi2': 'phi1', 'node1': 'node2', 'node2': 'node1'}[n.id]
            yield variant(k, lambda m, s, other=other: setattr(m, 'id', other), f'{where}: name {n.id} -> {other}')
        if isinstance(n, ast.stmt) and slot[2] is not None and not isinstance(n, (ast.FunctionDef, ast.ClassDef)):
            body = getattr(slot[0], slot[1])
            if len(body) > 1:
                def dele(m, s):
                    getattr(s[0], s[1]).pop(s[2])
                yield variant(k, dele, f'{where}: statement `{ast.unparse(n).splitlines()[0][:60]}` deleted')
                if slot[2] + 1 < len(body) and not isinstance(body[slot[2] + 1], (ast.FunctionDef, ast.ClassDef)):
                    def swp(m, s):
                        b = getattr(s[0], s[1])
                        b[s[2]], b[s[2] + 1] = b[s[2] + 1], b[s[2]]
                    yield variant(k, swp, f'{where}: statement `{ast.unparse(n).splitlines()[0][:50]}` swapped with the next')
        if isinstance(n, ast.If) and not n.orelse:
            def neg(m, s):
                m.test = ast.UnaryOp(op=ast.Not(), operand=m.test)
            yield variant(k, neg, f'{where}: condition `{ast.unparse(n.test)[:60]}` negated')


def main():
    compile_ = '--no-compile' not in sys.argv
    work = tempfile.mkdtemp(prefix='mutsweep_')
    scratch = os.path.join(work, 'coq')
    shutil.copytree(os.path.join(VERIF, 'coq'), scratch, ignore=shutil.ignore_patterns('Extract', '*.glob', '*.cache'))
    base_src = os.path.join(REPO, 'src', 'CircuitCalculator')
    baseline = G.generate(base_src)['NetworkGen.v']
    src = os.path.join(work, 'CircuitCalculator')
    shutil.copytree(base_src, src)
    counts = {}
    for key, rel, _ in G.FILES:
        path = os.path.join(src, *rel)
        orig = open(path, encoding='utf-8').read()
        tree = ast.parse(orig)
        for mv in mutants(tree, key):
            if mv is None:
                continue
            what, t = mv
            try:
                text = ast.unparse(t)
                ast.parse(text)
            except Exception:
                continue
            open(path, 'w', encoding='utf-8').write(text)
            try:
                out = G.generate(src)['NetworkGen.v']
                if out == baseline:
                    res = 'same-text'
                elif not compile_:
                    res = 'differs'
                else:
                    open(os.path.join(scratch, 'Gen', 'NetworkGen.v'), 'w', encoding='utf-8').write(out)
                    res = 'survives'
                    for v in CHAIN:
                        r = subprocess.run(['timeout', '600', 'coqc', '-Q', '.', 'CC', v], cwd=scratch, capture_output=True, text=True)
                        if r.returncode != 0:
                            res = 'broken'
                            break
            except Unsupported as e:
                res = 'refused'
            counts[res] = counts.get(res, 0) + 1
            if res in ('same-text', 'survives'):
                print(f'{res.upper():10} {what}', flush=True)
        open(path, 'w', encoding='utf-8').write(orig)
    shutil.rmtree(work, ignore_errors=True)
    print('totals:', counts)


if __name__ == '__main__':
    main()
