#!/usr/bin/env python3
"""Mutation check of the constructs tools/gen_transformers.py and tools/gen_tables.py accept since their subsets were widened
for the maintainer-style refactorings H15 (Circuit/transformers.py: numeric helpers _is_other_frequency / _harmonic_offset,
inlined at their call sites) and H16 (Circuit/components.py: guard helper _require_not_negative), and of the theorems over their
output (Theory/TransformersGen.v, Properties/C07c.v, C07.v, C07b.v; Properties/C17.v, C19.v, C19c.v, Theory/LoadersThm.v,
Theory/LoadersGenThm.v).
Same machinery as tools/mutcheck_robust.py (base patch harmless/H*/patch.diff, then the edit, then all gen_*.py, then `make -k`
of the targets in a private copy of coq/).  Expectation: every semantic edit of the refactored sources is `caught`, the
refactorings themselves `pass`.  The drivers of the unrefactored sources are tools/mutcheck_transformers.py (gen_transformers)
and tools/mutcheck_loaders.py (gen_tables + gen_loaders).
usage: mutcheck_robe.py [--repo /repo] [--harmless DIR] [--work DIR] [--only NAME ...]"""
import os
import sys

HERE = os.path.dirname(os.path.abspath(__file__))
sys.path.insert(0, HERE)
import mutcheck_robust as drv  # noqa: E402

TR = 'Circuit/transformers.py'
CP = 'Circuit/components.py'
IOF = 'return np.abs(w-source_w) > w_resolution'

drv.TARGETS = ['Properties/C07c.vo', 'Properties/C07.vo', 'Properties/C07b.vo', 'Properties/C17.vo', 'Properties/C19.vo',
               'Properties/C19c.vo', 'Theory/LoadersThm.vo', 'Theory/LoadersGenThm.vo']
# (name, expectation, base patch or None, [(file, old, new, occurrence index | None = exactly once)])
drv.EDITS = [
    # ---------------- Circuit/transformers.py refactored by H15
    ('T00 H15 itself', 'passes', 'H15', []),
    ('T01 H15 _is_other_frequency: `>` -> `>=`', 'caught', 'H15', [(TR, IOF, 'return np.abs(w-source_w) >= w_resolution', None)]),
    ('T02 H15 _is_other_frequency: w+source_w', 'caught', 'H15', [(TR, IOF, 'return np.abs(w+source_w) > w_resolution', None)]),
    ('T03 H15 _is_other_frequency: np.abs dropped', 'caught', 'H15', [(TR, IOF, 'return w-source_w > w_resolution', None)]),
    ('T04 H15 _is_other_frequency: compares with the source frequency', 'caught', 'H15',
     [(TR, IOF, 'return np.abs(w-w_resolution) > source_w', None)]),
    ('T05 H15 dc_current_source: helper arguments swapped', 'caught', 'H15',
     [(TR, 'if _is_other_frequency(w, cs_w, w_resolution):', 'if _is_other_frequency(w, w_resolution, cs_w):', 0)]),
    ('T06 H15 ac_voltage_source: helper called with w twice', 'caught', 'H15',
     [(TR, "if _is_other_frequency(w, float(voltage_source.value['w']), w_resolution):", 'if _is_other_frequency(w, w, w_resolution):', 1)]),
    ('T07 H15 _harmonic_offset: np.round -> np.floor', 'caught', 'H15', [(TR, 'n = np.round(ratio)', 'n = np.floor(ratio)', None)]),
    ('T08 H15 _harmonic_offset: ratio + n', 'caught', 'H15', [(TR, 'return n, np.abs(ratio - n)', 'return n, np.abs(ratio + n)', None)]),
    ('T09 H15 _harmonic_offset: components swapped', 'caught', 'H15', [(TR, 'return n, np.abs(ratio - n)', 'return np.abs(ratio - n), n', None)]),
    ('T10 H15 _harmonic_offset: ratio = w0/w', 'caught', 'H15', [(TR, 'ratio = w/w0', 'ratio = w0/w', None)]),
    ('T11 H15 periodic_voltage_source: _harmonic_offset(w0, w)', 'caught', 'H15',
     [(TR, 'n, delta_n = _harmonic_offset(w, w0)', 'n, delta_n = _harmonic_offset(w0, w)', 0)]),
    ('T12 H15 _harmonic_offset: rounds w instead of the ratio', 'caught', 'H15', [(TR, 'n = np.round(ratio)', 'n = np.round(w)', None)]),
    ('T13 H15 periodic_current_source: targets swapped', 'caught', 'H15',
     [(TR, 'n, delta_n = _harmonic_offset(w, w0)', 'delta_n, n = _harmonic_offset(w, w0)', 1)]),
    ('T14 H15 _harmonic_offset: the offset is taken from the ratio of w_resolution', 'caught', 'H15',
     [(TR, 'n, delta_n = _harmonic_offset(w, w0)', 'n, delta_n = _harmonic_offset(w_resolution, w0)', 0)]),
    ('T15 H15 _is_other_frequency redefined later with `>=` (last definition wins in Python)', 'caught', 'H15',
     [(TR, 'def resistor(resistor: ccp.Component, *_) -> ntw.Branch:',
       'def _is_other_frequency(w, source_w, w_resolution):\n    return np.abs(w-source_w) >= w_resolution\n\n'
       'def resistor(resistor: ccp.Component, *_) -> ntw.Branch:', None)]),
    ('T16 H15 _is_other_frequency: the result is negated', 'caught', 'H15', [(TR, IOF, 'return not (np.abs(w-source_w) > w_resolution)', None)]),
    ('T17 H15 _is_other_frequency: w_resolution gets a default and is not passed', 'caught', 'H15',
     [(TR, 'def _is_other_frequency(w: float, source_w: float, w_resolution: float):', 'def _is_other_frequency(w: float, source_w: float, w_resolution: float = 0):', None),
      (TR, 'if _is_other_frequency(w, cs_w, w_resolution):', 'if _is_other_frequency(w, cs_w):', 0)]),
    ('T18 H15 dc_voltage_source: helper called on the negated branch (element kept off-frequency)', 'caught', 'H15',
     [(TR, "if _is_other_frequency(w, float(voltage_source.value['w']), w_resolution):\n        element = elm.short_circuit(voltage_source.id)",
       "if _is_other_frequency(w, float(voltage_source.value['w']), w_resolution):\n        element = element", 0)]),
    ('T19 H15 a helper nobody calls is added', 'caught', 'H15',
     [(TR, 'def resistor(resistor: ccp.Component, *_) -> ntw.Branch:',
       'def _unused(w):\n    return w\n\ndef resistor(resistor: ccp.Component, *_) -> ntw.Branch:', None)]),
    # ---------------- Circuit/components.py, unrefactored (controls: the theorems over the guard table do catch a changed table)
    ('G00 dc_voltage_source: the guard on R removed', 'caught', None,
     [(CP, "def dc_voltage_source(id: str, nodes: tuple[str, str], V: float, R: float = 0) -> Component:\n    if R < 0:\n        raise ValueError('R must be greater than zero.')\n",
       "def dc_voltage_source(id: str, nodes: tuple[str, str], V: float, R: float = 0) -> Component:\n", None)]),
    # ---------------- Circuit/components.py refactored by H16
    ('G01 H16 itself', 'passes', 'H16', []),
    ('G02 H16 _require_not_negative: `<` -> `<=`', 'caught', 'H16', [(CP, '    if value < 0:\n        raise ValueError(f', '    if value <= 0:\n        raise ValueError(f', None)]),
    ('G03 H16 _require_not_negative: `<` -> `>`', 'caught', 'H16', [(CP, '    if value < 0:\n        raise ValueError(f', '    if value > 0:\n        raise ValueError(f', None)]),
    ('G04 H16 _require_not_negative: tests the symbol', 'caught', 'H16', [(CP, '    if value < 0:\n        raise ValueError(f', '    if symbol < 0:\n        raise ValueError(f', None)]),
    ('G05 H16 _require_not_negative: raises TypeError', 'caught', 'H16', [(CP, "        raise ValueError(f'{symbol} must", "        raise TypeError(f'{symbol} must", None)]),
    ('G06 H16 _require_not_negative: compares with 1', 'caught', 'H16', [(CP, '    if value < 0:\n        raise ValueError(f', '    if value < 1:\n        raise ValueError(f', None)]),
    ('G07 H16 _require_not_negative: only warns (returns instead of raising)', 'caught', 'H16',
     [(CP, "        raise ValueError(f'{symbol} must be greater than zero.')", "        return None", None)]),
    ('G08 H16 _require_not_negative: takes the absolute value first', 'caught', 'H16',
     [(CP, '    if value < 0:\n        raise ValueError(f', '    value = abs(value)\n    if value < 0:\n        raise ValueError(f', None)]),
    ('G09 H16 dc_voltage_source: the helper checks V', 'caught', 'H16',
     [(CP, "Component:\n    _require_not_negative('R', R)\n    return Component(\n        type='dc_voltage_source'", "Component:\n    _require_not_negative('R', V)\n    return Component(\n        type='dc_voltage_source'", None)]),
    ('G10 H16 dc_current_source: the check is dropped', 'caught', 'H16',
     [(CP, "Component:\n    _require_not_negative('G', G)\n    return Component(\n        type='dc_current_source'", "Component:\n    return Component(\n        type='dc_current_source'", None)]),
    ('G11 H16 ac_voltage_source: the check of w is dropped', 'caught', 'H16',
     [(CP, "    _require_not_negative('R', R)\n    _require_not_negative('w', w)\n    return Component(\n        type='ac_voltage_source'", "    _require_not_negative('R', R)\n    return Component(\n        type='ac_voltage_source'", None)]),
    ('G12 H16 periodic_current_source: checks phi instead of w', 'caught', 'H16',
     [(CP, "    _require_not_negative('G', G)\n    _require_not_negative('w', w)\n    return Component(\n        type='periodic_current_source'", "    _require_not_negative('G', G)\n    _require_not_negative('w', phi)\n    return Component(\n        type='periodic_current_source'", None)]),
    ('G13 H16 ac_current_source: helper arguments swapped', 'caught', 'H16',
     [(CP, "    _require_not_negative('G', G)\n    _require_not_negative('w', w)\n    return Component(\n        type='ac_current_source'", "    _require_not_negative(G, 'G')\n    _require_not_negative('w', w)\n    return Component(\n        type='ac_current_source'", None)]),
    ('G14 H16 ac_current_source: the helper checks -w', 'caught', 'H16',
     [(CP, "    _require_not_negative('G', G)\n    _require_not_negative('w', w)\n    return Component(\n        type='ac_current_source'", "    _require_not_negative('G', G)\n    _require_not_negative('w', -w)\n    return Component(\n        type='ac_current_source'", None)]),
    ('G15 H16 _require_not_negative redefined later as a no-op (last definition wins in Python)', 'caught', 'H16',
     [(CP, 'def resistor(id: str, nodes: tuple[str, str], R: float) -> Component:',
       'def _require_not_negative(symbol, value):\n    if value < 0:\n        raise ValueError(symbol)\n\ndef resistor(id: str, nodes: tuple[str, str], R: float) -> Component:', None)]),
    ('G16 H16 dc_voltage_source: the helper result is used as a condition (check no longer a statement)', 'caught', 'H16',
     [(CP, "Component:\n    _require_not_negative('R', R)\n    return Component(\n        type='dc_voltage_source'", "Component:\n    if _require_not_negative('R', R):\n        raise ValueError('R')\n    return Component(\n        type='dc_voltage_source'", None)]),
    ('G17 H16 resistor: a check of a new parameter kind through the helper (guard table grows)', 'caught', 'H16',
     [(CP, "def resistor(id: str, nodes: tuple[str, str], R: float) -> Component:\n    if R < 0:", "def resistor(id: str, nodes: tuple[str, str], R: float) -> Component:\n    _require_not_negative('id', id)\n    if R < 0:", None)]),
]

if __name__ == '__main__':
    sys.exit(drv.main())
