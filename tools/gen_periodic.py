"""Fail-closed translator  SignalProcessing/periodic_functions.py  ->  coq/Gen/Periodic.v   (property C08).

What is translated (as Gallina terms generic over the record `rops` of Model/Rops.v):
  * for every time-function class K listed as a key of `fourier_series_mapping`:
      - `<wavetype>_time  O s_period s_amplitude s_phase s_offset : RT O -> RT O`   from `K.time_function`
      - `<wavetype>_amplitude O s_amplitude0 s_phase0 s_offset0 (n : Z) : RT O`     from `_amplitude_coefficient`
      - `<wavetype>_phase     O s_amplitude0 s_phase0 s_offset0 (n : Z) : RT O`     from `_phase_coefficient`
        of the harmonics class `fourier_series_mapping[K]`
  * the generic methods of AbstractHarmonicCoefficients, each as a function of the two abstract methods
    (`m_amplitude_coefficient m_phase_coefficient : Z -> RT O`, i.e. `self._amplitude_coefficient`, `self._phase_coefficient`):
      - `abstract_amplitude`, `abstract_phase`, `abstract_a`, `abstract_b : .. -> Z -> RT O`
      - `abstract_c : .. -> Z -> RT O * RT O`      (a complex number is the pair (re, im))
    Theory/PeriodicGenThm.v / Properties/C08c.v prove them equal to amplitude / phase / coef_a / coef_b / coef_c of
    Model/Harmonics.v.  `amplitude` and `phase` may call only the two abstract methods; `a`, `b`, `c` may also call
    `amplitude` and `phase` (no recursion).
  * `periodic_function(wavetype)` as `lookup_periodic_function : list N -> N + list N`  (inl class index | inr name of the
    exception class raised), proved equal to periodic_function of Model/Harmonics.v.  Two shapes are accepted:
        try: return [pf for pf in periodic_functions if pf.wavetype == wavetype][0]          (head of the filtered list,
        except IndexError: raise E(<message>)                                                 E when it is empty)
      and
        for pf in periodic_functions:                                                        (List.find)
            if pf.wavetype == wavetype: return pf
        raise E(<message>)
    `pf.wavetype` is the dataclass default of the class (table `wavetypes`); the message text is not modelled.
  * the tables `time_classes`, `harmonics_classes`, `wavetypes`, `harmonics_of`, `periodic_functions` and the
    dispatch functions `time_function`, `amplitude_coefficient`, `phase_coefficient` (class index -> term).
What is NOT translated but *pinned* (the hand-written model Model/Harmonics.v mirrors these; any change of their AST makes
the translator fail, hence the build): the dataclass header, the three fields and the two @abstractmethod stubs of
`AbstractHarmonicCoefficients`; `fourier_series`; the assignment `periodic_functions = list(fourier_series_mapping.keys())`.

Accepted Python subset (everything else raises v2lib.Unsupported naming file:line and the construct):
  statements   a BLOCK is   ( `<name> = <expr>`  |  `if <cmp>: BLOCK` )*  `return <expr>`
               (single assignment, no shadowing; an `if` has no `else` and its body is itself a block, i.e. returns on every
               path, so the statements after it are its else-branch; nothing may follow a `return`).
               coefficient methods and the generic methods amplitude / phase / a / b / c:  a block, one int parameter
               time_function:  ( `<name> = <expr>` | `<name> = lambda <x>: <expr>` | `def <name>(<x>[: T]) [-> T]: BLOCK` )*
                               `return F`  |  `return np.vectorize(F)`     with F a `lambda <x>: <expr>` or the name of a local
                               function defined before (a local `def` or a lambda binding; it is not recursive, it sees the
                               enclosing locals bound before it and `self`, and its own locals are not visible outside)
  expressions  int and float constants; parameter names; local bindings; `self.<dataclass float field>`; `np.pi`;
               unary `-`; binary `+ - * /` (`/` is always real division; int (op) int stays an integer for `+ - *`);
               `%` (Z.modulo on two ints, `rmod` otherwise); `np.cos(e)`, `np.sin(e)`, `np.mod(e1, e2)`;
               `np.ones(<lambda-var>.shape)` (read as 1); call of a local function with one argument;
               conditional expression `a if c else b` (c a comparison or a local bound to one);
               comparison with ONE operator: ints `== != < <= > >=`, reals `< <= > >=`; a local may be bound to a comparison.
               in the generic methods only:  `self.<method>(<int expr>)`;  the literal `1j`, `-<unit>`, `<unit> if c else <unit>`
               (a unit is +1j or -1j; Coq: a bool, true = -1j);  `<unit> * <real>` / `<real> * <unit>` (purely imaginary: the
               real y resp. `ropp y`);  `np.exp(<purely imaginary>)` = (rcos y, rsin y);  `<real> * <complex>` = the pair
               scaled componentwise (signed zeros / inf / nan of the float arithmetic are not modelled).
An integer expression used where a real is needed is coerced with `rofZ`.
"""
import ast
import os
import re

from v2lib import Unsupported, parse, where, coq_string_codes, module_assign, classes, functions

REL = os.path.join('SignalProcessing', 'periodic_functions.py')
TIME_FIELDS = ['period', 'amplitude', 'phase', 'offset']      # float fields of every time-function dataclass
ABSTRACT = 'AbstractHarmonicCoefficients'

# ---- pinned (hand-modelled) definitions: Model/Harmonics.v mirrors exactly this text --------------------------------
# AbstractHarmonicCoefficients without its five generic methods (those are translated)
PINNED_ABSTRACT = '''
@dataclass
class AbstractHarmonicCoefficients(ABC):
    amplitude0: float = 1
    phase0: float = 0
    offset0: float = 0

    @abstractmethod
    def _amplitude_coefficient(self, n: int) -> float:
        ...

    @abstractmethod
    def _phase_coefficient(self, n: int) -> float:
        ...
'''
GENERIC_METHODS = ['amplitude', 'phase', 'a', 'b', 'c']            # translated, in this order
ABSTRACT_METHODS = ['_amplitude_coefficient', '_phase_coefficient']
PINNED_FUNCS = '''
def fourier_series(time_function: PeriodicFunction) -> HarmonicCoefficients:
    try:
        return fourier_series_mapping[type(time_function)](amplitude0=time_function.amplitude, phase0=time_function.phase, offset0=time_function.offset)
    except KeyError:
        raise TransformationError(f'No fourier coefficents found for time function of type {type(time_function).__name__}')
'''
PINNED_ASSIGN = 'list(fourier_series_mapping.keys())'
# names whose (re)definition at module level would change the meaning of the pinned/translated code
EXPECTED_TOPLEVEL_CLASSES_EXTRA = {'UnknownWavetype', 'TransformationError', 'PeriodicFunction', 'HarmonicCoefficients',
                                   ABSTRACT}
EXPECTED_EXCEPTIONS = {'UnknownWavetype', 'TransformationError'}     # module-level `class E(Exception): ...`
EXPECTED_TOPLEVEL_FUNCS = {'fourier_series', 'periodic_function'}
EXPECTED_TOPLEVEL_ASSIGNS = {'PeriodicFunctionList', 'fourier_series_mapping', 'periodic_functions'}
EXPECTED_IMPORTS = [
    "ImportFrom(module='typing', names=[alias(name='Protocol'), alias(name='Type')], level=0)",
    "ImportFrom(module='abc', names=[alias(name='ABC'), alias(name='abstractmethod')], level=0)",
    "ImportFrom(module='dataclasses', names=[alias(name='dataclass')], level=0)",
    "ImportFrom(module='types', names=[alias(name='TimeDomainFunction')], level=1)",
    "Import(names=[alias(name='numpy', asname='np')])",
]


def _dump(node):
    return ast.dump(node, annotate_fields=True, include_attributes=False)


# ---- expression translator ------------------------------------------------------------------------------------------
class Ctx:
    """name environment of one function body.  kinds: 'Z' integer, 'R' real, 'B' comparison result, 'F' local real->real
    function, 'J' imaginary unit (+1j / -1j; Coq bool, true = -1j)"""

    def __init__(self, path, fields, methods=None):
        self.path = path
        self.fields = fields          # names allowed as self.<field> (all real)
        self.methods = methods or {}  # names allowed as self.<method>(<int>) -> Coq function Z -> RT O   (generic methods only)
        self.env = {}                 # python name -> (kind, coq identifier)

    def bind(self, node, name, kind):
        if name in self.env:
            raise Unsupported(f'{where(node, self.path)}: rebinding/shadowing of name {name!r}')
        if not re.fullmatch(r'[A-Za-z_][A-Za-z0-9_]*', name):
            raise Unsupported(f'{where(node, self.path)}: identifier {name!r}')
        coq = 'v_' + name
        self.env[name] = (kind, coq)
        return coq

    def unbind(self, name):
        del self.env[name]


def _is_np(node, attr):
    return isinstance(node, ast.Attribute) and isinstance(node.value, ast.Name) and node.value.id == 'np' \
        and node.attr == attr


def to_real(tv):
    text, ty = tv
    if ty == 'R':
        return text
    if ty == 'Z':
        return f'(rofZ O {text})'
    raise Unsupported(f'a value of kind {ty} used as a real number')


def expr(node, cx):
    """-> (coq text, type) with type in {'Z','R','B'}"""
    w = where(node, cx.path)
    if isinstance(node, ast.Constant):
        v = node.value
        if isinstance(v, complex) and cx.methods and v == 1j:
            return ('false', 'J')                          # the imaginary unit +1j
        if isinstance(v, bool) or not isinstance(v, (int, float)):
            raise Unsupported(f'{w}: constant {v!r}')
        if isinstance(v, int):
            return (f'({v})%Z', 'Z')
        if v != v or v in (float('inf'), float('-inf')):
            raise Unsupported(f'{w}: float constant {v!r}')
        num, den = v.as_integer_ratio()
        if den == 1:
            return (f'(rofZ O ({num})%Z)', 'R')
        return (f'(rdiv O (rofZ O ({num})%Z) (rofZ O ({den})%Z))', 'R')
    if isinstance(node, ast.Name):
        if node.id not in cx.env:
            raise Unsupported(f'{w}: unknown name {node.id!r}')
        kind, coq = cx.env[node.id]
        if kind == 'F':
            raise Unsupported(f'{w}: local function {node.id!r} used as a value')
        return (coq, kind)
    if isinstance(node, ast.Attribute):
        if isinstance(node.value, ast.Name) and node.value.id == 'self' and 'self' not in cx.env:
            if node.attr in cx.fields:
                return ('s_' + node.attr, 'R')
            raise Unsupported(f'{w}: attribute self.{node.attr}')
        if _is_np(node, 'pi'):
            return ('(rpi O)', 'R')
        raise Unsupported(f'{w}: attribute access {ast.unparse(node)}')
    if isinstance(node, ast.UnaryOp):
        if not isinstance(node.op, ast.USub):
            raise Unsupported(f'{w}: unary operator {type(node.op).__name__}')
        if isinstance(node.operand, ast.Constant) and isinstance(node.operand.value, int) \
                and not isinstance(node.operand.value, bool):
            return (f'({-node.operand.value})%Z', 'Z')      # literal -3 (keeps `rofZ` arguments closed numerals)
        t, ty = expr(node.operand, cx)
        if ty == 'Z':
            return (f'(Z.opp {t})', 'Z')
        if ty == 'R':
            return (f'(ropp O {t})', 'R')
        if ty == 'J':
            return ({'false': 'true', 'true': 'false'}.get(t, f'(negb {t})'), 'J')
        raise Unsupported(f'{w}: unary minus on a value of kind {ty}')
    if isinstance(node, ast.BinOp):
        l, r = expr(node.left, cx), expr(node.right, cx)
        op = type(node.op)
        if op is ast.Mult and 'J' in (l[1], r[1]):
            # <unit> * <real>: the purely imaginary number with imaginary part +-real
            u, x = (l, r) if l[1] == 'J' else (r, l)
            if x[1] not in ('Z', 'R'):
                raise Unsupported(f'{w}: imaginary unit multiplied with a value of kind {x[1]}')
            y = to_real(x)
            return ({'false': y, 'true': f'(ropp O {y})'}.get(u[0], f'(if {u[0]} then (ropp O {y}) else {y})'), 'I')
        if op is ast.Mult and l[1] in ('Z', 'R') and r[1] == 'C':
            k = to_real(l)
            return ((f'(rmul O {k} {r[0][0]})', f'(rmul O {k} {r[0][1]})'), 'C')
        if l[1] not in ('Z', 'R') or r[1] not in ('Z', 'R'):
            raise Unsupported(f'{w}: arithmetic {op.__name__} on values of kinds {l[1]}, {r[1]}')
        both_int = l[1] == 'Z' and r[1] == 'Z'
        if op in (ast.Add, ast.Sub, ast.Mult):
            zname, rname = {ast.Add: ('Z.add', 'radd'), ast.Sub: ('Z.sub', 'rsub'), ast.Mult: ('Z.mul', 'rmul')}[op]
            if both_int:
                return (f'({zname} {l[0]} {r[0]})', 'Z')
            return (f'({rname} O {to_real(l)} {to_real(r)})', 'R')
        if op is ast.Div:
            return (f'(rdiv O {to_real(l)} {to_real(r)})', 'R')
        if op is ast.Mod:
            if both_int:
                return (f'(Z.modulo {l[0]} {r[0]})', 'Z')
            return (f'(rmod O {to_real(l)} {to_real(r)})', 'R')
        raise Unsupported(f'{w}: binary operator {op.__name__}')
    if isinstance(node, ast.IfExp):
        c = expr(node.test, cx)
        if c[1] != 'B':
            raise Unsupported(f'{w}: condition of a conditional expression is not a comparison')
        a, b = expr(node.body, cx), expr(node.orelse, cx)
        if a[1] == 'J' and b[1] == 'J':
            return (f'(if {c[0]} then {a[0]} else {b[0]})', 'J')
        if a[1] not in ('Z', 'R') or b[1] not in ('Z', 'R'):
            raise Unsupported(f'{w}: conditional expression with branches of kinds {a[1]}, {b[1]}')
        if a[1] == 'Z' and b[1] == 'Z':
            return (f'(if {c[0]} then {a[0]} else {b[0]})', 'Z')
        return (f'(if {c[0]} then {to_real(a)} else {to_real(b)})', 'R')
    if isinstance(node, ast.Compare):
        if len(node.ops) != 1 or len(node.comparators) != 1:
            raise Unsupported(f'{w}: chained comparison')
        l, r = expr(node.left, cx), expr(node.comparators[0], cx)
        if l[1] not in ('Z', 'R') or r[1] not in ('Z', 'R'):
            raise Unsupported(f'{w}: comparison of values of kinds {l[1]}, {r[1]}')
        op = type(node.ops[0])
        if l[1] == 'Z' and r[1] == 'Z':
            tab = {ast.Eq: 'Z.eqb {0} {1}', ast.NotEq: 'negb (Z.eqb {0} {1})', ast.Lt: 'Z.ltb {0} {1}',
                   ast.LtE: 'Z.leb {0} {1}', ast.Gt: 'Z.ltb {1} {0}', ast.GtE: 'Z.leb {1} {0}'}
        else:
            l, r = (to_real(l), 'R'), (to_real(r), 'R')
            tab = {ast.Lt: 'rltb O {0} {1}', ast.Gt: 'rltb O {1} {0}', ast.LtE: 'negb (rltb O {1} {0})',
                   ast.GtE: 'negb (rltb O {0} {1})'}
        if op not in tab:
            raise Unsupported(f'{w}: comparison operator {op.__name__} on {"ints" if l[1] == "Z" else "reals"}')
        return ('(' + tab[op].format(l[0], r[0]) + ')', 'B')
    if isinstance(node, ast.Call):
        if node.keywords:
            raise Unsupported(f'{w}: keyword arguments in call')
        f = node.func
        if _is_np(f, 'cos') or _is_np(f, 'sin'):
            if len(node.args) != 1:
                raise Unsupported(f'{w}: np.{f.attr} with {len(node.args)} arguments')
            return (f'(r{f.attr} O {to_real(_arith(node.args[0], cx))})', 'R')
        if _is_np(f, 'mod'):
            if len(node.args) != 2:
                raise Unsupported(f'{w}: np.mod with {len(node.args)} arguments')
            return (f'(rmod O {to_real(_arith(node.args[0], cx))} {to_real(_arith(node.args[1], cx))})', 'R')
        if _is_np(f, 'exp') and cx.methods:
            if len(node.args) != 1:
                raise Unsupported(f'{w}: np.exp with {len(node.args)} arguments')
            y = expr(node.args[0], cx)
            if y[1] != 'I':
                raise Unsupported(f'{w}: np.exp of anything but <+-1j> * <real>')
            return ((f'(rcos O {y[0]})', f'(rsin O {y[0]})'), 'C')
        if isinstance(f, ast.Attribute) and isinstance(f.value, ast.Name) and f.value.id == 'self' and 'self' not in cx.env \
                and f.attr in cx.methods:
            if len(node.args) != 1:
                raise Unsupported(f'{w}: self.{f.attr} with {len(node.args)} arguments')
            a = expr(node.args[0], cx)
            if a[1] != 'Z':
                raise Unsupported(f'{w}: self.{f.attr} applied to a value of kind {a[1]} (an int is expected)')
            return (f'({cx.methods[f.attr]} {a[0]})', 'R')
        if _is_np(f, 'ones'):
            a = node.args
            if len(a) == 1 and isinstance(a[0], ast.Attribute) and a[0].attr == 'shape' \
                    and isinstance(a[0].value, ast.Name) and cx.env.get(a[0].value.id, ('', ''))[0] == 'R':
                return ('(rofZ O 1%Z)', 'R')
            raise Unsupported(f'{w}: np.ones of anything but <real variable>.shape')
        if isinstance(f, ast.Name) and cx.env.get(f.id, ('', ''))[0] == 'F':
            if len(node.args) != 1:
                raise Unsupported(f'{w}: local function {f.id} called with {len(node.args)} arguments')
            return (f'({cx.env[f.id][1]} {to_real(_arith(node.args[0], cx))})', 'R')
        raise Unsupported(f'{w}: call of {ast.unparse(f)}')
    raise Unsupported(f'{w}: expression {type(node).__name__}')


def _arith(node, cx):
    tv = expr(node, cx)
    if tv[1] not in ('Z', 'R'):
        raise Unsupported(f'{where(node, cx.path)}: value of kind {tv[1]} used as a real number')
    return tv


def lambda_real(node, cx):
    """`lambda x: e` with one plain positional parameter -> 'fun v_x : RT O => e' (e coerced to real)"""
    w = where(node, cx.path)
    if not isinstance(node, ast.Lambda):
        raise Unsupported(f'{w}: expected a lambda, found {type(node).__name__}')
    a = node.args
    if a.posonlyargs or a.kwonlyargs or a.vararg or a.kwarg or a.defaults or a.kw_defaults or len(a.args) != 1:
        raise Unsupported(f'{w}: lambda parameter list')
    name = a.args[0].arg
    coq = cx.bind(node, name, 'R')
    body = to_real(_arith(node.body, cx))
    cx.unbind(name)
    return f'(fun {coq} : RT O => {body})'


# ---- statements -----------------------------------------------------------------------------------------------------
def plain_params(fn, path, n):
    a = fn.args
    if a.posonlyargs or a.kwonlyargs or a.vararg or a.kwarg or a.defaults or a.kw_defaults or len(a.args) != n \
            or a.args[0].arg != 'self':
        raise Unsupported(f'{where(fn, path)}: parameter list of {fn.name}')
    return [x.arg for x in a.args[1:]]


def block(stmts, cx, want, owner, ind='  '):
    """BLOCK = ( `<name> = <expr>` | `if <cmp>: BLOCK` )* `return <expr>`  ->  Coq term of kind `want` ('R' real, 'C' pair)"""
    if not stmts:
        raise Unsupported(f'{where(owner, cx.path)}: a path ends without `return <expr>`')
    st, rest = stmts[0], stmts[1:]
    w = where(st, cx.path)
    if isinstance(st, ast.Return):
        if st.value is None or rest:
            raise Unsupported(f'{w}: bare `return`, or a statement after `return`')
        v = expr(st.value, cx)
        if want == 'C':
            if v[1] != 'C':
                raise Unsupported(f'{w}: returned value of kind {v[1]} where a complex number is expected')
            return f'({v[0][0]},\n{ind} {v[0][1]})'
        if v[1] not in ('Z', 'R'):
            raise Unsupported(f'{w}: returned value of kind {v[1]} where a real number is expected')
        return to_real(v)
    if isinstance(st, ast.Assign):
        if not (len(st.targets) == 1 and isinstance(st.targets[0], ast.Name)):
            raise Unsupported(f'{w}: assignment target (only `<name> = <expr>` is allowed)')
        v = expr(st.value, cx)
        if v[1] not in ('Z', 'R', 'B', 'J'):
            raise Unsupported(f'{w}: a local cannot be bound to a value of kind {v[1]}')
        coq = cx.bind(st, st.targets[0].id, v[1])
        return f'let {coq} := {v[0]} in\n{ind}' + block(rest, cx, want, owner, ind)
    if isinstance(st, ast.If):
        if st.orelse:
            raise Unsupported(f'{w}: `if` with `else` (write the else-branch after the returning `if`)')
        c = expr(st.test, cx)
        if c[1] != 'B':
            raise Unsupported(f'{w}: `if` condition is not a comparison')
        saved = dict(cx.env)
        a = block(st.body, cx, want, st, ind + '  ')             # returns on every path: the rest is the else-branch
        cx.env = saved
        if not (len(st.body) == 1 and isinstance(st.body[0], ast.Return) and want == 'R'):
            a = f'({a})'
        return f'if {c[0]} then {a}\n{ind}else ' + block(rest, cx, want, owner, ind)
    raise Unsupported(f'{w}: statement {type(st).__name__} (a block is `<name> = <expr>` / `if <cmp>: <block>` / `return <expr>`)')


def coefficient_body(fn, path, fields, methods=None, want='R'):
    """a block with one int parameter (named n in Coq)"""
    if fn.decorator_list:
        raise Unsupported(f'{where(fn, path)}: decorator on {fn.name}')
    (param,) = plain_params(fn, path, 2)
    cx = Ctx(path, fields, methods)
    cx.env[param] = ('Z', 'n')
    return block(fn.body, cx, want, fn)


def local_function(st, cx):
    """def <name>(<x>[: T]) [-> T]: BLOCK   ->  'fun v_x : RT O => <block>'"""
    w = where(st, cx.path)
    a = st.args
    if st.decorator_list or a.posonlyargs or a.kwonlyargs or a.vararg or a.kwarg or a.defaults or a.kw_defaults \
            or len(a.args) != 1:
        raise Unsupported(f'{w}: local function {st.name}: decorators / parameter list (one plain parameter is allowed)')
    for ann in (a.args[0].annotation, st.returns):
        if ann is not None and not (isinstance(ann, ast.Name) and ann.id in ('float', 'int')):
            raise Unsupported(f'{w}: local function {st.name}: annotation {ast.unparse(ann)}')
    saved = dict(cx.env)
    coq = cx.bind(st, a.args[0].arg, 'R')
    body = block(st.body, cx, 'R', st, '    ')
    cx.env = saved                                               # parameter and locals of the function end here
    return f'(fun {coq} : RT O =>\n    {body})'


def time_function_body(fn, path):
    if [_dump(d) for d in fn.decorator_list] != ["Name(id='property', ctx=Load())"]:
        raise Unsupported(f'{where(fn, path)}: time_function must be decorated with exactly @property')
    plain_params(fn, path, 1)
    cx = Ctx(path, TIME_FIELDS)
    lets = []
    if not fn.body:
        raise Unsupported(f'{where(fn, path)}: empty body')
    for st in fn.body[:-1]:
        if isinstance(st, ast.FunctionDef):
            val = local_function(st, cx)
            coq = cx.bind(st, st.name, 'F')                      # bound after its body: not recursive
            lets.append(f'let {coq} := {val} in')
            continue
        if not (isinstance(st, ast.Assign) and len(st.targets) == 1 and isinstance(st.targets[0], ast.Name)):
            raise Unsupported(f'{where(st, path)}: statement {type(st).__name__} (only `<name> = <expr>` and local '
                              f'`def` are allowed here)')
        name = st.targets[0].id
        if isinstance(st.value, ast.Lambda):
            val = lambda_real(st.value, cx)
            coq = cx.bind(st, name, 'F')
        else:
            val = to_real(_arith(st.value, cx))
            coq = cx.bind(st, name, 'R')
        lets.append(f'let {coq} := {val} in')
    last = fn.body[-1]
    if not (isinstance(last, ast.Return) and last.value is not None):
        raise Unsupported(f'{where(last, path)}: time_function must end in `return <function>`')
    v = last.value
    if isinstance(v, ast.Call) and _is_np(v.func, 'vectorize'):
        if v.keywords or len(v.args) != 1:
            raise Unsupported(f'{where(v, path)}: np.vectorize arguments')
        v = v.args[0]
    if isinstance(v, ast.Name):
        if cx.env.get(v.id, ('', ''))[0] != 'F':
            raise Unsupported(f'{where(v, path)}: time_function returns {v.id!r}, which is not a local function')
        lets.append(cx.env[v.id][1])
    else:
        lets.append(lambda_real(v, cx))
    return '\n  '.join(lets)


def _is_wavetype_test(test, pf, param):
    """`<pf>.wavetype == <param>` (either order)"""
    if not (isinstance(test, ast.Compare) and len(test.ops) == 1 and isinstance(test.ops[0], ast.Eq)):
        return False
    sides = [test.left, test.comparators[0]]

    def attr(e):
        return isinstance(e, ast.Attribute) and e.attr == 'wavetype' and isinstance(e.value, ast.Name) and e.value.id == pf

    def par(e):
        return isinstance(e, ast.Name) and e.id == param
    return (attr(sides[0]) and par(sides[1])) or (par(sides[0]) and attr(sides[1]))


def _raised_class(st, known):
    """`raise E(<one string / f-string argument>)` -> 'E'  (None when the statement is something else)"""
    if not (isinstance(st, ast.Raise) and st.cause is None and isinstance(st.exc, ast.Call)
            and isinstance(st.exc.func, ast.Name) and st.exc.func.id in known and not st.exc.keywords
            and len(st.exc.args) == 1 and isinstance(st.exc.args[0], (ast.JoinedStr, ast.Constant))):
        return None
    return st.exc.func.id


def lookup_body(fn, path, exceptions):
    """periodic_function(wavetype) -> (comment, Coq term over v_wavetype); see the module docstring for the two shapes"""
    w = where(fn, path)
    a = fn.args
    if fn.decorator_list or a.posonlyargs or a.kwonlyargs or a.vararg or a.kwarg or a.defaults or a.kw_defaults \
            or len(a.args) != 1:
        raise Unsupported(f'{w}: parameter list / decorators of {fn.name}')
    param = a.args[0].arg
    test_coq = ('(fun v_pf => match class_wavetype v_pf with Some w => label_eqb w v_wavetype | None => false end)')

    def err(e):
        return f'inr {coq_string_codes(e)} (* {e} *)'
    body = fn.body
    # shape 1: try: return [pf for pf in periodic_functions if <test>][0] / except IndexError: raise E(..)
    if len(body) == 1 and isinstance(body[0], ast.Try):
        t = body[0]
        ok = not t.orelse and not t.finalbody and len(t.handlers) == 1 and len(t.body) == 1 and len(t.handlers[0].body) == 1 \
            and isinstance(t.handlers[0].type, ast.Name) and t.handlers[0].type.id == 'IndexError' and t.handlers[0].name is None \
            and isinstance(t.body[0], ast.Return) and isinstance(t.body[0].value, ast.Subscript)
        e = _raised_class(t.handlers[0].body[0], exceptions) if ok else None
        if ok and e:
            sub = t.body[0].value
            lc = sub.value
            if isinstance(sub.slice, ast.Constant) and sub.slice.value == 0 and not isinstance(sub.slice.value, bool) \
                    and isinstance(lc, ast.ListComp) and len(lc.generators) == 1:
                g = lc.generators[0]
                if not g.is_async and isinstance(g.target, ast.Name) and g.target.id != param \
                        and isinstance(g.iter, ast.Name) and g.iter.id == 'periodic_functions' and param != 'periodic_functions' \
                        and g.target.id != 'periodic_functions' and len(g.ifs) == 1 \
                        and isinstance(lc.elt, ast.Name) and lc.elt.id == g.target.id \
                        and _is_wavetype_test(g.ifs[0], g.target.id, param):
                    return (f'match filter {test_coq} periodic_functions with\n'
                            f'  | x :: _ => inl x\n  | [] => {err(e)}\n  end')
    # shape 2: for pf in periodic_functions: if <test>: return pf / raise E(..)
    if len(body) == 2 and isinstance(body[0], ast.For):
        f = body[0]
        e = _raised_class(body[1], exceptions)
        if e and not f.orelse and isinstance(f.target, ast.Name) and f.target.id not in (param, 'periodic_functions') \
                and isinstance(f.iter, ast.Name) and f.iter.id == 'periodic_functions' and param != 'periodic_functions' \
                and len(f.body) == 1 and isinstance(f.body[0], ast.If) and not f.body[0].orelse \
                and _is_wavetype_test(f.body[0].test, f.target.id, param) and len(f.body[0].body) == 1 \
                and isinstance(f.body[0].body[0], ast.Return) and isinstance(f.body[0].body[0].value, ast.Name) \
                and f.body[0].body[0].value.id == f.target.id:
            return (f'match find {test_coq} periodic_functions with\n'
                    f'  | Some x => inl x\n  | None => {err(e)}\n  end')
    raise Unsupported(f'{w}: {fn.name} is of neither accepted shape (see the docstring of tools/gen_periodic.py)')


# ---- classes and tables ---------------------------------------------------------------------------------------------
def ann_fields(cls, path):
    """dataclass fields [(name, annotation text, default node or None)] ; rest of the body"""
    fields, rest = [], []
    for st in cls.body:
        if isinstance(st, ast.AnnAssign) and isinstance(st.target, ast.Name) and st.simple:
            fields.append((st.target.id, ast.unparse(st.annotation), st.value))
        else:
            rest.append(st)
    return fields, rest


def time_class(cls, path):
    """-> (wavetype string, time_function FunctionDef)"""
    w = where(cls, path)
    if cls.bases or cls.keywords or [_dump(d) for d in cls.decorator_list] != ["Name(id='dataclass', ctx=Load())"]:
        raise Unsupported(f'{w}: class {cls.name} must be a plain @dataclass without bases')
    fields, rest = ann_fields(cls, path)
    if [(n, a) for n, a, _ in fields] != [(f, 'float') for f in TIME_FIELDS] + [('wavetype', 'str')]:
        raise Unsupported(f'{w}: fields of {cls.name} are not {TIME_FIELDS} : float, wavetype : str')
    for n, _, d in fields[:-1]:
        if d is not None and not (isinstance(d, ast.Constant) and isinstance(d.value, (int, float))
                                  and not isinstance(d.value, bool)):
            raise Unsupported(f'{w}: default of {cls.name}.{n}')
    wt = fields[-1][2]
    if not (isinstance(wt, ast.Constant) and isinstance(wt.value, str) and re.fullmatch(r'[a-z][a-z0-9]*', wt.value)):
        raise Unsupported(f'{w}: wavetype default of {cls.name} must be a lower-case identifier string')
    if len(rest) != 1 or not isinstance(rest[0], ast.FunctionDef) or rest[0].name != 'time_function':
        raise Unsupported(f'{w}: body of {cls.name}: exactly the fields and the property time_function are allowed')
    return wt.value, rest[0]


def harmonics_class(cls, path):
    w = where(cls, path)
    if [_dump(b) for b in cls.bases] != [f"Name(id='{ABSTRACT}', ctx=Load())"] or cls.keywords or cls.decorator_list:
        raise Unsupported(f'{w}: class {cls.name} must derive from exactly {ABSTRACT}, undecorated')
    names = [st.name if isinstance(st, ast.FunctionDef) else type(st).__name__ for st in cls.body]
    if sorted(names) != ['_amplitude_coefficient', '_phase_coefficient']:
        raise Unsupported(f'{w}: body of {cls.name}: exactly _amplitude_coefficient and _phase_coefficient are allowed')
    d = {st.name: st for st in cls.body}
    return d['_amplitude_coefficient'], d['_phase_coefficient']


def check_pinned(tree, path):
    cl, fn = classes(tree), functions(tree)
    exp = ast.parse(PINNED_ABSTRACT).body[0]
    if ABSTRACT not in cl:
        raise Unsupported(f'{path}: class {ABSTRACT} not found')
    c = cl[ABSTRACT]
    names = [st.name for st in c.body if isinstance(st, ast.FunctionDef)]
    if sorted(names) != sorted(GENERIC_METHODS + ABSTRACT_METHODS):
        raise Unsupported(f'{where(c, path)}: methods of {ABSTRACT} are {names}, expected {GENERIC_METHODS + ABSTRACT_METHODS}')
    rest = ast.ClassDef(name=c.name, bases=c.bases, keywords=c.keywords, decorator_list=c.decorator_list, type_params=[],
                        body=[st for st in c.body if not (isinstance(st, ast.FunctionDef) and st.name in GENERIC_METHODS)])
    if _dump(rest) != _dump(exp):
        raise Unsupported(f'{path}: class {ABSTRACT} (header, fields, abstract methods) differs from the hand-modelled text '
                          f'(Model/Harmonics.v)')
    for e in ast.parse(PINNED_FUNCS).body:
        if e.name not in fn or _dump(fn[e.name]) != _dump(e):
            raise Unsupported(f'{path}: function {e.name} differs from the hand-modelled text (Model/Harmonics.v)')
    if _dump(module_assign(tree, 'periodic_functions')) != _dump(ast.parse(PINNED_ASSIGN).body[0].value):
        raise Unsupported(f'{path}: periodic_functions is not {PINNED_ASSIGN}')


def generic_methods(cls, path, hfields):
    """the five generic methods of AbstractHarmonicCoefficients as functions of the two abstract ones"""
    mp = 'm_amplitude_coefficient m_phase_coefficient'
    base = {'_amplitude_coefficient': 'm_amplitude_coefficient', '_phase_coefficient': 'm_phase_coefficient'}
    upper = dict(base, amplitude=f'abstract_amplitude O {mp}', phase=f'abstract_phase O {mp}')
    d = {st.name: st for st in cls.body if isinstance(st, ast.FunctionDef)}
    out = []
    for name in GENERIC_METHODS:
        f = d[name]
        want = 'C' if name == 'c' else 'R'
        methods = base if name in ('amplitude', 'phase') else upper
        # the dataclass fields are not readable here: Model/Harmonics.v abstracts from them
        body = coefficient_body(f, path, [], methods, want)
        ty = 'RT O * RT O' if want == 'C' else 'RT O'
        out.append(f'(* {ABSTRACT}.{name}  ({REL}:{f.lineno}) *)\n'
                   f'Definition abstract_{name} (O : rops) ({mp} : Z -> RT O) (n : Z) : {ty} :=\n  {body}.\n')
    return out


def generate(src_root):
    path = os.path.join(src_root, REL)
    tree = parse(path)
    check_pinned(tree, path)
    cl = classes(tree)

    # module-level inventory: nothing may be (re)defined behind the translator's back
    imports, assigns, nclass = [], [], {}
    for st in tree.body:
        if isinstance(st, (ast.Import, ast.ImportFrom)):
            imports.append(_dump(st))
        elif isinstance(st, ast.ClassDef):
            nclass[st.name] = nclass.get(st.name, 0) + 1
        elif isinstance(st, ast.FunctionDef):
            if st.name not in EXPECTED_TOPLEVEL_FUNCS:
                raise Unsupported(f'{where(st, path)}: unexpected module-level function {st.name}')
        elif isinstance(st, ast.Assign) and len(st.targets) == 1 and isinstance(st.targets[0], ast.Name):
            assigns.append(st.targets[0].id)
        elif isinstance(st, ast.AnnAssign) and isinstance(st.target, ast.Name):
            assigns.append(st.target.id)
        else:
            raise Unsupported(f'{where(st, path)}: module-level statement {type(st).__name__}')
    if imports != EXPECTED_IMPORTS:
        raise Unsupported(f'{path}: import list changed (np must be numpy, etc.)')
    if sorted(assigns) != sorted(EXPECTED_TOPLEVEL_ASSIGNS):
        raise Unsupported(f'{path}: module-level assignments {sorted(assigns)}')
    if any(k > 1 for k in nclass.values()) or len(functions(tree)) != len(EXPECTED_TOPLEVEL_FUNCS):
        raise Unsupported(f'{path}: duplicate module-level definition')

    # fourier_series_mapping : { TimeClass: HarmonicsClass, ... }
    m = module_assign(tree, 'fourier_series_mapping')
    if not isinstance(m, ast.Dict) or not m.keys:
        raise Unsupported(f'{where(m, path)}: fourier_series_mapping is not a dict literal')
    pairs = []
    for k, v in zip(m.keys, m.values):
        if not (isinstance(k, ast.Name) and isinstance(v, ast.Name)):
            raise Unsupported(f'{where(m, path)}: fourier_series_mapping entry {ast.unparse(k) if k else "**"}')
        if k.id not in cl or v.id not in cl:
            raise Unsupported(f'{where(k, path)}: fourier_series_mapping names an unknown class')
        pairs.append((k.id, v.id))
    tnames, hnames = [p[0] for p in pairs], [p[1] for p in pairs]
    if len(set(tnames)) != len(tnames) or len(set(hnames)) != len(hnames):
        raise Unsupported(f'{where(m, path)}: duplicate class in fourier_series_mapping')
    other = set(cl) - set(tnames) - set(hnames)
    if other != EXPECTED_TOPLEVEL_CLASSES_EXTRA:
        raise Unsupported(f'{path}: classes outside fourier_series_mapping: {sorted(other)}')

    # harmonic parameter fields from the pinned abstract class
    hfields = [n for n, _, _ in ann_fields(cl[ABSTRACT], path)[0]]
    gdefs = generic_methods(cl[ABSTRACT], path, hfields)
    lookup = lookup_body(functions(tree)['periodic_function'], path, EXPECTED_EXCEPTIONS)

    waves, defs = [], []
    for tn, hn in pairs:
        wt, tf = time_class(cl[tn], path)
        if wt in waves:
            raise Unsupported(f'{where(cl[tn], path)}: wavetype {wt!r} used twice')
        waves.append(wt)
        fa, fp = harmonics_class(cl[hn], path)
        tparams = ' '.join('s_' + f for f in TIME_FIELDS)
        hparams = ' '.join('s_' + f for f in hfields)
        defs.append(f'(* {tn}.time_function  ({REL}:{tf.lineno}) *)\n'
                    f'Definition {wt}_time (O : rops) ({tparams} : RT O) : RT O -> RT O :=\n  '
                    f'{time_function_body(tf, path)}.\n')
        defs.append(f'(* {hn}._amplitude_coefficient  ({REL}:{fa.lineno}) *)\n'
                    f'Definition {wt}_amplitude (O : rops) ({hparams} : RT O) (n : Z) : RT O :=\n  '
                    f'{coefficient_body(fa, path, hfields)}.\n')
        defs.append(f'(* {hn}._phase_coefficient  ({REL}:{fp.lineno}) *)\n'
                    f'Definition {wt}_phase (O : rops) ({hparams} : RT O) (n : Z) : RT O :=\n  '
                    f'{coefficient_body(fp, path, hfields)}.\n')

    # class indices: time classes and harmonics classes are numbered in the order of the mapping's keys / values
    def table(name, ty, items):
        return f'Definition {name} : {ty} :=\n  [' + ';\n   '.join(items) + '].\n'

    nw = len(waves)
    idx = range(nw)
    tty = 'RT O -> RT O -> RT O -> RT O -> RT O -> RT O'
    hty = ' -> '.join(['RT O'] * len(hfields)) + ' -> Z -> RT O'

    def dispatch(name, ty, suffix, comment):
        arms = ' '.join(f'| {i}%N => Some ({waves[i]}_{suffix} O)' for i in idx)
        return f'(* {comment} *)\nDefinition {name} (O : rops) (i : N) : option ({ty}) :=\n  match i with {arms} | _ => None end.\n'

    out = [
        f'(* GENERATED by tools/gen_periodic.py from {REL} — do not edit. *)',
        'From Coq Require Import ZArith NArith List Bool.',
        'From CC Require Import Model.Network Model.Rops.',
        'Import ListNotations.',
        '',
        *defs,
        '(* ---- the generic methods of AbstractHarmonicCoefficients, as functions of self._amplitude_coefficient and',
        '   self._phase_coefficient; complex numbers are pairs (re, im), np.exp(+-1j*y) = (cos +-y, sin +-y) ---- *)',
        *gdefs,
        '(* ---- tables; a class is named by its position among the keys (time-function classes) resp. the values',
        '   (harmonics classes) of fourier_series_mapping ---- *)',
        table('time_classes', 'list (list N)', [coq_string_codes(t) + f' (* {t} *)' for t in tnames]),
        table('harmonics_classes', 'list (list N)', [coq_string_codes(h) + f' (* {h} *)' for h in hnames]),
        '(* default of the dataclass field `wavetype` of time class i *)',
        table('wavetypes', 'list (list N * N)', [f'({coq_string_codes(waves[i])}, {i}%N) (* {waves[i]} *)' for i in idx]),
        '(* fourier_series_mapping : time class i -> harmonics class j *)',
        table('harmonics_of', 'list (N * N)', [f'({i}%N, {i}%N)' for i in idx]),
        '(* periodic_functions = list(fourier_series_mapping.keys()) *)',
        table('periodic_functions', 'list N', [f'{i}%N' for i in idx]),
        '(* parameter names of the harmonics dataclass, in constructor order *)',
        table('harmonics_fields', 'list (list N)', [coq_string_codes(f) + f' (* {f} *)' for f in hfields]),
        dispatch('time_function', tty, 'time', 'time class i -> its time_function (period amplitude phase offset t)'),
        dispatch('amplitude_coefficient', hty, 'amplitude',
                 'harmonics class j -> its _amplitude_coefficient (amplitude0 phase0 offset0 n)'),
        dispatch('phase_coefficient', hty, 'phase', 'harmonics class j -> its _phase_coefficient'),
        '(* <class i>.wavetype: the dataclass default recorded in [wavetypes] *)',
        'Fixpoint class_attr_in (l : list (list N * N)) (i : N) : option (list N) :=',
        '  match l with [] => None | (w, k) :: r => if N.eqb k i then Some w else class_attr_in r i end.',
        'Definition class_wavetype (i : N) : option (list N) := class_attr_in wavetypes i.',
        '',
        f'(* periodic_function(wavetype)  ({REL}:{functions(tree)["periodic_function"].lineno}):',
        '   inl <index of the class returned> | inr <name of the exception class raised> *)',
        'Definition lookup_periodic_function (v_wavetype : list N) : N + list N :=',
        '  ' + lookup + '.',
        '',
    ]
    return {'Periodic.v': '\n'.join(out)}
